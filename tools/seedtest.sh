#!/bin/bash
# usage: seedtest.sh <seeded-name> <pid> [tier]  -- applies /verif/seeded/<name>/patch.diff to /repo, runs the check, reverts.
set -u
NAME=$1; PID=$2; TIER=${3:-quick}
cd /repo; git diff --quiet || { echo "/repo not clean"; exit 2; }
git apply /verif/seeded/$NAME/patch.diff || { echo "patch does not apply to /repo HEAD"; exit 2; }
cd /verif; ./check $PID --tier $TIER > /verif/_build/tmp/seed-$NAME-$PID.out 2>&1; RC=$?
git -C /repo checkout -q -- .
echo "seed=$NAME check=$PID rc=$RC"; grep -E "^VIOLATION|^KNOWN" /verif/_build/tmp/seed-$NAME-$PID.out | head -5; grep -E "^\s+->" /verif/_build/tmp/seed-$NAME-$PID.out | head -3
