#!/bin/bash
# usage: verify_seed.sh <worktree> <seeddir> <name>   -- confirms a seeded change in a scratch worktree and stores it under /verif/seeded/<name>
# checks: patch applies; suite's stable-pass set still passes with the patch; demo fails with patch and passes without.
set -u
WT=$1; SD=$2; NAME=$3
cd "$WT" || exit 2
git checkout -q -- . ; rm -f tests/seed_demo.rs
git apply --check "$SD/patch.diff" || { echo "PATCH DOES NOT APPLY"; exit 1; }
cp "$SD/demo.rs" tests/seed_demo.rs
echo "== demo without patch"; CARGO_NET_OFFLINE=true cargo test --offline --test seed_demo 2>&1 | grep -E "^test result|^test .* (ok|FAILED)" | tail -8
WITHOUT=$(CARGO_NET_OFFLINE=true cargo test --offline --test seed_demo 2>&1 | grep -c "^test result: ok")
git apply "$SD/patch.diff"
echo "== demo with patch"; CARGO_NET_OFFLINE=true cargo test --offline --test seed_demo 2>&1 | grep -E "^test result|^test .* (ok|FAILED)" | tail -8
WITH=$(CARGO_NET_OFFLINE=true cargo test --offline --test seed_demo 2>&1 | grep -c "^test result: FAILED")
rm -f tests/seed_demo.rs
echo "== suite with patch"; /verif/tools/baseline.py "$WT" | tail -3; SUITE=$?
git checkout -q -- .
echo "RESULT without_ok=$WITHOUT with_failed=$WITH suite_rc=$SUITE"
if [ "$WITHOUT" = "1" ] && [ "$WITH" = "1" ] && [ "$SUITE" = "0" ]; then
  mkdir -p /verif/seeded/$NAME; cp "$SD/patch.diff" "$SD/demo.rs" "$SD/meta.json" /verif/seeded/$NAME/; echo "KEPT as /verif/seeded/$NAME"
else
  echo "NOT KEPT"
fi
