#!/usr/bin/env python3
"""Rebuild MANIFEST.json from tools/manifest_checks.json (per-property texts) keeping not_applicable current."""
import json, os, subprocess
V = os.path.dirname(os.path.dirname(os.path.abspath(__file__)))
ids = [json.loads(l)["id"] for l in open(os.path.join(V, "properties.jsonl"))]
spec = json.load(open(os.path.join(V, "tools", "manifest_checks.json")))
checks = []
for pid in ids:
    c = spec["checks"].get(pid)
    if not c:
        continue
    checks.append({
        "property_id": pid,
        "quick_cmd": "./check %s --tier quick" % pid,
        "thorough_cmd": "./check %s --tier thorough" % pid,
        "evidence_file": "evidence/%s.json" % pid,
        "replay_cmd_template": "./check %s --replay {path}" % pid,
        "engine": "coq",
        "level_claimed": {"category": c.get("category", "proof"), "text": c["text"], "design_ref": "DESIGN.md section 7 / " + pid},
        "level_note": c["note"],
        "technique": c["technique"],
    })
hooks = subprocess.run("git -C /repo log --format=%h --grep='^verif hook' ", shell=True, stdout=subprocess.PIPE, text=True).stdout.split()
m = {
    "version": 1,
    "setup_cmd": "./check --setup",
    "hooks": {
        "guard": "mathcat_verif",
        "enable": "RUSTFLAGS=\"--cfg mathcat_verif\" cargo build --offline  (done by vlib/common.py:build_harness for /verif/harness, which depends on /repo by path)",
        "baseline_off_cmd": "cd /repo && cargo test --workspace --no-fail-fast --offline",
        "source_commits": hooks[::-1],
        "add_only": True,
    },
    "engines": [
        {"name": "coq", "path": "coq/", "serves_properties": [c["property_id"] for c in checks],
         "kind_free_text": "Coq 8.16.1 development: Gen (tables regenerated from /repo on every run), Model, Proofs, Props (pinned theorems), Tie (kernel-checked correspondence with library observations)"},
        {"name": "harness", "path": "harness/", "serves_properties": [c["property_id"] for c in checks],
         "kind_free_text": "Rust binary driving the public API and cfg(mathcat_verif) hooks; one fresh thread per session; catch_unwind + panic hook"},
    ],
    "checks": checks,
    "not_applicable": [{"property_id": i, "reason": spec["not_applicable"].get(i, "not yet built at this commit (planned, DESIGN.md section 7); no claim is made for it")}
                       for i in ids if i not in spec["checks"]],
    "notes": spec.get("notes", ""),
}
json.dump(m, open(os.path.join(V, "MANIFEST.json"), "w"), indent=1)
print("checks:", [c["property_id"] for c in checks])
