#!/bin/bash
# run every claimed check (quick) on the current tree and validate MANIFEST + evidence files
cd /verif
git -C /repo diff --quiet || { echo "/repo has uncommitted changes"; exit 2; }
IDS=$(python3 -c "import json; print(' '.join(c['property_id'] for c in json.load(open('MANIFEST.json'))['checks']))")
RC=0
for p in ${@:-$IDS}; do ./check $p --tier quick 2>&1 | grep -E "^\[|^VIOLATION" ; done
python3 tools/asbuilt.py >/dev/null
python3-vt - <<'P'
import json,jsonschema,sys
m=json.load(open('/verif/MANIFEST.json'))
jsonschema.validate(m,json.load(open('/root/.vp/MANIFEST.schema.json')))
sch=json.load(open('/root/.vp/EVIDENCE.schema.json'))
bad=0
for c in m['checks']:
    e=json.load(open('/verif/'+c['evidence_file']))
    try:
        jsonschema.validate(e,sch)
        cov=e['coverage']
        if e['violations'] or cov['discharged']!=cov['obligations'] or cov['discharged']<1: print('EVIDENCE NOT CLEAN', c['property_id'], e['violations'], cov['discharged'], cov['obligations']); bad=1
    except Exception as ex: print('INVALID', c['property_id'], str(ex)[:200]); bad=1
print('manifest+evidence', 'OK' if not bad else 'PROBLEMS')
P
