#!/bin/bash
# independent re-check of every compiled Props and Tie module (and everything they depend on) with coqchk; prints the
# context summary (axioms, type-in-type, unsafe fixpoints, assumed positivity).  Takes a few minutes; run after a full build.
cd /verif/coq || exit 2
MODS=$(ls Props/*.vo Tie/*.vo | sed 's|/|.|; s|\.vo$||; s|^|MC.|' | tr '\n' ' ')
timeout 3000 coqchk -o -silent -Q . MC $MODS 2>&1 | tail -16
