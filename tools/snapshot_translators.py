#!/usr/bin/env python3
"""Copy the translator outputs of the last successful runs (_build/cache/translators) into the committed snapshot
corpus/translators.  The snapshot is only ever read when a translator no longer recognises the source: the model of
the last recognised source is then compared with the code as it is (see vlib/common.py:translate)."""
import os, shutil, sys
src = "/verif/_build/cache/translators"
dst = "/verif/corpus/translators"
os.makedirs(dst, exist_ok=True)
n = 0
for f in sorted(os.listdir(src)):
    if f.endswith(".pkl"):
        a, b = os.path.join(src, f), os.path.join(dst, f)
        if not os.path.exists(b) or open(a, "rb").read() != open(b, "rb").read():
            shutil.copyfile(a, b)
            n += 1
print("snapshot: %d file(s) updated, %d total" % (n, len(os.listdir(dst))))
