#!/usr/bin/env python3
"""Run the repository's own suite (guard OFF) in a given checkout and compare with /root/.vp/BASELINE.json.
usage: tools/baseline.py [repo_dir]   -- exit 0 iff every stable_pass test still passes."""
import json, re, subprocess, sys, os
repo = sys.argv[1] if len(sys.argv) > 1 else "/repo"
env = dict(os.environ, CARGO_NET_OFFLINE="true")
env.pop("RUSTFLAGS", None)
p = subprocess.run("cargo test --workspace --no-fail-fast --offline 2>&1", shell=True, cwd=repo, env=env,
                   stdout=subprocess.PIPE, text=True, errors="replace")
binary, passed, failed = None, set(), set()
for l in p.stdout.splitlines():
    m = re.match(r"\s+Running (?:unittests )?(\S+)", l)
    if m:
        src = m.group(1)
        binary = {"src/lib.rs": None, "src/main.rs": "main"}.get(src, os.path.splitext(os.path.basename(src))[0])
        continue
    m = re.match(r"test (\S+) \.\.\. (ok|FAILED)", l)
    if m:
        name = m.group(1)
        full = "mathcat::" + (binary + "::" + name if binary else name)
        (passed if m.group(2) == "ok" else failed).add(full)
base = json.load(open("/root/.vp/BASELINE.json"))
missing = [t for t in base["stable_pass"] if t not in passed]
print("passed=%d failed=%d baseline_stable=%d missing_from_pass=%d" % (len(passed), len(failed), len(base["stable_pass"]), len(missing)))
for t in missing[:30]:
    print("  NOT PASSING:", t, "(failed)" if t in failed else "(not run)")
sys.exit(1 if missing else 0)
