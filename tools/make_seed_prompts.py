#!/usr/bin/env python3
"""Write the prompt of the next seeding round for the given properties: /scratch/seeds/prompt-<id>.txt.
The sub-agent gets the text of the property, a scratch worktree and the list of ideas already used (summaries of
/verif/seeded/<id>-s*/meta.json) -- nothing else from /verif."""
import glob, json, os, sys
props = {json.loads(l)["id"]: json.loads(l) for l in open("/verif/properties.jsonl")}
TEMPLATE = """You are helping test a verification setup for the Rust library MathCAT (MathML -> speech / braille / navigation). Work ONLY inside the scratch git worktree /scratch/seeds/wt-{id} (a checkout of the library) and write your deliverables to /scratch/seeds/out-{id}/. Do not read or touch /repo or /verif. There is no network: use `CARGO_NET_OFFLINE=true cargo ... --offline`.

Task: produce ONE realistic code change (the kind of thing a maintainer could plausibly commit as a tidy-up, optimisation, refactoring or small feature, in src/*.rs or in Rules/**/*.yaml -- not in tests) that BREAKS the following semantic property while the code still compiles and the existing test suite still passes exactly as before.

PROPERTY ({id}) "{title}": {statement}
It must hold {quant}.
Relevant code (anchors): {files}; mechanisms: {mechs}.

Lines guarded by `#[cfg(mathcat_verif)]` are instrumentation: leave them alone (do not remove, move or change them).

These ideas are already taken, find a DIFFERENT one (different function / mechanism; prefer a mechanism of the list above that none of them touches, or a rule file of a language other than English):
{taken}

The change should be subtle: the documented happy path and everything the test suite exercises must behave exactly as before; the break should need a particular kind of input, configuration or call history.

The public API (crate name `libmathcat`, `use libmathcat::interface::*`): set_rules_dir(String), set_preference(String,String), get_preference(String), set_mathml(String) -> canonical MathML String, get_spoken_text(), get_braille(String), get_overview_text(), do_navigate_command(String), do_navigate_keypress(usize,bool,bool,bool,bool), set_navigation_node(String,usize), get_navigation_mathml(), get_navigation_mathml_id(), get_braille_position(), get_navigation_node_from_braille_position(usize), get_navigation_braille(). Session state is thread_local; call set_rules_dir(<abs path of the worktree's Rules dir>) first.

Deliverables in /scratch/seeds/out-{id}/:
 - patch.diff : `git diff` of your change against the worktree HEAD (must apply with `git apply`).
 - demo.rs : an integration test file (it will be copied to tests/seed_demo.rs and run with `cargo test --offline --test seed_demo`) with 1-4 tests that PASS on the unchanged worktree and FAIL with your patch, demonstrating the property violation through the public API only.
 - meta.json : {{"property":"{id}","summary":..., "needs_to_manifest": what input / configuration / call sequence is needed to see it, "files_touched":[...], "demo_cmd":"cp demo.rs tests/seed_demo.rs && cargo test --offline --test seed_demo", "suite_before":..., "suite_after":..., "demo_without_patch":..., "demo_with_patch":...}}

You must confirm yourself: (a) `cargo build --offline` succeeds with the patch; (b) the full suite `CARGO_NET_OFFLINE=true cargo test --workspace --no-fail-fast --offline` gives the same set of passing tests with and without the patch (the baseline has 3249 passing and 118 always-failing tests; compare the sorted lists of "test ... ok" lines; a run takes several minutes; other agents use the machine too); (c) the demo passes without and fails with the patch. Do NOT use `git stash` (the stash is shared by all worktrees of the repository and other agents work in theirs): to switch your change off and on use `git diff > /scratch/seeds/out-{id}/patch.diff; git checkout -- .` and `git apply /scratch/seeds/out-{id}/patch.diff`. Leave the worktree clean (git checkout -- . and remove tests/seed_demo.rs) when done. Report briefly what you changed and the confirmation results."""
for pid in sys.argv[1:]:
    p = props[pid]
    taken = []
    for d in sorted(glob.glob("/verif/seeded/%s-s*" % pid)):
        try:
            m = json.load(open(os.path.join(d, "meta.json")))
            taken.append("- " + " ".join(str(m.get("summary", "")).split())[:420])
        except Exception:
            pass
    mechs = "; ".join("%s (%s)" % (m["name"], m["where"]) for m in p["anchors"]["mechanism"])
    text = TEMPLATE.format(id=pid, title=p["title"], statement=p["statement"], quant=p["quantifier"]["text"],
                           files=", ".join(p["anchors"]["files"]), mechs=mechs, taken="\n".join(taken) or "- (none yet)")
    os.makedirs("/scratch/seeds/out-%s" % pid, exist_ok=True)
    open("/scratch/seeds/prompt-%s.txt" % pid, "w").write(text)
    print(pid, len(taken), "taken")
