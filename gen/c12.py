"""C12 translators: float-valued preference names (interface.rs set_preference), USE_DECIMAL_SEPARATOR (prefs.rs
set_separators) from source text; the initial preference maps from a runtime dump (hook verif::prefs::dump)."""
import re
from .coqfmt import HEADER, clist, cstr, comment


class GenError(Exception):
    pass


def parse_float_names(src):
    m = re.search(r'match name\.as_str\(\)\s*\{\s*((?:"[A-Za-z_]+"\s*\|?\s*)+)=>\s*\{\s*pref_manager\.set_api_float_pref', src)
    if not m:
        raise GenError("float-valued preference names not found in set_preference")
    return re.findall(r'"([A-Za-z_]+)"', m.group(1))


def parse_use_decimal(src):
    m = re.search(r"static USE_DECIMAL_SEPARATOR: phf::Set<&str> = phf_set! \{(.*?)\};", src, re.S)
    if not m:
        raise GenError("USE_DECIMAL_SEPARATOR not found")
    body = re.sub(r"//[^\n]*", "", m.group(1))
    return re.findall(r'"([^"]+)"', body)


KIND = {"string": "YS", "boolean": "YB", "real": "YR", "integer": "YI"}


def yaml_term(kind, text):
    if kind == "boolean":
        return "YB %s" % text
    if kind not in KIND:
        raise GenError("unexpected yaml kind %r" % kind)
    return "%s %s" % (KIND[kind], cstr(text))


def render(float_names, use_decimal, dump, loadable, fmt_table):
    out = [HEADER, "From MC Require Import Model.Prefs.\n"]
    out.append("Definition float_names : list (list N) := " + clist(("%s %s" % (cstr(n), comment(n)) for n in float_names)) + ".\n")
    out.append("Definition use_decimal_point : list (list N) := " + clist((cstr(n) for n in use_decimal), per_line=4) + ".\n")
    for mp in ("user", "api"):
        out.append("Definition init_%s : pmap := " % mp + clist(
            ("(%s, %s) %s" % (cstr(k), yaml_term(kind, v), comment(k)) for m, k, kind, v in dump if m == mp)) + ".\n")
    out.append("Definition loadable_tab : list (list N * list N * bool) := " + clist(
        ("(%s, %s, %s)" % (cstr(k), cstr(v), "true" if ok else "false") for (k, v), ok in sorted(loadable.items()))) + ".\n")
    out.append("Definition fmt_tab : list (list N * option (list N)) := " + clist(
        ("(%s, %s)" % (cstr(k), "None" if v is None else "Some " + cstr(v)) for k, v in sorted(fmt_table.items()))) + ".\n")
    return "\n".join(out)
