"""Translator for the key-press table of src/navigate.rs: key_press_to_command_and_param (arms, modifier choices, the
place-marker index) and navigation_command_string (command x parameter -> command name) -> coq/Gen/KeyTab.v."""
import re
from .coqfmt import HEADER, clist, cstr, comment


class GenError(Exception):
    pass


def _fn(src, name):
    m = re.search(r"\nfn %s\(.*?\n\}\n" % name, src, re.S)
    if not m:
        raise GenError("function %s not found" % name)
    return m.group(0)


def _enum(src, name):
    m = re.search(r"enum %s \{(.*?)\}" % name, src, re.S)
    if not m:
        raise GenError("enum %s not found" % name)
    vals = re.findall(r"\b([A-Z][A-Za-z0-9]*)\b", re.sub(r"//[^\n]*", "", m.group(1)))
    if not vals:
        raise GenError("enum %s is empty" % name)
    return vals


def _num(s, consts):
    s = s.strip()
    if s in consts:
        return consts[s]
    try:
        return int(s, 0)
    except ValueError:
        raise GenError("unknown key constant %r" % s)


def _arms(body):
    """split a match body into (pattern, arm text) at brace depth 0"""
    out, i, n = [], 0, len(body)
    while i < n:
        m = re.compile(r"\s*((?:\.\.=|[^=>{}])+?)\s*=>\s*").match(body, i)
        if not m:
            if body[i:].strip():
                raise GenError("match arm not understood near %r" % body[i:i + 40])
            break
        pat, j = m.group(1), m.end()
        if body[j] == "{":
            depth, k = 0, j
            while k < n:
                if body[k] == "{":
                    depth += 1
                elif body[k] == "}":
                    depth -= 1
                    if depth == 0:
                        break
                k += 1
            arm, i = body[j + 1:k], k + 1
        else:
            k = body.index(",", j) if "," in body[j:] else n
            # an expression arm ends at the first comma at depth 0
            depth, k = 0, j
            while k < n and not (body[k] == "," and depth == 0):
                depth += body[k] in "([{"
                depth -= body[k] in ")]}"
                k += 1
            arm, i = body[j:k], k
        while i < n and body[i] in ", \t\r\n":
            i += 1
        out.append((pat.strip(), arm))
    return out


def _match_body(text, head):
    i = text.index(head)
    j = text.index("{", i)
    depth, k = 0, j
    while True:
        if text[k] == "{":
            depth += 1
        elif text[k] == "}":
            depth -= 1
            if depth == 0:
                return text[j + 1:k]
        k += 1


def key_table(src):
    src = re.sub(r"//[^\n]*", "", src)
    consts = {m.group(1): int(m.group(2), 0) for m in re.finditer(r"const (VK_[A-Z0-9_]+): usize = (0x[0-9A-Fa-f]+|\d+);", src)}
    cmds, params = _enum(src, "NavigationCommand"), _enum(src, "NavigationParam")
    f = _fn(src, "key_press_to_command_and_param")
    # the modifier preamble, as written
    pre = re.search(r"if alt_key && control_key && \[([A-Z_, ]+)\]\.contains\(&key\) \{\s*alt_key = false;\s*\}\s*if alt_key \|\| meta_key \{\s*bail!", f)
    if not pre:
        raise GenError("the modifier preamble of key_press_to_command_and_param is not the one translated")
    alt_ok = [_num(x, consts) for x in pre.group(1).split(",")]
    for fn, order in (("choose_command", None), ("choose_param", None)):
        g = _fn(src, fn)
        if not re.search(r"if shift_key && control_key \{\s*return shift_control;\s*\} else if control_key \{\s*return control;\s*\} else if shift_key \{\s*return shift;\s*\} else \{\s*return none;", g):
            raise GenError("%s is not the choice translated (shift+control, control, shift, none)" % fn)
    arms = []
    for pat, arm in _arms(_match_body(f, "match key")):
        if pat == "_":
            if "bail!" not in arm:
                raise GenError("the default arm of the key match does not bail")
            continue
        ranges = []
        for alt in pat.split("|"):
            alt = alt.strip()
            if "..=" in alt:
                lo, hi = alt.split("..=")
                ranges.append((_num(lo, consts), _num(hi, consts)))
            else:
                ranges.append((_num(alt, consts), _num(alt, consts)))
        def four(kind, enum, names):
            m = re.search(r"%s\s*=\s*choose_%s\(\s*shift_key,\s*control_key,([^;]*)\);" % (kind, kind), arm)
            if m:
                v = [x.strip().split("::")[-1] for x in m.group(1).split(",")]
                if len(v) != 4 or any(x not in names for x in v):
                    raise GenError("choose_%s arguments not understood: %s" % (kind, m.group(1)))
                return ("four", [names.index(x) for x in v])
            m = re.search(r"%s\s*=\s*%s::([A-Za-z0-9]+);" % (kind, enum), arm)
            if m:
                return ("four", [names.index(m.group(1))] * 4)
            return None
        c = four("command", "NavigationCommand", cmds)
        p = four("param", "NavigationParam", params)
        if c is None:
            raise GenError("command of arm %s not understood" % pat)
        if p is None:
            m = re.search(r"static ([A-Z_]+): &\[NavigationParam\] = &\[(.*?)\];.*?param = \1\[key\s*-\s*(0x[0-9A-Fa-f]+|\d+|[A-Z_0-9]+)\];", arm, re.S)
            if not m:
                raise GenError("param of arm %s not understood" % pat)
            tab = [params.index(x.strip().split("::")[-1]) for x in m.group(2).split(",") if x.strip()]
            p = ("index", tab, _num(m.group(3), consts))
        arms.append((ranges, c[1], p))
    # navigation_command_string
    g = _fn(src, "navigation_command_string")
    tail = g[g.rindex("};"):]
    m = re.search(r'return "([A-Za-z]+)";', tail)
    if not m:
        raise GenError("the final return of navigation_command_string not found")
    final = m.group(1)
    strings = []
    for pat, arm in _arms(_match_body(g, "match command")):
        cmd = pat.split("::")[-1]
        if cmd not in cmds:
            raise GenError("unknown command %s in navigation_command_string" % pat)
        entries, fb = [], ("final",)
        if "match param" in arm:
            for ppat, parm in _arms(_match_body(arm, "match param")):
                if ppat == "_":
                    if "static" in parm:
                        fb = _pm_table(parm, params)
                    elif "panic!" in parm:
                        fb = ("panic",)
                    else:
                        raise GenError("fallback of %s not understood" % cmd)
                else:
                    s = re.search(r'"([A-Za-z0-9]+)"', parm)
                    entries.append((params.index(ppat.split("::")[-1]), s.group(1)))
        elif "static" in arm:
            fb = _pm_table(arm, params)
        elif re.search(r"if param\s*==", arm):
            for m in re.finditer(r'param\s*==\s*NavigationParam::([A-Za-z0-9]+)\s*\{\s*return "([A-Za-z0-9]+)";', arm):
                entries.append((params.index(m.group(1)), m.group(2)))
        else:
            m = re.search(r'^\s*return "([A-Za-z0-9]+)";\s*$', arm.strip())
            if not m:
                raise GenError("arm of %s not understood" % cmd)
            fb = ("always", m.group(1))
        strings.append((cmds.index(cmd), entries, fb))
    if sorted(c for c, _, _ in strings) != list(range(len(cmds))):
        raise GenError("navigation_command_string does not list every command once")
    return {"consts": consts, "cmds": cmds, "params": params, "alt_ok": alt_ok, "arms": arms, "strings": strings, "final": final}


def _pm_table(text, params):
    m = re.search(r"if param < NavigationParam::([A-Za-z0-9]+) \|\| param > NavigationParam::([A-Za-z0-9]+) \{\s*panic!", text)
    t = re.search(r"static [A-Z_]+: &\[&str\] = &\[(.*?)\];\s*return [A-Z_]+\[\(param as usize\) - \(NavigationParam::([A-Za-z0-9]+) as usize\)\];", text, re.S)
    if not m or not t:
        raise GenError("place-marker table not understood")
    return ("table", params.index(m.group(1)), params.index(m.group(2)), re.findall(r'"([A-Za-z0-9]+)"', t.group(1)), params.index(t.group(2)))


def render(t, nav_commands):
    out = [HEADER, comment("from src/navigate.rs: key_press_to_command_and_param, navigation_command_string, NAV_COMMANDS")]
    out.append("Inductive pspec := PFour (a b c d : N) | PIndex (table : list N) (base : N).\n")
    out.append("Inductive fallback := FFinal | FPanic | FAlways (s : list N) | FTable (lo hi : N) (names : list (list N)) (base : N).\n")
    out.append("Definition alt_control_keys : list N := %s.\n" % clist(str(k) for k in t["alt_ok"]))
    def q(v):
        return "(%d, %d, %d, %d)" % tuple(v)
    arms = []
    for ranges, c, p in t["arms"]:
        ps = "PFour %d %d %d %d" % tuple(p[1]) if p[0] == "four" else "PIndex %s %d" % (clist(str(x) for x in p[1]).replace("\n", " "), p[2])
        arms.append("(%s, %s, %s)" % (clist("(%d, %d)" % r for r in ranges).replace("\n", " "), q(c), ps))
    out.append("(* key ranges; command for (none, shift, control, shift+control); parameter *)\nDefinition key_arms : list (list (N * N) * (N * N * N * N) * pspec) := %s.\n" % clist(arms))
    ss = []
    for c, entries, fb in t["strings"]:
        f = {"final": "FFinal", "panic": "FPanic"}.get(fb[0]) or ("FAlways %s" % cstr(fb[1]) if fb[0] == "always" else
             "FTable %d %d %s %d" % (fb[1], fb[2], clist(cstr(x) for x in fb[3]).replace("\n", " "), fb[4]))
        ss.append("(%d %s, %s, %s)" % (c, comment(t["cmds"][c]), clist("(%d, %s)" % (p, cstr(s)) for p, s in entries).replace("\n", " "), f))
    out.append("Definition command_strings : list (N * list (N * list N) * fallback) := %s.\n" % clist(ss))
    out.append("Definition final_string : list N := %s.\n" % cstr(t["final"]))
    out.append("Definition nav_commands : list (list N) := %s.\n" % clist("%s %s" % (cstr(x), comment(x)) for x in nav_commands))
    return "\n".join(out)
