"""C19 translator: the character classes of the intent lexer's NCName-like patterns (src/infer_intent.rs) and the
order of attribute save / change / restore / exit events in the two places that temporarily edit the element."""
import re
from .coqfmt import HEADER, comment


class GenError(Exception):
    pass


WS = [(9, 13), (32, 32), (0x85, 0x85), (0xA0, 0xA0), (0x1680, 0x1680), (0x2000, 0x200A), (0x2028, 0x2029), (0x202F, 0x202F), (0x205F, 0x205F), (0x3000, 0x3000)]


def parse_negated_class(body):
    """the inside of [^ ... ] -> list of excluded inclusive ranges"""
    out, i = [], 0

    def atom(i):
        if body.startswith("\\s", i):
            return "ws", i + 2
        if body.startswith("\\u{", i):
            j = body.index("}", i)
            return int(body[i + 3:j], 16), j + 1
        if body[i] == "\\":
            return ord(body[i + 1]), i + 2
        return ord(body[i]), i + 1
    while i < len(body):
        a, i = atom(i)
        if a == "ws":
            out += WS
            continue
        if i < len(body) and body[i] == "-" and i + 1 < len(body):
            b, i = atom(i + 1)
            out.append((a, b))
        else:
            out.append((a, a))
    return out


def parse_source(src):
    m = re.search(r'static ref CONCEPT_OR_LITERAL: Regex = Regex::new\(\s*r#"\^\[\^(.*?)\]\[\^(.*?)\]\*"#', src, re.S)
    if not m:
        raise GenError("CONCEPT_OR_LITERAL has an unexpected shape")
    first, rest = parse_negated_class(m.group(1)), parse_negated_class(m.group(2))
    for nm, pre in (("PROPERTY", ":"), ("ARG_REF", r"\\\$")):
        mm = re.search(r'static ref %s: Regex = Regex::new\(\s*r#"\^%s\[\^(.*?)\]\[\^(.*?)\]\*"#' % (nm, pre), src, re.S)
        if not mm or parse_negated_class(mm.group(1)) != first or parse_negated_class(mm.group(2)) != rest:
            raise GenError("%s does not use the same name classes as CONCEPT_OR_LITERAL" % nm)
    mn = re.search(r'static ref NUMBER: Regex = Regex::new\(r#"(.*?)"#\)', src)
    if not mn or mn.group(1) != r"^-?[0-9]+(\.[0-9]+)?":
        raise GenError("NUMBER has an unexpected shape: %r" % (mn.group(1) if mn else None))
    mt = re.search(r"static TERMINALS_AS_U8: \[u8; 3\] = \[b'(.)', b'(.)', b'(.)'\];", src)
    if not mt:
        raise GenError("TERMINALS_AS_U8 not found")
    return {"first": first, "rest": rest, "terminals": [ord(mt.group(k)) for k in (1, 2, 3)], "events": attr_events(src)}


def attr_events(src):
    """order of events in (a) the property-only branch of build_intent and (b) the recovery path of infer_intent:
    0 intent removed, 4 property set, 1 property restored, 2 intent restored, 3 exit point (`?`, return, bail!)"""
    out = {}
    m = re.search(r"let saved_intent = mathml\.attribute_value\(INTENT_ATTR\)\.unwrap\(\);(.*?)return Ok\(intent\);", src, re.S)
    if not m:
        raise GenError("property branch of build_intent not found")
    body = re.sub(r"//[^\n]*", "", m.group(1))
    ev = []
    for t in re.finditer(r"mathml\.remove_attribute\(INTENT_ATTR\)|mathml\.set_attribute_value\(INTENT_PROPERTY, &properties\)|None => mathml\.remove_attribute\(INTENT_PROPERTY\)|"
                         r"mathml\.set_attribute_value\(INTENT_ATTR, saved_intent\)|\?\s*;|\breturn\b|\bbail!", body):
        x = t.group(0)
        ev.append(0 if "remove_attribute(INTENT_ATTR)" in x else 4 if "&properties" in x else 1 if "remove_attribute(INTENT_PROPERTY)" in x else 2 if "saved_intent" in x else 3)
    out["property_branch"] = ev
    m = re.search(r"let saved_intent_attr = mathml\.attribute_value\(INTENT_ATTR\)\.unwrap\(\);(.*?)return intent_tree;", src, re.S)
    if not m:
        raise GenError("recovery path of infer_intent not found")
    body = re.sub(r"//[^\n]*", "", m.group(1))
    ev = []
    for t in re.finditer(r"mathml\.remove_attribute\(INTENT_ATTR\)|mathml\.set_attribute_value\(INTENT_ATTR, saved_intent_attr\)|\?\s*;|\breturn\b|\bbail!", body):
        x = t.group(0)
        ev.append(0 if "remove_attribute" in x else 2 if "saved_intent_attr" in x else 3)
    out["recovery"] = ev
    return out


def render(t):
    out = [HEADER, comment("from src/infer_intent.rs")]
    for nm in ("first", "rest"):
        out.append("Definition name_%s_excluded : list (N * N) := [%s].\n" % (nm, "; ".join("(%d, %d)" % r for r in t[nm])))
    out.append("Definition terminals : list N := [%s].\n" % "; ".join(str(c) for c in t["terminals"]))
    out.append("Definition property_branch_events : list N := [%s].\n" % "; ".join(str(e) for e in t["events"]["property_branch"]))
    out.append("Definition recovery_events : list N := [%s].\n" % "; ".join(str(e) for e in t["events"]["recovery"]))
    return "\n".join(out)
