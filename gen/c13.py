"""C13 translator: the start/end tag templates of get_string_ssml / get_string_sapi5 and the bookmark element
(src/tts.rs) -> Gen/TtsTabs.v.  A template is a list of symbols: C <code point> | H <kind>, where a hole stands
for a value the engine computes: 0 number, 1 string value, 2 pronounce.text, 3 pronounce.ipa, 4 pronounce.sapi5,
5 bookmark id."""
import re
from .coqfmt import HEADER, clist, comment
from .c17 import rust_unescape


class GenError(Exception):
    pass


COMMANDS = ["Pause", "Rate", "Volume", "Pitch", "Audio", "Gender", "Voice", "Spell", "Pronounce", "Bookmark"]
ENGINES = {"none": 0, "ssml": 1, "sapi5": 2}


def fn_body(src, name):
    m = re.search(r"fn %s\s*[(<]" % re.escape(name), src)
    if not m:
        raise GenError("function %s not found" % name)
    i = m.start()
    j = src.find("{", i)
    depth, p = 0, j
    while p < len(src):
        if src[p] == "{":
            depth += 1
        elif src[p] == "}":
            depth -= 1
            if depth == 0:
                return src[j:p + 1], src.count("\n", 0, i) + 1, src.count("\n", 0, p) + 1
        p += 1
    raise GenError("unbalanced braces in " + name)


def strip_line_comments(t):
    return re.sub(r"//[^\n]*", "", t)


STR = r'"((?:[^"\\]|\\.)*)"'


def hole_kind(arg):
    if "get_pronounce().text" in arg:
        return 2
    if "get_pronounce().ipa" in arg:
        return 3
    if "get_pronounce().sapi5" in arg:
        return 4
    if "get_string()" in arg:
        return 1
    if "get_num()" in arg or "amount" in arg:
        return 0
    raise GenError("cannot classify format argument %r" % arg)


def split_args(s):
    args, depth, cur = [], 0, ""
    for ch in s:
        if ch in "([{":
            depth += 1
        elif ch in ")]}":
            depth -= 1
        if ch == "," and depth == 0:
            args.append(cur.strip())
            cur = ""
        else:
            cur += ch
    if cur.strip():
        args.append(cur.strip())
    return args


def find_call(text, start):
    """text[start] is '(' : return index after the matching ')' (string-literal aware)"""
    depth, p, in_str = 0, start, False
    while p < len(text):
        c = text[p]
        if in_str:
            if c == "\\":
                p += 2
                continue
            if c == '"':
                in_str = False
        else:
            if c == '"':
                in_str = True
            elif c == "(":
                depth += 1
            elif c == ")":
                depth -= 1
                if depth == 0:
                    return p + 1
        p += 1
    raise GenError("unbalanced call")


def template_of_format(fmt, args):
    """Rust format string + argument expressions -> symbol list"""
    syms, i, ai = [], 0, 0
    s = rust_unescape(fmt)
    while i < len(s):
        if s.startswith("{{", i):
            syms.append(("C", ord("{")))
            i += 2
        elif s.startswith("}}", i):
            syms.append(("C", ord("}")))
            i += 2
        elif s[i] == "{":
            j = s.index("}", i)
            if ai >= len(args):
                raise GenError("format string %r has more holes than arguments" % fmt)
            syms.append(("H", hole_kind(args[ai])))
            ai += 1
            i = j + 1
        else:
            syms.append(("C", ord(s[i])))
            i += 1
    return syms


def parse_arm(arm):
    """one `TTSCommand::X => ...` arm -> (start syms, end syms)"""
    fm = [m for m in re.finditer(r"format!\(", arm)]
    start = []
    if fm:
        if len(fm) > 1:
            raise GenError("more than one format! in a tag arm: %r" % arm[:80])
        op = fm[0].end() - 1
        cl = find_call(arm, op)
        inner = arm[op + 1:cl - 1]
        m = re.match(r"\s*" + STR + r"\s*(?:,(.*))?$", inner, re.S)
        if not m:
            raise GenError("cannot parse format! call %r" % inner[:80])
        args = split_args(m.group(2) or "")
        start = template_of_format(m.group(1), args)
    ends = re.findall(r"String::from\(" + STR + r"\)", arm)
    if len(ends) > 1:
        raise GenError("more than one end tag in arm %r" % arm[:80])
    end = [("C", ord(c)) for c in rust_unescape(ends[0])] if ends else []
    if "panic!" in arm:
        return None
    return start, end


def parse_engine(src, fname):
    body, l0, l1 = fn_body(src, fname)
    body = strip_line_comments(body)
    idx = [(m.start(), m.group(1)) for m in re.finditer(r"TTSCommand::(\w+)\s*=>", body)]
    rows = {}
    for k, (pos, name) in enumerate(idx):
        end = idx[k + 1][0] if k + 1 < len(idx) else len(body)
        r = parse_arm(body[pos:end])
        if r is not None:
            rows[name] = r
    return rows, (l0, l1)


def parse_bookmarks(src):
    body, l0, l1 = fn_body(src, "replace_string")
    body = strip_line_comments(body)
    m = re.search(r"fn compute_bookmark_element.*?format!\(" + STR + r"\s*,\s*tag_and_attr\s*,\s*id\s*\)", body, re.S)
    if not m:
        raise GenError("compute_bookmark_element format not found")
    fmt = rust_unescape(m.group(1))
    out = {}
    for eng, key in (("ssml", "SSML"), ("sapi5", "SAPI5")):
        mm = re.search(r"TTS::%s\s*=>\s*compute_bookmark_element\(&command\.value,\s*" % key + STR, body)
        if not mm:
            raise GenError("bookmark literal for %s not found" % key)
        tag_and_attr = rust_unescape(mm.group(1))
        parts = fmt.split("{}")
        if len(parts) != 3:
            raise GenError("unexpected bookmark format %r" % fmt)
        syms = [("C", ord(c)) for c in parts[0] + tag_and_attr + parts[1]] + [("H", 5)] + [("C", ord(c)) for c in parts[2]]
        out[eng] = (syms, [])
    return out


def parse_source(src):
    ssml, span1 = parse_engine(src, "get_string_ssml")
    sapi5, span2 = parse_engine(src, "get_string_sapi5")
    bm = parse_bookmarks(src)
    ssml["Bookmark"] = bm["ssml"]
    sapi5["Bookmark"] = bm["sapi5"]
    consts = {}
    for nm in ("MIN_PAUSE", "PAUSE_SHORT", "PAUSE_MEDIUM", "PAUSE_LONG"):
        m = re.search(r"const %s\s*:\s*f64\s*=\s*([0-9.]+)\s*;" % nm, src)
        if not m:
            raise GenError("const %s not found" % nm)
        consts[nm] = float(m.group(1))
    m = re.search(r'pub const PAUSE_AUTO_STR: &str = "((?:[^"\\]|\\.)*)";', src)
    if not m:
        raise GenError("PAUSE_AUTO_STR not found")
    consts["PAUSE_AUTO_STR"] = rust_unescape(m.group(1))
    return {"ssml": ssml, "sapi5": sapi5, "spans": [span1, span2], "consts": consts}


def sym(s):
    return "%s %d" % s


def render(t):
    out = [HEADER, comment("from src/tts.rs get_string_ssml lines %d-%d, get_string_sapi5 lines %d-%d, replace_string (bookmark)"
                           % (t["spans"][0] + t["spans"][1]))]
    out.append("Inductive sym := C (c : N) | H (k : N).\n")
    rows = []
    for eng in ("ssml", "sapi5"):
        for ci, cname in enumerate(COMMANDS):
            if cname not in t[eng]:
                continue
            st, en = t[eng][cname]
            rows.append("(%d, %d, [%s], [%s]) %s" % (ENGINES[eng], ci, "; ".join(sym(s) for s in st), "; ".join(sym(s) for s in en),
                                                       comment("%s %s" % (eng, cname))))
    out.append("Definition tag_table : list (N * N * list sym * list sym) := " + clist(rows) + ".\n")
    out.append("Definition pause_auto_str : list N := [%s].\n" % "; ".join(str(ord(c)) for c in t["consts"]["PAUSE_AUTO_STR"]))
    return "\n".join(out)
