"""C02 translator: the character -> entity arms of handle_special_chars (src/pretty_print.rs), and the element-arity
sets of src/canonicalize.rs."""
import re
from .coqfmt import HEADER, clist, cstr, comment
from .c17 import rust_unescape
from .c07 import GenError


def escape_table(src):
    m = re.search(r"fn handle_special_chars\(text: &str\) -> String \{(.*?)\n\}", src, re.S)
    if not m:
        raise GenError("handle_special_chars not found")
    body = m.group(1)
    arms = re.findall(r"'((?:[^'\\]|\\.|\\u\{[0-9a-fA-F]+\})+)'\s*=>\s*\"([^\"]*)\"\.to_string\(\)", body)
    if len(arms) != len(re.findall(r"=>", body)) - 1:      # the last arm is `_ => ch.to_string()`
        raise GenError("handle_special_chars: %d arms parsed of %d" % (len(arms), len(re.findall(r'=>', body)) - 1))
    if not re.search(r"_\s*=>\s*ch\.to_string\(\)", body):
        raise GenError("handle_special_chars: default arm changed")
    return [(rust_unescape(c), e) for c, e in arms]


def quote_char(src):
    m = re.search(r'format!\(" \{\}=(.)\{\}(.)"', src)
    if not m or m.group(1) != m.group(2):
        raise GenError("format_attrs: attribute delimiter not found")
    return m.group(1)


def render(table, quote, one_child, fixed):
    out = [HEADER, comment("from src/pretty_print.rs (handle_special_chars, format_attrs) and src/canonicalize.rs")]
    out.append("Definition escape_table : list (N * list N) := %s.\n" % clist(("(%d, %s) %s" % (ord(c), cstr(e), comment(e)) for c, e in table)))
    out.append("Definition attr_quote : N := %d.\n" % ord(quote))
    out.append("Definition elements_with_one_child : list (list N) := [%s].\n" % "; ".join(cstr(x) for x in one_child))
    out.append("Definition elements_with_fixed_children : list (list N) := [%s].\n" % "; ".join(cstr(x) for x in fixed))
    return "\n".join(out)
