"""C20 translator: the character sets used by highlight_braille_chars (src/braille.rs)."""
import re
from .coqfmt import HEADER, clist, comment


class GenError(Exception):
    pass


def parse_set(src, name):
    m = re.search(r"static %s: phf::Set<char> = phf_set! \{(.*?)\};" % name, src, re.S)
    if not m:
        raise GenError("set %s not found" % name)
    body = re.sub(r"//[^\n]*", "", m.group(1))
    return [ord(c) for c in re.findall(r"'(.)'", body)]


def parse_source(src):
    t = {n: parse_set(src, n) for n in ("UEB_PREFIXES", "NEMETH_NUMBERS", "UEB_TYPEFORM_PREFIXES")}
    m = re.search(r"fn is_highlighted\(ch: char\) -> bool \{.*?\((0x[0-9A-Fa-f]+)\.\.(=?)(0x[0-9A-Fa-f]+)\)\.contains", src, re.S)
    if not m:
        raise GenError("is_highlighted range not found")
    t["hl_lo"], t["hl_hi"] = int(m.group(1), 16), int(m.group(3), 16) - (0 if m.group(2) else 1)
    m = re.search(r"fn unhighlight\(ch: char\) -> char \{.*?\((0x[0-9A-Fa-f]+)\.\.(=?)(0x[0-9A-Fa-f]+)\)\.contains.*?& (0x[0-9A-Fa-f]+)\)", src, re.S)
    if not m:
        raise GenError("unhighlight not found")
    t["un_lo"], t["un_hi"], t["un_mask"] = int(m.group(1), 16), int(m.group(3), 16) - (0 if m.group(2) else 1), int(m.group(4), 16)
    m = re.search(r"fn highlight\(ch: char\) -> char \{.*?ch as u32 \| (0x[0-9A-Fa-f]+)\)", src, re.S)
    if not m:
        raise GenError("highlight not found")
    t["hl_bits"] = int(m.group(1), 16)
    m = re.search(r"start_index as isize - (\d+)\*(\d+)\)", src)
    if not m:
        raise GenError("look-back distance not found")
    t["lookback_bytes"] = int(m.group(1)) * int(m.group(2))
    t["route_events"] = route_events(src)
    return t


def strip_guarded(body):
    """remove the statements guarded by #[cfg(mathcat_verif)] (instrumentation: a brace-balanced block or a statement up
    to its semicolon); what the instrumentation does is not the behaviour of the library"""
    out, i = "", 0
    tag = "#[cfg(mathcat_verif)]"
    while True:
        j = body.find(tag, i)
        if j < 0:
            return out + body[i:]
        out += body[i:j]
        k = j + len(tag)
        # the guarded item ends at the first ';' outside braces, or at the brace that closes a block opened before any ';'
        depth, p = 0, k
        while p < len(body):
            ch = body[p]
            if ch == "{":
                depth += 1
            elif ch == "}":
                depth -= 1
                if depth == 0:
                    p += 1
                    break
            elif ch == ";" and depth == 0:
                p += 1
                break
            p += 1
        i = p


def route_events(src):
    """the order of preference overrides / restores and of exit points (`?`, return, bail!) in the body of
    get_navigation_node_from_braille_position, up to its first nested fn: 0 override, 1 restore, 2 exit"""
    m = re.search(r"pub fn get_navigation_node_from_braille_position\(.*?\{(.*?)\n    /// find the navigation node", src, re.S)
    if not m:
        raise GenError("get_navigation_node_from_braille_position not found")
    body = re.sub(r"//[^\n]*", "", m.group(1))
    body = strip_guarded(body)
    ev = []
    for t in re.finditer(r'set_preference\("BrailleNavHighlight"\.to_string\(\),\s*"EndPoints"|set_preference\("BrailleNavHighlight"\.to_string\(\),\s*saved_highlight_style|\?\s*[;.)]|\breturn\b|\bbail!', body):
        x = t.group(0)
        ev.append(0 if '"EndPoints"' in x else 1 if "saved_highlight_style" in x else 2)
    if 0 not in ev or 1 not in ev:
        raise GenError("override / restore of BrailleNavHighlight not found")
    return ev


def render(t):
    out = [HEADER, comment("from src/braille.rs: highlight_braille_chars and helpers")]
    for n in ("UEB_PREFIXES", "NEMETH_NUMBERS", "UEB_TYPEFORM_PREFIXES"):
        out.append("Definition %s : list N := [%s].\n" % (n.lower(), "; ".join(str(c) for c in t[n])))
    for k in ("hl_lo", "hl_hi", "un_lo", "un_hi", "un_mask", "hl_bits", "lookback_bytes"):
        out.append("Definition %s : N := %d.\n" % (k, t[k]))
    out.append("Definition route_events : list N := [%s].\n" % "; ".join(str(e) for e in t["route_events"]))
    return "\n".join(out)
