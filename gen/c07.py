"""C07 translators: per braille code the indicator table, the REPLACE_INDICATORS character class, the replacement
templates of the regex / literal replace steps of its clean-up function (src/braille.rs), and the literal texts of
its rule and Unicode files (through the harness, parsed with yaml-rust)."""
import re
from .coqfmt import HEADER, clist, cstr, comment
from .c17 import rust_unescape


class GenError(Exception):
    pass


CODES = {
    # code: (table name, cleanup fn)
    "Nemeth": ("NEMETH_INDICATOR_REPLACEMENTS", "nemeth_cleanup"),
    "UEB": ("UEB_INDICATOR_REPLACEMENTS", "ueb_cleanup"),
    "Vietnam": ("VIETNAM_INDICATOR_REPLACEMENTS", "vietnam_cleanup"),
    "CMU": ("CMU_INDICATOR_REPLACEMENTS", "cmu_cleanup"),
    "Swedish": ("SWEDISH_INDICATOR_REPLACEMENTS", "swedish_cleanup"),
}


def pref_keys(fn_body):
    """`"K" => &var,` arms of the REPLACE_INDICATORS closure, with `let var = pref_manager.pref_to_string("NAME")`"""
    out = []
    for m in re.finditer(r'"(.)"\s*=>\s*&([a-z_]+)\s*,', fn_body):
        mm = re.search(r'let %s = pref_manager\.pref_to_string\("([A-Za-z_]+)"\)' % m.group(2), fn_body)
        if mm:
            out.append((m.group(1), mm.group(1)))
    return out
STR = r'"((?:[^"\\]|\\.)*)"'


def fn_text(src, name):
    m = re.search(r"\nfn %s\s*\(" % re.escape(name), src)
    if not m:
        raise GenError("function %s not found" % name)
    j = src.find("{", m.end())
    depth, p = 0, j
    in_str = False
    while p < len(src):
        c = src[p]
        if c == "{":
            depth += 1
        elif c == "}":
            depth -= 1
            if depth == 0:
                return src[m.start():p + 1]
        p += 1
    raise GenError("unbalanced braces in " + name)


def parse_table(src, name):
    m = re.search(r"static %s: phf::Map<&str, &str> = phf_map! \{(.*?)\n\s*\};" % name, src, re.S)
    if not m:
        raise GenError("table %s not found" % name)
    out = []
    for line in m.group(1).splitlines():
        line = re.sub(r"//.*$", "", line) if not re.match(r'\s*"', line) else re.sub(r'(,\s*)//.*$', r"\1", line)
        mm = re.match(r'\s*' + STR + r'\s*=>\s*' + STR + r'\s*,?\s*$', line)
        if mm:
            out.append((rust_unescape(mm.group(1)), rust_unescape(mm.group(2))))
        elif "=>" in line and not line.strip().startswith("//"):
            raise GenError("cannot parse table line %r in %s" % (line, name))
    return out


def parse_class(rx):
    """`([ ... ])` -> list of inclusive ranges"""
    m = re.fullmatch(r"\(\[(.*)\]\)", rx, re.S)
    if not m:
        raise GenError("REPLACE_INDICATORS has an unexpected shape: %r" % rx)
    body, ranges, i = m.group(1), [], 0
    chars = list(body)
    while i < len(chars):
        c = chars[i]
        if c == "\\" and i + 1 < len(chars):
            c = chars[i + 1]
            i += 1
        if i + 2 < len(chars) and chars[i + 1] == "-":
            ranges.append((ord(c), ord(chars[i + 2])))
            i += 3
        else:
            ranges.append((ord(c), ord(c)))
            i += 1
    return ranges


def find_class(src, code, fn):
    body = fn_text(src, fn)
    m = re.search(r'static ref REPLACE_INDICATORS: Regex\s*=\s*Regex::new\(r"(.*?)"\)', body)
    if not m:
        # module level (shared by the codes that do not define their own)
        m = re.search(r'\nlazy_static! \{[^}]*?static ref REPLACE_INDICATORS: Regex\s*=\s*Regex::new\(r"(.*?)"\)', src, re.S)
    if not m:
        raise GenError("REPLACE_INDICATORS for %s not found" % code)
    return m.group(1)


def template_literals(fn_body):
    """literal characters that the replace steps of a clean-up function can insert: the replacement strings of
    .replace_all(&x, "tmpl") / .replace("a", "b") / string literals inside closures (conservatively: every string
    literal of the function body that is not a regex pattern)"""
    body = re.sub(r"//[^\n]*", "", fn_body)
    body = re.sub(r'Regex::new\(\s*r#?"(?:[^"\\]|\\.)*"#?\s*\)', "", body)          # regex patterns are not output
    body = re.sub(r'(?:debug|error|warn|info|bail|panic|assert|format)!\((?:[^()]|\([^()]*\))*\)', "", body)
    body = re.sub(r'pref_to_string\(\s*"[^"]*"\s*\)', "", body)                     # preference names
    body = re.sub(r'(?:==|!=)\s*"(?:[^"\\]|\\.)*"', "", body)                          # comparisons
    body = re.sub(r'\.(?:contains|starts_with|ends_with|split|find|trim_matches|trim_start_matches|trim_end_matches|strip_prefix)\(\s*"(?:[^"\\]|\\.)*"\s*\)', "", body)
    body = re.sub(r'\.replace\(\s*"(?:[^"\\]|\\.)*"\s*,', ".replace(", body)          # the pattern argument of str::replace
    lits = []
    for m in re.finditer(STR, body):
        s = rust_unescape(m.group(1))
        s = re.sub(r"\$\{?[A-Za-z0-9_]+\}?", "", s)       # capture-group references
        lits.append(s)
    return lits


def module_fns(src):
    """name -> body of every module-level fn of the file"""
    fns = {}
    for m in re.finditer(r"\n(?:pub )?fn ([A-Za-z_][A-Za-z0-9_]*)\s*[(<]", src):
        try:
            fns[m.group(1)] = fn_text(src, m.group(1)) if re.search(r"\nfn %s\s*\(" % m.group(1), src) else ""
        except GenError:
            pass
    return fns


def reachable(fns, start):
    seen, todo = set(), [start]
    while todo:
        f = todo.pop()
        if f in seen or f not in fns:
            continue
        seen.add(f)
        for g in re.findall(r"\b([A-Za-z_][A-Za-z0-9_]*)\s*\(", fns[f]):
            if g in fns and g not in seen:
                todo.append(g)
    return sorted(seen)


def parse_source(src):
    out = {}
    fns = module_fns(src)
    for code, (tab, fn) in CODES.items():
        prefs = pref_keys(fns.get(fn, ""))
        table = parse_table(src, tab)
        rx = find_class(src, code, fn)
        cls = parse_class(rx)
        # literals of the clean-up function itself; helper functions (the UEB-family character machines and their
        # contraction tables) are not translated: what they insert is covered by the run-time oracle only
        lits = template_literals(fns.get(fn, ""))
        lits = [l for l in lits if not re.search(r"[a-z]{3,}", l) and "(?P" not in l]       # log / assertion messages, patterns
        out[code] = {"table": table, "class": cls, "class_src": rx, "prefs": prefs, "literals": lits}
    return out


def render(t, texts, pref_values, exempt):
    out = [HEADER, comment("from src/braille.rs (tables, classes, literals) and Rules/Braille/*/ (texts, through yaml-rust)")]
    for code, d in t.items():
        lc = code.lower()
        out.append("Definition %s_table : list (list N * list N) := %s.\n" % (lc, clist(
            ("(%s, %s) %s" % (cstr(k), cstr(v), comment(k)) for k, v in d["table"]))))
        out.append("Definition %s_class : list (N * N) := [%s]. %s\n" % (lc, "; ".join("(%d, %d)" % r for r in d["class"]), comment(d["class_src"])))
        out.append("Definition %s_prefs : list (N * list N) := [%s].\n" % (lc, "; ".join(
            "(%d, %s) %s" % (ord(k), cstr(pref_values.get(name, "")), comment(name)) for k, name in d["prefs"])))
        out.append("Definition %s_exempt : list (list N) := %s.\n" % (lc, clist((cstr(s) for s in sorted(exempt.get(code, []))), per_line=4)))
        out.append("Definition %s_literals : list (list N) := %s.\n" % (lc, clist((cstr(s) for s in sorted(set(d["literals"]))), per_line=4)))
        out.append("Definition %s_texts : list (list N) := %s.\n" % (lc, clist((cstr(s) for s in sorted(set(texts.get(code, [])))), per_line=4)))
    return "\n".join(out)
