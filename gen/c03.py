"""C03 translators.
  OpDict.v     : the operator dictionary (src/operator-info.in): per operator text the chain of (type bits, priority);
                 AMBIGUOUS_OPERATORS, the synthetic OperatorInfo statics, GLOBAL_ATTRS (src/canonicalize.rs, text).
  ParserDefs.v : the definition sets the parser consults (FunctionNames, TrigFunctionNames, LikelyFunctionNames,
                 GeometryShapes) as the library holds them after loading the rule files (run-time dump through the harness).
"""
import re
from .coqfmt import HEADER, clist, cstr, comment
from .c17 import rust_unescape


class GenError(Exception):
    pass


TYPES = {"NONE": 0, "PREFIX": 1, "INFIX": 2, "POSTFIX": 4, "FENCE": 8, "LEFT_FENCE": 9, "RIGHT_FENCE": 12, "UNSPECIFIED": 15}
STR = r'"((?:[^"\\]|\\.)*)"'


def parse_opdict(src):
    """[(text, [(type, priority), ...])] in file order"""
    body = re.sub(r"(?m)//[^\n\"]*$", "", src)
    entries = []
    # an entry starts at `"text" => OperatorInfo{` and runs to the next entry
    starts = [m for m in re.finditer(r'(?m)^\s*' + STR + r'\s*=>\s*OperatorInfo\s*\{', body)]
    for i, m in enumerate(starts):
        seg = body[m.start():starts[i + 1].start() if i + 1 < len(starts) else len(body)]
        chain = [(TYPES[t], int(p)) for t, p in re.findall(r"op_type:\s*OperatorTypes::([A-Z_]+)\s*,\s*priority:\s*(\d+)", seg)]
        if not chain or seg.count("OperatorInfo") != len(chain):
            raise GenError("cannot parse dictionary entry %r" % seg[:80])
        if seg.count("&Some") != len(chain) - 1 or seg.count("&None") != 1:
            raise GenError("unexpected chain shape in %r" % seg[:80])
        entries.append((rust_unescape(m.group(1)), chain))
    if len(entries) != len(re.findall(r"=>", body)):
        raise GenError("operator-info.in: %d '=>' but %d parsed entries" % (len(re.findall(r'=>', body)), len(entries)))
    return entries


def phf_set(src, name):
    m = re.search(r"static %s: phf::Set<&str> = phf_set! \{(.*?)\};" % name, src, re.S)
    if not m:
        raise GenError("set %s not found" % name)
    body = re.sub(r"//[^\n]*", "", m.group(1))
    return [rust_unescape(x) for x in re.findall(STR, body)]


def statics(src):
    """the synthetic OperatorInfo statics: name -> (type, priority)"""
    out = {}
    src = re.sub(r"//[^\n]*", "", src)
    for m in re.finditer(r"static ref ([A-Z_]+):\s*(?:&'static )?OperatorInfo\s*=\s*&?OperatorInfo\s*\{\s*op_type:\s*OperatorTypes::([A-Z_]+)\s*,\s*priority:\s*(\d+)\s*,\s*next:\s*&\s*None\s*\}", src):
        out[m.group(1)] = (TYPES[m.group(2)], int(m.group(3)))
    need = ["LEFT_FENCEPOST", "IMPLIED_TIMES_HIGH_PRIORITY", "IMPLIED_SEPARATOR_HIGH_PRIORITY", "IMPLIED_CHEMICAL_BOND",
            "IMPLIED_PLUS_SLASH_HIGH_PRIORITY", "DEFAULT_OPERATOR_INFO_PREFIX", "DEFAULT_OPERATOR_INFO_INFIX",
            "DEFAULT_OPERATOR_INFO_POSTFIX", "ILLEGAL_OPERATOR_INFO"]
    for k in need:
        if k not in out:
            raise GenError("static %s not found" % k)
    return [(k, out[k]) for k in need]


def named_ops(src):
    """static ref NAME: &'static OperatorInfo = OPERATORS.get("x").unwrap();"""
    out = []
    for m in re.finditer(r"static ref ([A-Z_]+):\s*&'static OperatorInfo\s*=\s*OPERATORS\.get\(" + STR + r"\)\.unwrap\(\)", src):
        out.append((m.group(1), rust_unescape(m.group(2))))
    need = {"INVISIBLE_FUNCTION_APPLICATION", "IMPLIED_TIMES", "IMPLIED_INVISIBLE_COMMA", "IMPLIED_INVISIBLE_PLUS", "PLUS", "MINUS", "TIMES_SIGN"}
    if need - {k for k, _ in out}:
        raise GenError("named operators missing: %s" % sorted(need - {k for k, _ in out}))
    return out


def unicode_ranges(pred):
    """maximal ranges of code points satisfying pred (python's unicodedata: reference data, not MathCAT's)"""
    out, start = [], None
    for c in range(0x110000):
        ok = pred(c)
        if ok and start is None:
            start = c
        elif not ok and start is not None:
            out.append((start, c - 1))
            start = None
    if start is not None:
        out.append((start, 0x10FFFF))
    return out


OTHER_UPPERCASE = [(0x2160, 0x216F), (0x24B6, 0x24CF), (0x1F130, 0x1F149), (0x1F150, 0x1F169), (0x1F170, 0x1F189)]


def is_uppercase(c):
    import unicodedata
    return unicodedata.category(chr(c)) == "Lu" or any(a <= c <= b for a, b in OTHER_UPPERCASE)


def is_digit(c):
    import unicodedata
    return unicodedata.category(chr(c)) == "Nd"


def render_opdict(entries, ambiguous, stat, named, global_attrs, leaf_nodes, modified_nodes):
    out = [HEADER, comment("from src/operator-info.in and src/canonicalize.rs")]
    out.append("Definition opdict : list (list N * list (N * N)) := %s.\n" % clist(
        ("(%s, [%s]) %s" % (cstr(t), "; ".join("(%d, %d)" % c for c in ch), comment(t.replace('"', "dq"))) for t, ch in entries)))
    out.append("Definition ambiguous_operators : list (list N) := [%s].\n" % "; ".join(cstr(a) for a in ambiguous))
    for i, (k, (ty, pr)) in enumerate(stat):
        out.append("Definition static_%s : N * N * N := (%d, %d, %d). %s" % (k.lower(), ty, pr, i, comment("type, priority, cell")))
    out.append("")
    for k, t in named:
        out.append("Definition named_%s : list N := %s." % (k.lower(), cstr(t)))
    out.append("Definition parser_leaf_nodes : list (list N) := [%s]." % "; ".join(cstr(a) for a in leaf_nodes))
    out.append("Definition parser_modified_nodes : list (list N) := [%s]." % "; ".join(cstr(a) for a in modified_nodes))
    out.append("Definition global_attrs : list (list N) := %s.\n" % clist((cstr(a) + " " + comment(a) for a in global_attrs), per_line=4))
    return "\n".join(out)


def render_defs(sets):
    out = [HEADER, comment("definition sets as loaded by the library (Language=en), dumped through the harness; Unicode reference data from python's unicodedata")]
    out.append("Definition uppercase_ranges : list (N * N) := %s.\n" % clist(("(%d, %d)" % r for r in unicode_ranges(is_uppercase)), per_line=8))
    out.append("Definition digit_ranges : list (N * N) := %s.\n" % clist(("(%d, %d)" % r for r in unicode_ranges(is_digit)), per_line=8))
    for name, vals in sets.items():
        out.append("Definition def_%s : list (list N) := %s.\n" % (name, clist((cstr(v) for v in vals), per_line=6)))
    return "\n".join(out)
