"""C06 translator: the regex / literal replace steps of a braille clean-up function (src/braille.rs) as lists of
ACTIONS.  For one alternative of a regex, read left to right at its top level:
    Keep          a capturing group that the replacement template re-emits (at this position)
    Drop alpha    any other piece of the pattern: its text is deleted; alpha = the characters it can contain
                  (None = any character)
    Ins text      literal text of the template
A (regex, template) pair is of this shape when the template refers to top-level capturing groups only, in
increasing order, each at most once, and a group it refers to is not repeated (*, +).  Anything else is emitted as
`opaque` and fails the Coq obligation.  Function calls in the clean-up function (character machines) are listed as
opaque steps too: the theorems then speak about the translated steps only."""
import re
from .coqfmt import HEADER, clist, cstr, comment
from .c17 import rust_unescape
from .c07 import fn_text, module_fns, parse_table, GenError

MAX_CLASS = 4096


# ------------------------------------------------------------------ a small regex parser (the subset used in braille.rs)
class Node:
    def __init__(self, kind, **kw):
        self.kind = kind
        self.__dict__.update(kw)


def parse_regex(p):
    pos = [0]
    ngroups = [0]

    def peek():
        return p[pos[0]] if pos[0] < len(p) else None

    def eat():
        c = p[pos[0]]
        pos[0] += 1
        return c

    def parse_alt():
        alts = [parse_seq()]
        while peek() == "|":
            eat()
            alts.append(parse_seq())
        return alts[0] if len(alts) == 1 else Node("alt", alts=alts)

    def parse_seq():
        items = []
        while peek() is not None and peek() not in "|)":
            items.append(parse_quant())
        return Node("seq", items=items)

    def parse_quant():
        a = parse_atom()
        while peek() in ("?", "*", "+"):
            q = eat()
            if peek() == "?":
                eat()
            a = Node("quant", q=q, sub=a)
        if peek() == "{":
            raise GenError("counted repetition is not handled: " + p)
        return a

    def parse_escape(in_class):
        c = eat()
        if c == "u":
            if peek() == "{":
                j = p.index("}", pos[0])
                v = int(p[pos[0] + 1:j], 16)
                pos[0] = j + 1
            else:
                v = int(p[pos[0]:pos[0] + 4], 16)
                pos[0] += 4
            return ("chars", [(v, v)])
        if c == "w" or c == "d" or c == "s":
            return ("any", None)          # large Unicode classes: treated as "any character"
        if c in "WDSbB":
            return ("any", None)
        if c == "n":
            return ("chars", [(10, 10)])
        if c == "t":
            return ("chars", [(9, 9)])
        return ("chars", [(ord(c), ord(c))])

    def parse_class():
        neg = False
        if peek() == "^":
            eat()
            neg = True
        ranges, anyc, first = [], False, True
        while True:
            c = peek()
            if c is None:
                raise GenError("unterminated class in " + p)
            if c == "]" and not first:
                eat()
                break
            first = False
            if c == "\\":
                eat()
                k, v = parse_escape(True)
                if k == "any":
                    anyc = True
                    continue
                lo = v[0][0]
            else:
                lo = ord(eat())
            if peek() == "-" and pos[0] + 1 < len(p) and p[pos[0] + 1] != "]":
                eat()
                if peek() == "\\":
                    eat()
                    k, v = parse_escape(True)
                    hi = v[0][0]
                else:
                    hi = ord(eat())
                ranges.append((lo, hi))
            else:
                ranges.append((lo, lo))
        if neg or anyc:
            return Node("any")
        return Node("chars", ranges=ranges)

    def parse_atom():
        c = eat()
        if c == "(":
            cap, name = True, None
            if peek() == "?":
                eat()
                if peek() == ":":
                    eat()
                    cap = False
                elif peek() == "P":
                    eat()
                    assert eat() == "<"
                    j = p.index(">", pos[0])
                    name = p[pos[0]:j]
                    pos[0] = j + 1
                else:
                    raise GenError("group flags are not handled: " + p)
            idx = None
            if cap:
                ngroups[0] += 1
                idx = ngroups[0]
            sub = parse_alt()
            if eat() != ")":
                raise GenError("unbalanced group in " + p)
            return Node("group", cap=cap, idx=idx, name=name, sub=sub)
        if c == "[":
            return parse_class()
        if c == ".":
            return Node("any")
        if c == "^" or c == "$":
            return Node("anchor")
        if c == "\\":
            k, v = parse_escape(False)
            return Node("any") if k == "any" else Node("chars", ranges=v)
        return Node("chars", ranges=[(ord(c), ord(c))])
    ast = parse_alt()
    if pos[0] != len(p):
        raise GenError("trailing input in regex " + p)
    return ast


def alphabet(n):
    """set of ranges the node's match can contain, or None (any)"""
    if n.kind == "any":
        return None
    if n.kind == "anchor":
        return []
    if n.kind == "chars":
        return list(n.ranges)
    if n.kind == "quant":
        return alphabet(n.sub)
    if n.kind == "group":
        return alphabet(n.sub)
    subs = n.alts if n.kind == "alt" else n.items
    out = []
    for s in subs:
        a = alphabet(s)
        if a is None:
            return None
        out += a
    return out


def has_nested_capture(n, top=True):
    if n.kind == "group":
        if n.cap and not top:
            return True
        return has_nested_capture(n.sub, False)
    if n.kind == "quant":
        return has_nested_capture(n.sub, top)
    if n.kind in ("alt", "seq"):
        return any(has_nested_capture(s, False if n.kind == "alt" and top else top) for s in (n.alts if n.kind == "alt" else n.items))
    return False


def parse_template(t):
    """[('lit', s) | ('ref', name-or-index)]"""
    out, i, lit = [], 0, ""
    while i < len(t):
        if t[i] == "$":
            if i + 1 < len(t) and t[i + 1] == "$":
                lit += "$"
                i += 2
                continue
            m = re.match(r"\$\{([A-Za-z0-9_]+)\}|\$([A-Za-z0-9_]+)", t[i:])
            if not m:
                raise GenError("bad template " + t)
            if lit:
                out.append(("lit", lit))
                lit = ""
            out.append(("ref", m.group(1) or m.group(2)))
            i += m.end()
        else:
            lit += t[i]
            i += 1
    if lit:
        out.append(("lit", lit))
    return out


def actions_of(pattern, template):
    """list of alternatives, each a list of actions ('ins', s) | ('keep',) | ('drop', ranges|None); None = not of the shape"""
    ast = parse_regex(pattern)
    tmpl = parse_template(template)
    if ast.kind == "seq" and all(i.kind == "chars" and len(i.ranges) == 1 and i.ranges[0][0] == i.ranges[0][1] for i in ast.items) \
            and all(k == "lit" for k, _ in tmpl):
        # a literal pattern and a literal replacement: the common suffix is kept, the rest is dropped / inserted
        lit = "".join(chr(i.ranges[0][0]) for i in ast.items)
        rep = "".join(v for _, v in tmpl)
        j = 0
        while j < len(lit) and j < len(rep) and lit[j] == rep[j]:
            j += 1
        lit2, rep2 = lit[j:], rep[j:]
        k = 0
        while k < len(lit2) and k < len(rep2) and lit2[len(lit2) - 1 - k] == rep2[len(rep2) - 1 - k]:
            k += 1
        acts = [("keep",)] if j else []
        if len(rep2) - k:
            acts.append(("ins", rep2[:len(rep2) - k]))
        if len(lit2) - k:
            acts.append(("drop", [(ord(c), ord(c)) for c in lit2[:len(lit2) - k]]))
        if k:
            acts.append(("keep",))
        return [acts]
    alts = ast.alts if ast.kind == "alt" else [ast]
    result = []
    for alt in alts:
        if alt.kind != "seq":
            alt = Node("seq", items=[alt])
        # top-level pieces
        pieces = []
        for it in alt.items:
            q, core = None, it
            if it.kind == "quant":
                q, core = it.q, it.sub
                if core.kind == "quant":
                    return None
            if core.kind == "anchor":
                continue
            if core.kind == "group" and core.cap and q in (None, "?") and not has_nested_capture(core.sub, False):
                pieces.append(("group", core.idx, core.name, alphabet(core)))
            else:
                if has_nested_capture(it, False) or (core.kind == "group" and core.cap and q not in (None, "?")):
                    # a capture we cannot follow: fine only when the template does not refer to it (checked below)
                    pieces.append(("other", getattr(core, "idx", None), getattr(core, "name", None), alphabet(it)))
                else:
                    pieces.append(("other", None, None, alphabet(it)))
        acts, pi = [], 0
        for kind, val in tmpl:
            if kind == "lit":
                acts.append(("ins", val))
                continue
            # a reference: advance to the piece it names
            found = None
            for j in range(pi, len(pieces)):
                k, idx, name, al = pieces[j]
                if k == "group" and (val == name or val == str(idx)):
                    found = j
                    break
            if found is None:
                # a reference to a group that does not exist in this alternative inserts nothing; one that exists
                # elsewhere (nested, repeated, out of order) breaks the shape
                exists = any((val == name or val == str(idx)) for _, idx, name, _ in pieces if idx is not None)
                all_idx = set()

                def collect(n):
                    if n.kind == "group":
                        if n.cap:
                            all_idx.add(str(n.idx))
                            if n.name:
                                all_idx.add(n.name)
                        collect(n.sub)
                    elif n.kind == "quant":
                        collect(n.sub)
                    elif n.kind in ("alt", "seq"):
                        for s in (n.alts if n.kind == "alt" else n.items):
                            collect(s)
                collect(alt)
                if exists or val in all_idx:
                    return None
                continue
            for j in range(pi, found):
                acts.append(("drop", pieces[j][3]))
            acts.append(("keep",))
            pi = found + 1
        for j in range(pi, len(pieces)):
            acts.append(("drop", pieces[j][3]))
        result.append(acts)
    return result


# ------------------------------------------------------------------ the steps of a clean-up function
STR = r'"((?:[^"\\]|\\.)*)"'


def fn_body(src, name):
    """text of `fn name(...) {...}` with braces matched outside string / char literals and comments"""
    m = re.search(r"\nfn %s\s*\(" % re.escape(name), src)
    if not m:
        raise GenError("function %s not found" % name)
    i = src.index("{", m.end())
    depth, p, n = 0, i, len(src)
    while p < n:
        c = src[p]
        if src.startswith("//", p):
            p = src.index("\n", p)
            continue
        if c == "r" and p + 1 < n and src[p + 1] in '"#' and not (src[p - 1].isalnum() or src[p - 1] == "_"):
            mm = re.match(r'r(#*)"', src[p:])
            if mm:
                end = src.index('"' + mm.group(1), p + mm.end())
                p = end + 1 + len(mm.group(1))
                continue
        if c == '"':
            p += 1
            while src[p] != '"':
                p += 2 if src[p] == "\\" else 1
            p += 1
            continue
        if c == "'":
            mm = re.match(r"'(?:[^'\\]|\\.[^']*)'", src[p:])
            if mm:
                p += mm.end()
                continue
        if c == "{":
            depth += 1
        elif c == "}":
            depth -= 1
            if depth == 0:
                return src[m.start():p + 1]
        p += 1
    raise GenError("unbalanced braces in " + name)


def module_level(src):
    """the source with every function body blanked: what is left are the module-level items"""
    out, pos = [], 0
    for m in re.finditer(r"\n(?:pub )?fn ([A-Za-z_][A-Za-z0-9_]*)\s*[(<]", src):
        if m.start() < pos:
            continue
        try:
            b = fn_body(src, m.group(1)) if src[m.start():].startswith("\nfn ") else None
        except GenError:
            b = None
        if b is None:
            continue
        out.append(src[pos:m.start()])
        pos = m.start() + len(b)
    out.append(src[pos:])
    return "".join(out)


def regex_defs(src, body):
    """name -> pattern for the lazy_static regexes of the module (outside functions) and of the function"""
    defs = {}
    for text in (module_level(src), body):
        for m in re.finditer(r'static ref ([A-Z_0-9a-z]+):\s*Regex\s*=\s*Regex::new\(\s*r(#?)"(.*?)"\2\s*\)', text, re.S):
            defs[m.group(1)] = m.group(3)
    return defs


def steps_of(src, fn_name, table_name):
    """ordered steps of the clean-up function: (label, alternatives | None)"""
    body = fn_body(src, fn_name)
    defs = regex_defs(src, body)
    table = parse_table(src, table_name) if table_name else []
    code = re.sub(r"//[^\n]*", "", body)
    code = code[code.index("{") + 1:]
    # cut the lazy_static block and nested fns
    code = re.sub(r"lazy_static!\s*\{.*?\n    \}", "", code, flags=re.S)
    code = re.sub(r"static [A-Z_]+: phf::Map.*?\};", "", code, flags=re.S)
    code = re.split(r"\n    fn ", code)[0]
    steps = []
    token = re.compile(
        r'(?P<ra>[A-Z_0-9]+)\.replace_all\(\s*&?\w+\s*,\s*' + STR + r'\s*\)'
        r'|(?P<rc>[A-Z_0-9]+)\.replace_all\(\s*&?\w+\s*,\s*\|'
        r'|\.replace\(\s*(?:' + STR + r"|'(?P<ch>(?:[^'\\]|\\.)+)')\s*,\s*" + STR + r'\s*\)'
        r"|\.trim_(?P<trim>start_matches|end_matches|matches)\(\s*'(?P<tc>.)'\s*\)"
        r'|(?P<loop>while let Some\(matched\) = (?P<lre>[A-Z_]+)\.find_at)'
        r'|(?P<call>\b(?:remove_unneeded_mode_changes|typeface_to_word_mode|capitals_to_word_mode|pick_start_mode|handle_contractions)\s*\()')
    for m in token.finditer(code):
        if m.group("ra"):
            name, tmpl = m.group("ra"), rust_unescape(m.group(2))
            if name not in defs:
                raise GenError("regex %s of %s not found" % (name, fn_name))
            steps.append(("%s -> %r" % (name, tmpl), actions_of(defs[name], tmpl), defs[name]))
        elif m.group("rc"):
            name = m.group("rc")
            if name == "REPLACE_INDICATORS":
                pat = defs[name]
                mm = re.fullmatch(r"\(\[(.*)\]\)", pat, re.S)
                keys = [k for k, _ in table]
                alts = [[("drop", [(ord(k), ord(k))] if len(k) == 1 else None), ("ins", v)] for k, v in table]
                steps.append(("REPLACE_INDICATORS by %s" % table_name, alts, pat))
            else:
                steps.append(("%s with a closure" % name, None, defs.get(name, "")))
        elif m.group("trim"):
            c = m.group("tc")
            steps.append(("trim_%s %r" % (m.group("trim"), c), [[("drop", [(ord(c), ord(c))])]], ""))
        elif m.group("loop"):
            name = m.group("lre")
            mm = re.search(name + r'\.replace\(\s*&[^,]+,\s*' + STR + r'\)', code)
            if not mm:
                raise GenError("template of the %s loop not found" % name)
            tmpl = rust_unescape(mm.group(1))
            # the loop re-emits the text before, the match through its template, and rescans from the last byte of
            # the match: the `end` group is not in the template but is copied by the next iteration
            acts = actions_of(defs[name], tmpl + "${end}")
            steps.append(("%s loop -> %r (+ rescanned end)" % (name, tmpl), acts, defs[name]))
        elif m.group("call"):
            steps.append(("call " + m.group("call").strip("( "), None, ""))
        else:
            a = rust_unescape(m.group(4)) if m.group(4) is not None else rust_unescape(m.group("ch"))
            b = rust_unescape(m.group(6))
            steps.append(("replace(%r, %r)" % (a, b), actions_of(re.sub(r"([\\^$.|?*+()\[\]{}])", r"\\\1", a), b.replace("$", "$$")), ""))
    n_calls = len(re.findall(r"\.replace_all\(|\.replace\(|\.trim_(?:start_|end_)?matches\(", code))
    n_seen = sum(1 for s in steps if not s[0].startswith("call ") and "loop" not in s[0])
    loop_extra = len(re.findall(r"ADD_ENGLISH_LETTER_INDICATOR\.replace\(", code))
    if n_calls - loop_extra != n_seen:
        raise GenError("%s: %d replace/trim calls in the source but %d translated steps" % (fn_name, n_calls - loop_extra, n_seen))
    return steps


def ranges_term(r):
    if r is None:
        return "None"
    total = sum(b - a + 1 for a, b in r)
    if total > MAX_CLASS:
        return "None"
    return "(Some [%s])" % "; ".join("(%d, %d)" % x for x in r)


def action_term(a):
    if a[0] == "ins":
        return "Ins %s" % cstr(a[1])
    if a[0] == "keep":
        return "Keep"
    return "Drop %s" % ranges_term(a[1])


def render(codes):
    out = [HEADER, "From MC Require Import Model.BrailleClean.\n", comment("clean-up steps of src/braille.rs as action lists (gen/c06.py)")]
    for code, steps in codes.items():
        items = []
        for label, alts, pat in steps:
            if alts is None:
                items.append("SOpaque %s" % comment(label))
            else:
                items.append("SStep [%s] %s" % ("; ".join("[%s]" % "; ".join(action_term(a) for a in alt) for alt in alts), comment(label)))
        out.append("Definition %s_steps : list step := %s.\n" % (code.lower(), clist(items)))
    return "\n".join(out)
