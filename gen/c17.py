"""C17 translators.
  Entities.v    : src/entities.in (name -> replacement text as inserted into the XML source), the character class of
                  the HTML_ENTITIES regex and the source text of the five pre-parse regexes of set_mathml.
  RefEntities.v : python html.entities.html5 (reference, not MathCAT's).
"""
import html.entities
import re
from .coqfmt import HEADER, clist, cstr, comment


class GenError(Exception):
    pass


def rust_unescape(s):
    out, i = [], 0
    while i < len(s):
        if s[i] == "\\":
            if s.startswith("\\u{", i):
                j = s.index("}", i)
                out.append(chr(int(s[i + 3:j], 16)))
                i = j + 1
                continue
            esc = {"n": "\n", "t": "\t", "r": "\r", "\\": "\\", '"': '"', "'": "'", "0": "\0"}
            if i + 1 < len(s) and s[i + 1] in esc:
                out.append(esc[s[i + 1]])
                i += 2
                continue
            raise GenError("unknown escape in %r" % s)
        out.append(s[i])
        i += 1
    return "".join(out)


def parse_entities(src):
    ents = []
    for line in src.splitlines():
        t = line.strip()
        if not t or t.startswith("//") or t.startswith("phf_map!") or t == "}":
            continue
        m = re.match(r'^"([^"]+)"\s*=>\s*"((?:[^"\\]|\\.)*)"\s*,?\s*\}?$', t)
        if not m:
            raise GenError("entities.in: cannot parse line %r" % line)
        ents.append((m.group(1), rust_unescape(m.group(2))))
    return ents


REGEX_NAMES = ["MATHJAX_V2", "MATHJAX_V3", "NAMESPACE_DECL", "PREFIX", "HTML_ENTITIES"]


def parse_regexes(src):
    res = {}
    for nm in REGEX_NAMES:
        m = re.search(r'static ref %s: Regex = Regex::new\(r#"(.*?)"#\)' % nm, src)
        if not m:
            raise GenError("regex %s not found in interface.rs" % nm)
        res[nm] = m.group(1)
    return res


def parse_entity_class(rx):
    """`&([CLASS]+?);` -> list of inclusive ranges.  Any other shape is a translator failure (tie broken)."""
    m = re.match(r"^&\(\[([^\]\\^]+)\]\+\?\);$", rx)
    if not m:
        raise GenError("HTML_ENTITIES regex has an unexpected shape: %r" % rx)
    body, ranges, i = m.group(1), [], 0
    while i < len(body):
        if i + 2 < len(body) and body[i + 1] == "-":
            ranges.append((ord(body[i]), ord(body[i + 2])))
            i += 3
        else:
            ranges.append((ord(body[i]), ord(body[i])))
            i += 1
    return ranges


def render_entities(ents, regexes, cls):
    out = [HEADER, comment("from src/entities.in and src/interface.rs (set_mathml lazy_static regexes)")]
    out.append("Definition entities : list (list N * list N) := " + clist(
        ("(%s, %s) %s" % (cstr(k), cstr(v), comment(k)) for k, v in ents)) + ".\n")
    out.append("Definition entity_class : list (N * N) := " + clist(("(%d, %d)" % r for r in cls), per_line=8) + ".\n")
    for nm in REGEX_NAMES:
        out.append("Definition re_src_%s : list N := %s. %s\n" % (nm, cstr(regexes[nm]), comment(regexes[nm])))
    return "\n".join(out)


def reference():
    ref = {}
    for k, v in html.entities.html5.items():
        if k.endswith(";"):
            ref[k[:-1]] = v
    return ref


def render_ref(ref):
    out = [HEADER, comment("reference: python html.entities.html5 (names ending in ';'), not MathCAT's")]
    out.append("Definition ref_entities : list (list N * list N) := " + clist(
        ("(%s, %s)" % (cstr(k), cstr(v)) for k, v in sorted(ref.items()))) + ".\n")
    return "\n".join(out)
