"""Element-name sets read from the source (shared by C09 / C01 / C02): MATHML_LEAF_NODES (xpath_functions.rs)."""
import re
from .coqfmt import HEADER, clist, cstr, comment


class GenError(Exception):
    pass


def phf_str_set(src, name):
    m = re.search(r"static %s: phf::Set<&str> = phf_set! \{(.*?)\};" % name, src, re.S)
    if not m:
        raise GenError("set %s not found" % name)
    body = re.sub(r"//[^\n]*", "", m.group(1))
    return re.findall(r'"([^"]+)"', body)


def render(sets):
    out = [HEADER, comment("element-name sets from src/xpath_functions.rs and src/canonicalize.rs")]
    for name, vals in sets.items():
        out.append("Definition %s : list (list N) := %s.\n" % (name, clist(("%s %s" % (cstr(v), comment(v)) for v in vals), per_line=1)))
    return "\n".join(out)


def phf_set_any(src, name):
    """a phf set wherever it is declared (module level or inside a function), whatever the spacing"""
    m = re.search(r"static %s\s*:\s*phf::Set<&str>\s*=\s*phf_set!\s*\{(.*?)\};" % name, src, re.S)
    if not m:
        raise GenError("set %s not found" % name)
    body = re.sub(r"//[^\n]*", "", m.group(1))
    vals = re.findall(r'"([^"]+)"', body)
    if not vals:
        raise GenError("set %s is empty" % name)
    return vals


def three_children(can):
    """the names in the arm of assure_mathml that asks for 3 children"""
    m = re.search(r"fn assure_mathml\(.*?\n\t\}\n", can, re.S)
    if not m:
        raise GenError("assure_mathml not found")
    a = re.search(r'((?:"[a-z]+"\s*\|\s*)*"[a-z]+")\s*=>\s*if n_children != 3', m.group(0))
    if not a:
        raise GenError("the 3-children arm of assure_mathml not found")
    b = re.search(r'_\s*=>\s*if n_children != 2', m.group(0))
    if not b:
        raise GenError("the 2-children arm of assure_mathml not found")
    return re.findall(r'"([a-z]+)"', a.group(1))


def assure_sets(can, xpf):
    return {"leaf_nodes": phf_set_any(xpf, "MATHML_LEAF_NODES"), "empty_elements": phf_set_any(can, "EMPTY_ELEMENTS"),
            "all_mathml_elements": phf_set_any(can, "ALL_MATHML_ELEMENTS"), "fixed_children": phf_set_any(can, "ELEMENTS_WITH_FIXED_NUMBER_OF_CHILDREN"),
            "three_children": three_children(can)}
