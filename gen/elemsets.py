"""Element-name sets read from the source (shared by C09 / C01 / C02): MATHML_LEAF_NODES (xpath_functions.rs)."""
import re
from .coqfmt import HEADER, clist, cstr, comment


class GenError(Exception):
    pass


def phf_str_set(src, name):
    m = re.search(r"static %s: phf::Set<&str> = phf_set! \{(.*?)\};" % name, src, re.S)
    if not m:
        raise GenError("set %s not found" % name)
    body = re.sub(r"//[^\n]*", "", m.group(1))
    return re.findall(r'"([^"]+)"', body)


def render(sets):
    out = [HEADER, comment("element-name sets from src/xpath_functions.rs and src/canonicalize.rs")]
    for name, vals in sets.items():
        out.append("Definition %s : list (list N) := %s.\n" % (name, clist(("%s %s" % (cstr(v), comment(v)) for v in vals), per_line=1)))
    return "\n".join(out)
