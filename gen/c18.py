"""C18 translators.
  MathVariant.v : MATH_VARIANTS, SHIFT_AMOUNTS, EXCEPTIONS, digamma arms, read from src/canonicalize.rs (text).
  UcdMath.v     : reference data that is NOT MathCAT's: python unicodedata (UCD 14.0) names/decompositions.
"""
import re
import unicodedata
from .coqfmt import HEADER, clist, cstr, comment


class GenError(Exception):
    pass


def parse_source(src):
    """Returns dict(variants=[(name,[a,b,c])], shifts=[(ch,off,table)], exceptions=[(k,v)], digamma_cond=int,
    digammas=[(from,to)], span=(start_line,end_line))"""
    m0 = src.find("fn canonicalize_plane1")
    if m0 < 0:
        raise GenError("canonicalize_plane1 not found")
    m1 = src.find("fn canonicalize_mo_text", m0)
    body = src[m0:m1 if m1 > 0 else len(src)]
    line0 = src.count("\n", 0, m0) + 1
    line1 = line0 + body.count("\n")

    def block(after, what):
        i = body.find(after)
        if i < 0:
            raise GenError("table %s not found" % what)
        j = body.find("phf_map!", i)
        k = body.find("{", j)
        depth, p = 0, k
        while p < len(body):
            if body[p] == "{":
                depth += 1
            elif body[p] == "}":
                depth -= 1
                if depth == 0:
                    break
            p += 1
        return body[k + 1:p]

    def strip_comments(t):
        return re.sub(r"//[^\n]*", "", t)

    # numeric constants of the function (a table entry or the digamma test may name one instead of a literal)
    consts = {m.group(1): int(m.group(2).replace("_", ""), 0)
              for m in re.finditer(r"\bconst\s+([A-Z][A-Z0-9_]*)\s*:\s*u32\s*=\s*(0x[0-9A-Fa-f_]+|\d[\d_]*)\s*;", strip_comments(src))}

    def num(x):
        x = x.strip()
        x = re.sub(r"(?:_?u32)$", "", x)
        if x in consts:
            return consts[x]
        try:
            return int(x.replace("_", ""), 0)
        except ValueError:
            raise GenError("cannot evaluate %r as a number" % x)

    vb = strip_comments(block("static MATH_VARIANTS", "MATH_VARIANTS"))
    variants = [(m.group(1), [num(x) for x in m.group(2).split(",") if x.strip()])
                for m in re.finditer(r'"([^"]+)"\s*=>\s*\[([^\]]*)\]', vb)]
    sb = strip_comments(block("static SHIFT_AMOUNTS", "SHIFT_AMOUNTS"))
    shifts = [(m.group(1), int(m.group(2)), int(m.group(3)))
              for m in re.finditer(r"'(.)'\s*=>\s*Offsets\s*\{\s*ch:\s*(\d+)\s*,\s*table:\s*(\d+)\s*\}", sb)]
    n_entries = len(re.findall(r"=>", sb))
    if n_entries != len(shifts):
        raise GenError("SHIFT_AMOUNTS: %d '=>' but %d parsed entries" % (n_entries, len(shifts)))
    eb = strip_comments(block("static EXCEPTIONS", "EXCEPTIONS"))
    exceptions = [(int(m.group(1), 16), int(m.group(2), 16))
                  for m in re.finditer(r"0x([0-9A-Fa-f]+)u32\s*=>\s*0x([0-9A-Fa-f]+)u32", eb)]
    if len(re.findall(r"=>", eb)) != len(exceptions):
        raise GenError("EXCEPTIONS: unparsed entries")
    if len(re.findall(r"=>", vb)) != len(variants):
        raise GenError("MATH_VARIANTS: unparsed entries")
    # digamma arms:   if char_mapping[2] == 0x1D6A8 { match ch { 'Ϝ' => '𝟊', 'ϝ' => '𝟋', _ => ch } }
    mc = re.search(r"if\s+char_mapping\[(\d)\]\s*==\s*(0x[0-9A-Fa-f]+|[A-Z][A-Z0-9_]*)\s*\{\s*match ch\s*\{(.*?)\}", body, re.S)
    if not mc:
        raise GenError("digamma special case not found")
    dig_idx, dig_cond = int(mc.group(1)), num(mc.group(2))
    digammas = [(ord(m.group(1)), ord(m.group(2))) for m in re.finditer(r"'(.)'\s*=>\s*'(.)'", mc.group(3))]
    return dict(variants=variants, shifts=shifts, exceptions=exceptions, digamma_idx=dig_idx, digamma_cond=dig_cond,
                digammas=digammas, span=(line0, line1))


def render_mathvariant(t):
    out = [HEADER]
    out.append(comment("from src/canonicalize.rs lines %d-%d" % t["span"]))
    out.append("Definition math_variants : list (list N * (N * N * N)) := " + clist(
        "(%s, (%d, %d, %d)) %s" % (cstr(nm), v[0], v[1], v[2], comment(nm)) for nm, v in t["variants"]) + ".\n")
    out.append("Definition shift_amounts : list (N * (N * N)) := " + clist(
        ("(%d, (%d, %d))" % (ord(c), off, tb) for c, off, tb in t["shifts"]), per_line=6) + ".\n")
    out.append("Definition exceptions : list (N * N) := " + clist(
        ("(%d, %d)" % kv for kv in t["exceptions"]), per_line=6) + ".\n")
    out.append("Definition digamma_idx : N := %d.\nDefinition digamma_cond : N := %d.\n" % (t["digamma_idx"], t["digamma_cond"]))
    out.append("Definition digammas : list (N * N) := " + clist(("(%d, %d)" % kv for kv in t["digammas"]), per_line=6) + ".\n")
    return "\n".join(out)


# --------------------------------------------------------------------------------------------------------------
# Reference (UCD) side
# --------------------------------------------------------------------------------------------------------------
STYLE_OF_UCD = {
    "BOLD": "bold", "ITALIC": "italic", "BOLD ITALIC": "bold-italic", "SCRIPT": "script", "BOLD SCRIPT": "bold-script",
    "FRAKTUR": "fraktur", "DOUBLE-STRUCK": "double-struck", "BOLD FRAKTUR": "bold-fraktur", "SANS-SERIF": "sans-serif",
    "SANS-SERIF BOLD": "bold-sans-serif", "SANS-SERIF ITALIC": "sans-serif-italic",
    "SANS-SERIF BOLD ITALIC": "sans-serif-bold-italic", "MONOSPACE": "monospace",
}
LETTERLIKE_STYLE = {"SCRIPT": "script", "BLACK-LETTER": "fraktur", "DOUBLE-STRUCK": "double-struck"}


def font_base(cp):
    d = unicodedata.decomposition(chr(cp))
    m = re.match(r"<font> ([0-9A-F]{4,6})$", d)
    return int(m.group(1), 16) if m else None


def is_latin(c):
    return (0x41 <= c <= 0x5A) or (0x61 <= c <= 0x7A)


def is_digit(c):
    return 0x30 <= c <= 0x39


def is_greekish(c):
    # Greek letters and the variant symbols / nabla / partial that the math alphanumeric block styles
    return (0x391 <= c <= 0x3F5) or c in (0x2207, 0x2202)


def ucd_reference():
    """(style, base) -> code point, from UCD names + <font> decompositions.  Domain: Latin letters, digits, Greek
    letters and Greek variant symbols (dotless i/j excluded: not a Latin letter of the property's quantifier)."""
    ref = {}
    for cp in range(0x1D400, 0x1D800):
        nm = unicodedata.name(chr(cp), None)
        if nm is None or not nm.startswith("MATHEMATICAL "):
            continue
        rest = nm[len("MATHEMATICAL "):]
        style = None
        for k in sorted(STYLE_OF_UCD, key=len, reverse=True):
            if rest.startswith(k + " "):
                style = STYLE_OF_UCD[k]
                break
        base = font_base(cp)
        if style is None or base is None:
            continue
        if not (is_latin(base) or is_digit(base) or is_greekish(base)):
            continue
        ref[(style, base)] = cp
    # holes: Letterlike Symbols with a <font> decomposition to a Latin letter, used only where the block has none
    for cp in range(0x2100, 0x2150):
        nm = unicodedata.name(chr(cp), None)
        base = font_base(cp)
        if nm is None or base is None or not is_latin(base):
            continue
        style = None
        if nm == "PLANCK CONSTANT":
            style = "italic"
        else:
            m = re.match(r"(SCRIPT|BLACK-LETTER|DOUBLE-STRUCK) (CAPITAL|SMALL) [A-Z]$", nm)
            if m:
                style = LETTERLIKE_STYLE[m.group(1)]
        if style and (style, base) not in ref:
            ref[(style, base)] = cp
    return ref


def assigned_ranges():
    """assigned code points in the two blocks a styled character can come from, as inclusive ranges"""
    rs = []
    for lo, hi in ((0x2100, 0x214F), (0x1D400, 0x1D7FF)):
        start = None
        for cp in range(lo, hi + 2):
            ok = cp <= hi and unicodedata.name(chr(cp), None) is not None
            if ok and start is None:
                start = cp
            if not ok and start is not None:
                rs.append((start, cp - 1))
                start = None
    return rs


def render_ucd():
    ref = ucd_reference()
    styles = sorted(set(STYLE_OF_UCD.values()))
    domain = sorted(set(b for (_, b) in ref))
    out = [HEADER]
    out.append(comment("reference data from python unicodedata %s (not MathCAT's)" % unicodedata.unidata_version))
    out.append("Definition ucd_styles : list (list N) := " + clist("%s %s" % (cstr(s), comment(s)) for s in styles) + ".\n")
    out.append("Definition ucd_domain : list N := " + clist((str(c) for c in domain), per_line=12) + ".\n")
    out.append("Definition ucd_map : list (list N * N * N) := " + clist(
        ("(%s, %d, %d)" % (cstr(s), b, cp) for (s, b), cp in sorted(ref.items())), per_line=1) + ".\n")
    out.append("Definition ucd_assigned : list (N * N) := " + clist(("(%d, %d)" % r for r in assigned_ranges()), per_line=6) + ".\n")
    return "\n".join(out), ref, styles, domain
