"""C15 -- every shipped language, style and braille code loads and works.
Coq (Props/C15.v): the file-location logic of the preference manager (get_language_dir, find_file, unzip_files) as a
function of four file-system observations; theorems for EVERY language / region / code name: what is located exists,
region first, then language, an unknown language is the default language, with a complete default nothing fails to be
located; generated obligations over the listing of /repo/Rules (regenerated on every run): the default language and
code are complete, every shipped language / region / code is served from its own directory, no zip archives, the only
shipped language directory that cannot be selected is the recorded finding.
Tie: the files the library locates (hook prefs::verif::files) for every shipped and a set of unknown / regional / odd
language, style and code names = the model's, kernel-checked.
Oracle (search + support): every (language or language-region, style, braille code, verbosity) present under Rules/
x a corpus covering every MathML element kind: set_preference succeeds and speech, overview, navigation speech and
braille are produced (no error, no panic, not empty)."""
import json
import os
import random
import sys

from . import common as C
from . import exprs as X

sys.path.insert(0, C.VERIF)
from gen.coqfmt import HEADER, clist, cstr


def listing(root=None):
    """all files under Rules/ as component lists"""
    root = root or C.RULES
    out = []
    for d, _, files in os.walk(root):
        for f in sorted(files):
            out.append(os.path.relpath(os.path.join(d, f), root).split(os.sep))
    return sorted(out)


def cpath(parts):
    return "[" + "; ".join(cstr(p) for p in parts) + "]"


def shipped_languages():
    """language names (with region) that ship: directories under Languages/ holding rule files"""
    out = []
    base = os.path.join(C.RULES, "Languages")
    for l in sorted(os.listdir(base)):
        p = os.path.join(base, l)
        if not os.path.isdir(p):
            continue
        if any(f.endswith(".yaml") for f in os.listdir(p)):
            out.append(l)
        for r in sorted(os.listdir(p)):
            q = os.path.join(p, r)
            if os.path.isdir(q) and r != "SharedRules" and any(f.endswith(".yaml") for f in os.listdir(q)):
                out.append(l + "-" + r)
    return out


def language_dirs():
    """every directory directly under Languages/ (with or without rule files)"""
    base = os.path.join(C.RULES, "Languages")
    return sorted(l for l in os.listdir(base) if os.path.isdir(os.path.join(base, l)))


def shipped_codes():
    base = os.path.join(C.RULES, "Braille")
    return sorted(c for c in os.listdir(base) if os.path.isdir(os.path.join(base, c)))


def styles_of(lang):
    parts = lang.split("-")
    seen = []
    for d in [os.path.join(C.RULES, "Languages", *parts[:i]) for i in range(len(parts), 0, -1)]:
        if os.path.isdir(d):
            seen += [f[:-len("_Rules.yaml")] for f in sorted(os.listdir(d)) if f.endswith("_Rules.yaml")]
    return sorted(set(seen))


def gen_tree():
    files = listing()
    langs = shipped_languages()
    body = HEADER + "From MC Require Import Lib.Base Model.FindFile.\n"
    body += "Definition rules_files : list path := " + clist([cpath(f) for f in files], per_line=2) + ".\n"
    body += "Definition shipped_languages : list path := [" + "; ".join(cpath(l.split("-")) for l in langs) + "].\n"
    body += "Definition language_directories : list str := [" + "; ".join(cstr(l) for l in language_dirs()) + "].\n"
    body += "Definition shipped_codes : list path := [" + "; ".join(cpath([c]) for c in shipped_codes()) + "].\n"
    body += "Definition shipped_styles : list (path * list str) := [" + "; ".join(
        "(%s, [%s])" % (cpath(l.split("-")), "; ".join(cstr(s) for s in styles_of(l))) for l in langs) + "].\n"
    C.write_if_changed(os.path.join(C.GEN, "RulesTree.v"), body)
    return files, langs


ODD_LANGS = ["xx", "xx-yy", "en-us", "en-GB", "es-mx", "es-419", "zh-cn", "fr", "de-ch", "zz-ab", "sv-fi", "vi-vn", "EN", "id-id"]
ODD_STYLES = ["Foo", "clearspeak"]
ODD_CODES = ["Braille9", "nemeth", "UEB2"]


def rel(p):
    r = os.path.relpath(p, C.RULES) if p else ""
    return r.split(os.sep) if p and not r.startswith("..") else ["<outside>", p]


def tie_sessions():
    langs = shipped_languages() + ODD_LANGS
    styles = ["ClearSpeak", "SimpleSpeak"] + ODD_STYLES
    codes = shipped_codes() + ODD_CODES
    sessions, meta = [], []
    for l in langs:
        for s in styles:
            sessions.append({"id": len(sessions), "ops": [["set_rules_dir", C.RULES], ["set_preference", "SpeechStyle", s], ["set_preference", "Language", l], ["v_prefs_files"]]})
            meta.append(("speech", l, s))
    for c in codes:
        sessions.append({"id": len(sessions), "ops": [["set_rules_dir", C.RULES], ["set_preference", "BrailleCode", c], ["v_prefs_files"]]})
        meta.append(("braille", c, None))
    # style changed after the language
    for l in shipped_languages()[:4] + ["xx"]:
        sessions.append({"id": len(sessions), "ops": [["set_rules_dir", C.RULES], ["set_preference", "Language", l], ["set_preference", "SpeechStyle", "SimpleSpeak"], ["v_prefs_files"]]})
        meta.append(("speech", l, "SimpleSpeak"))
    return sessions, meta


SPEECH_SLOTS = ["intent", "overview", "navigation", "speech_unicode", "speech_unicode_full", "speech_defs", "speech"]
BRAILLE_SLOTS = ["braille", "braille_unicode", "braille_unicode_full", "braille_defs"]


def generate(res):
    ok, log = C.build_harness()
    if not ok:
        raise RuntimeError("harness build failed: " + log)
    gen_tree()
    sessions, meta = tie_sessions()
    out = C.run_harness(sessions)
    items = []
    for (kind, name, style), r in zip(meta, out):
        rr = r.get("res") or []
        if len(rr) < 3:
            continue
        failed = any("err" in x for x in rr[1:-1])
        files = dict(rr[-1]["ok"]) if "ok" in rr[-1] else {}
        slots = SPEECH_SLOTS if kind == "speech" else BRAILLE_SLOTS
        obs = "None" if failed else "Some [%s]" % "; ".join(cpath(rel(files.get(s, ""))) for s in slots)
        if kind == "speech":
            items.append("(true, %s, %s, %s)" % (cstr(name), cstr(style), obs))
        else:
            items.append("(false, %s, [], %s)" % (cstr(name), obs))
    body = HEADER + "From MC Require Import Lib.Base Model.FindFile.\n" \
        "Definition locate_obs : list (bool * str * str * option (list path)) := " + clist(items) + ".\n"
    C.write_if_changed(os.path.join(C.GEN, "C15Obs.v"), body)
    if res is not None:
        res.extra["tie_cases"] = len(items)
    return meta, out


# ------------------------------------------------------------------------------------------------------------------
# oracle: every shipped configuration x a corpus over every element kind and every rule tag
# ------------------------------------------------------------------------------------------------------------------
ELEMENTS = [
    "<mrow><ms>text</ms><mo>+</mo><mspace width='1em'/><mi>x</mi></mrow>",
    "<mrow><merror><mtext>bad</mtext></merror><mo>+</mo><mphantom><mi>x</mi></mphantom><mi>y</mi></mrow>",
    "<mtable><mlabeledtr><mtd><mtext>(1)</mtext></mtd><mtd><mi>x</mi><mo>=</mo><mn>1</mn></mtd></mlabeledtr><mtr><mtd><mi>y</mi><mo>=</mo><mn>2</mn></mtd></mtr></mtable>",
    "<maction actiontype='toggle'><mi>a</mi><mi>b</mi></maction>",
    "<semantics><mrow><mi>x</mi><mo>+</mo><mn>1</mn></mrow><annotation encoding='TeX'>x+1</annotation></semantics>",
    "<mrow><menclose notation='longdiv'><mn>12</mn></menclose><mo>+</mo><menclose notation='circle updiagonalstrike'><mi>x</mi></menclose><mo>+</mo><menclose notation='top bottom'><mi>y</mi></menclose></mrow>",
    "<mrow><mover><mi>x</mi><mo>^</mo></mover><mo>+</mo><munder><mi>y</mi><mo>_</mo></munder><mo>+</mo><mover accent='true'><mrow><mi>A</mi><mi>B</mi></mrow><mo>&#x2194;</mo></mover></mrow>",
    "<mrow><mo>|</mo><mtable><mtr><mtd><mi>a</mi></mtd><mtd><mi>b</mi></mtd></mtr><mtr><mtd><mi>c</mi></mtd><mtd><mi>d</mi></mtd></mtr></mtable><mo>|</mo></mrow>",
    "<mtable><mtr><mtd><mi>x</mi><mo>+</mo><mi>y</mi></mtd><mtd><mo>=</mo></mtd><mtd><mn>1</mn></mtd></mtr><mtr><mtd><mi>x</mi><mo>-</mo><mi>y</mi></mtd><mtd><mo>=</mo></mtd><mtd><mn>0</mn></mtd></mtr></mtable>",
    "<mrow><mn>2</mn><msub><mi>H</mi><mn>2</mn></msub><mo>+</mo><msub><mi>O</mi><mn>2</mn></msub><mo>&#x2192;</mo><mn>2</mn><msub><mi>H</mi><mn>2</mn></msub><mi>O</mi></mrow>",
    "<mrow><msubsup><mi>SO</mi><mn>4</mn><mrow><mn>2</mn><mo>-</mo></mrow></msubsup><mo>+</mo><mmultiscripts><mi>U</mi><mprescripts/><mn>92</mn><mn>238</mn></mmultiscripts></mrow>",
    "<mrow><mi>Na</mi><msub><mi>Cl</mi><mrow><mo>(</mo><mi>aq</mi><mo>)</mo></mrow></msub></mrow>",
    "<mrow><mn>5</mn><mi intent=':unit'>km</mi><mo>+</mo><mn>3</mn><mi mathvariant='normal' intent=':unit'>m</mi></mrow>",
    "<mrow><mi>x</mi><mo>&#x2208;</mo><mo>(</mo><mn>0</mn><mo>,</mo><mn>1</mn><mo>]</mo><mo>&#x222A;</mo><mo>[</mo><mn>2</mn><mo>,</mo><mn>3</mn><mo>)</mo></mrow>",
    "<mrow><mo>(</mo><mfrac linethickness='0'><mi>n</mi><mi>k</mi></mfrac><mo>)</mo><mo>+</mo><mo>{</mo><mi>x</mi><mo>|</mo><mi>x</mi><mo>&gt;</mo><mn>0</mn><mo>}</mo></mrow>",
    "<mrow><msup><mi>f</mi><mrow><mo>-</mo><mn>1</mn></mrow></msup><mo>(</mo><mi>x</mi><mo>)</mo><mo>+</mo><msub><mi>log</mi><mn>2</mn></msub><mi>x</mi><mo>+</mo><msup><mi>sin</mi><mn>2</mn></msup><mi>x</mi></mrow>",
    "<mrow><mo>&#x2225;</mo><mi>v</mi><mo>&#x2225;</mo><mo>+</mo><msup><mi>A</mi><mi>T</mi></msup><mo>+</mo><mo>&#x2207;</mo><mo>&#xD7;</mo><mi>F</mi><mo>+</mo><mo>&#x2207;</mo><mo>&#x22C5;</mo><mi>F</mi></mrow>",
    "<mrow><mover><mrow><mi>A</mi><mi>B</mi></mrow><mo>&#xAF;</mo></mover><mo>&#x2245;</mo><mover><mrow><mi>C</mi><mi>D</mi></mrow><mo>&#x2192;</mo></mover><mo>,</mo><mi>m</mi><mo>&#x2220;</mo><mi>A</mi><mi>B</mi><mi>C</mi><mo>=</mo><msup><mn>90</mn><mo>&#xB0;</mo></msup></mrow>",
    "<mrow><msub><mrow><mi>f</mi><mo>(</mo><mi>x</mi><mo>)</mo><mo>|</mo></mrow><mrow><mi>x</mi><mo>=</mo><mn>1</mn></mrow></msub><mo>+</mo><mfrac><mrow><mi>d</mi><mi>y</mi></mrow><mrow><mi>d</mi><mi>x</mi></mrow></mfrac></mrow>",
    "<mrow><mi>&#x211D;</mi><mo>&#x2282;</mo><mi>&#x2102;</mi><mo>,</mo><msup><mi>&#x211D;</mi><mn>2</mn></msup><mo>,</mo><mn>3</mn><mo>&#x2212;</mo><mo>-</mo><mn>2</mn><mo>,</mo><mo>+</mo><mn>4</mn></mrow>",
    "<mrow><mi>P</mi><mo>(</mo><mn>1</mn><mo>,</mo><mn>2</mn><mo>)</mo><mo>,</mo><mover><mi>x</mi><mo>~</mo></mover><mo>,</mo><mn>3</mn><mo>&#xD7;</mo><mn>4</mn><mtext>&#xA0;matrix</mtext></mrow>",
]
NOT_INTENT_TAGS = {"!*", "*", "none", "math", "intent-wrapper"}


def rule_tags():
    import re
    tags = set()
    for root, _, fs in os.walk(C.RULES):
        for f in fs:
            if f.endswith(".yaml") and "unicode" not in f and f not in ("prefs.yaml", "definitions.yaml"):
                for line in open(os.path.join(root, f), encoding="utf-8", errors="replace"):
                    m = re.match(r"\s*-?\s*tag:\s*(.*?)\s*(#.*)?$", line)
                    if m:
                        for x in re.split(r"[,\[\]\s]+", m.group(1).strip()):
                            x = x.strip("\"'")
                            if x:
                                tags.add(x)
    return sorted(tags)


def intent_corpus():
    out = []
    args = [("a", "<mi arg='a'>x</mi>"), ("b", "<mn arg='b'>2</mn>"), ("c", "<mi arg='c'>y</mi>")]
    for t in rule_tags():
        if t in NOT_INTENT_TAGS or t.startswith("m") and t in ("mi", "mn", "mo", "mtext", "ms", "mrow", "mfrac", "msqrt", "mroot", "mstyle", "msub", "msup", "msubsup",
                                                             "munder", "mover", "munderover", "mmultiscripts", "mtable", "mtr", "mlabeledtr", "mtd", "menclose"):
            continue
        if t == "semantics":
            continue
        for n in (1, 2, 3):
            out.append("<mrow intent='%s(%s)'>%s</mrow>" % (t, ",".join("$" + a for a, _ in args[:n]), "<mo>&#x2063;</mo>".join(x for _, x in args[:n])))
    return out


NAV_STEPS = [["do_navigate_command", "ZoomIn"], ["do_navigate_command", "MoveNext"], ["do_navigate_command", "ReadCurrent"],
             ["do_navigate_command", "ZoomOutAll"], ["do_navigate_command", "DescribeCurrent"]]


def configurations(res):
    tier = res.tier if res else "quick"
    rng = random.Random((res.seed if res else 1) * 131 + 15)
    langs = [l for l in shipped_languages() if not l.startswith("zz")]
    speech = []
    for l in langs:
        for s in ["ClearSpeak", "SimpleSpeak"]:
            for v in ["Terse", "Medium", "Verbose"]:
                speech.append((l, s, v))
    codes = shipped_codes()
    if tier == "quick":
        # every language and style once with a seeded verbosity, every code
        speech = [(l, s, rng.choice(["Terse", "Medium", "Verbose"])) for l in langs for s in ["ClearSpeak", "SimpleSpeak"]]
    return speech, codes


def oracle(res):
    speech, codes = configurations(res)
    tier = res.tier if res else "quick"
    rng = random.Random((res.seed if res else 1) * 733 + 15)
    bodies = list(X.FIXED) + ELEMENTS + intent_corpus() + [X.gen(rng, 3, kinds=X.MORE_KINDS) for _ in range(20 if tier == "quick" else 200)]
    if tier == "quick":
        keep = list(X.FIXED) + ELEMENTS
        rest = [b for b in bodies if b not in keep]
        rng.shuffle(rest)
        per_config = lambda: keep + rest[:60]
    else:
        per_config = lambda: bodies
    sessions, meta = [], []
    for l, s, v in speech:
        ops = [["set_rules_dir", C.RULES], ["set_preference", "Language", l], ["set_preference", "SpeechStyle", s], ["set_preference", "Verbosity", v]]
        for b in per_config():
            ops += [["set_mathml", X.math(b)], ["get_spoken_text"], ["get_overview_text"]] + NAV_STEPS
        sessions.append({"id": len(sessions), "ops": ops})
        meta.append(("speech", (l, s, v)))
    for c in codes:
        ops = [["set_rules_dir", C.RULES], ["set_preference", "BrailleCode", c]]
        for b in per_config():
            ops += [["set_mathml", X.math(b)], ["get_braille", ""], ["do_navigate_command", "ZoomIn"], ["get_navigation_braille"]]
        sessions.append({"id": len(sessions), "ops": ops})
        meta.append(("braille", c))
    # names: regional, unknown, oddly written -- selecting them must not fail, and they must speak
    for l in ODD_LANGS:
        ops = [["set_rules_dir", C.RULES], ["set_preference", "Language", l]]
        for b in X.FIXED[:6]:
            ops += [["set_mathml", X.math(b)], ["get_spoken_text"], ["get_overview_text"]] + NAV_STEPS
        sessions.append({"id": len(sessions), "ops": ops})
        meta.append(("name", l))
    out = C.run_harness(sessions, timeout=3000)
    found = 0
    kf = {k["id"]: k for k in C.known_findings("C15")}
    for (kind, cfg), sess, r in zip(meta, sessions, out):
        rr = r.get("res") or []
        ops = sess["ops"]
        if len(rr) != len(ops):
            found += 1
            res.violation("the session for %s %s did not complete (crash / abort)" % (kind, cfg), {"kind": "config", "ops": ops[:4]})
            continue
        current = None
        bad = None
        for op, x in zip(ops, rr):
            if op[0] == "set_mathml":
                current = op[1]
            res_ok = "ok" in x
            empty = res_ok and op[0] in ("get_spoken_text", "get_braille", "get_overview_text") and isinstance(x["ok"], str) and x["ok"].strip() == ""
            if not res_ok or empty:
                bad = (op, x, current)
                break
        res.add_case("%s %s" % (kind, cfg), True, "%s %s" % (kind, cfg if isinstance(cfg, str) else "/".join(cfg)))
        if bad:
            op, x, current = bad
            found += 1
            what = "panic " + x["panic"][:150] if "panic" in x else ("error " + x.get("err", "")[:300].replace("\n", " | ") if "err" in x else "empty result")
            res.violation("%s %s: %s gives %s (expression %s)" % (kind, cfg, " ".join(str(a) for a in op[:2])[:60], what, (current or "")[:200]),
                          {"kind": "config", "config": [kind, cfg], "prefs": [o for o in ops[:4]], "expr": current, "op": op})
        if found >= 5:
            break
    res.extra["configurations"] = {"speech": len(speech), "braille": len(codes), "names": len(ODD_LANGS), "expressions_per_configuration": len(per_config())}
    return found
