"""C15 -- every shipped language, style and braille code loads and works.
Coq (Props/C15.v): the file-location logic of the preference manager (get_language_dir, find_file, unzip_files) as a
function of four file-system observations; theorems for EVERY language / region / code name: what is located exists,
region first, then language, an unknown language is the default language, with a complete default nothing fails to be
located; generated obligations over the listing of /repo/Rules (regenerated on every run): the default language and
code are complete, every shipped language / region / code is served from its own directory, no zip archives, the only
shipped language directory that cannot be selected is the recorded finding.
Tie: the files the library locates (hook prefs::verif::files) for every shipped and a set of unknown / regional / odd
language, style and code names = the model's, kernel-checked.
Oracle (search + support): every (language or language-region, style, braille code, verbosity) present under Rules/
x a corpus covering every MathML element kind: set_preference succeeds and speech, overview, navigation speech and
braille are produced (no error, no panic, not empty)."""
import json
import os
import random
import sys

from . import common as C
from . import ruleeval as RE
from . import exprs as X

sys.path.insert(0, C.VERIF)
from gen.coqfmt import HEADER, clist, cstr


def listing(root=None):
    """all files under Rules/ as component lists"""
    root = root or C.RULES
    out = []
    for d, _, files in os.walk(root):
        for f in sorted(files):
            out.append(os.path.relpath(os.path.join(d, f), root).split(os.sep))
    return sorted(out)


def cpath(parts):
    return "[" + "; ".join(cstr(p) for p in parts) + "]"


def shipped_languages():
    """language names (with region) that ship: directories under Languages/ holding rule files"""
    out = []
    base = os.path.join(C.RULES, "Languages")
    for l in sorted(os.listdir(base)):
        p = os.path.join(base, l)
        if not os.path.isdir(p):
            continue
        if any(f.endswith(".yaml") for f in os.listdir(p)):
            out.append(l)
        for r in sorted(os.listdir(p)):
            q = os.path.join(p, r)
            if os.path.isdir(q) and r != "SharedRules" and any(f.endswith(".yaml") for f in os.listdir(q)):
                out.append(l + "-" + r)
    return out


def language_dirs():
    """every directory directly under Languages/ (with or without rule files)"""
    base = os.path.join(C.RULES, "Languages")
    return sorted(l for l in os.listdir(base) if os.path.isdir(os.path.join(base, l)))


def shipped_codes():
    base = os.path.join(C.RULES, "Braille")
    return sorted(c for c in os.listdir(base) if os.path.isdir(os.path.join(base, c)))


def styles_of(lang):
    parts = lang.split("-")
    seen = []
    for d in [os.path.join(C.RULES, "Languages", *parts[:i]) for i in range(len(parts), 0, -1)]:
        if os.path.isdir(d):
            seen += [f[:-len("_Rules.yaml")] for f in sorted(os.listdir(d)) if f.endswith("_Rules.yaml")]
    return sorted(set(seen))


def gen_tree():
    files = listing()
    langs = shipped_languages()
    body = HEADER + "From MC Require Import Lib.Base Model.FindFile.\n"
    body += "Definition rules_files : list path := " + clist([cpath(f) for f in files], per_line=2) + ".\n"
    body += "Definition shipped_languages : list path := [" + "; ".join(cpath(l.split("-")) for l in langs) + "].\n"
    body += "Definition language_directories : list str := [" + "; ".join(cstr(l) for l in language_dirs()) + "].\n"
    body += "Definition shipped_codes : list path := [" + "; ".join(cpath([c]) for c in shipped_codes()) + "].\n"
    body += "Definition shipped_styles : list (path * list str) := [" + "; ".join(
        "(%s, [%s])" % (cpath(l.split("-")), "; ".join(cstr(s) for s in styles_of(l))) for l in langs) + "].\n"
    C.write_if_changed(os.path.join(C.GEN, "RulesTree.v"), body)
    return files, langs


def ast_term(items):
    """a replacement (JSON from the harness op h_rules_tast) as a Coq term of Model/RuleAst.v (literals not numbered)"""
    return RE.ast_term(items)


AST_NOTATIONS = RE.AST_NOTATIONS


def unicode_files():
    base = os.path.join(C.RULES, "Languages")
    out = []
    for root, _, files in sorted(os.walk(base)):
        for f in sorted(files):
            if f in ("unicode.yaml", "unicode-full.yaml") and os.sep + "zz" not in root:
                out.append(os.path.join(root, f))
    return out


def gen_unicode_entries():
    """Gen/UnicodeEntries.v: per language Unicode file, (first code point of the key, the replacement as a rule AST)"""
    base = os.path.join(C.RULES, "Languages")
    paths = unicode_files()
    names = [os.path.relpath(p, base) for p in paths]
    r = C.one_session([["h_rules_tast", p] for p in paths])["res"]
    defs, total = [], 0
    for i, (nm, x) in enumerate(zip(names, r)):
        ents = x.get("ok")
        if ents is None:
            raise RuntimeError("cannot read %s: %s" % (nm, x))
        ents = [(RE.entry_codes(e), e) for e in ents if "replace" in e and "name" not in e]
        ents = [(cs[0], e) for cs, e in ents if cs]
        total += len(ents)
        defs.append("Definition uf%d : list (N * items) := [\n%s\n]." % (i, ";\n".join("(%d, %s)" % (c, ast_term(e["replace"])) for c, e in ents)))
    body = HEADER + "From MC Require Import Lib.Base Model.RuleAst.\n" + AST_NOTATIONS + "\n".join(defs) + \
        "\nDefinition unicode_entries : list (str * list (N * items)) := [" + "; ".join("(%s, uf%d)" % (cstr(nm), i) for i, nm in enumerate(names)) + "].\n"
    C.write_if_changed(os.path.join(C.GEN, "UnicodeEntries.v"), body)
    return total


ODD_LANGS = ["xx", "xx-yy", "en-us", "en-GB", "es-mx", "es-419", "zh-cn", "fr", "de-ch", "sv-fi", "vi-vn", "EN", "id-id"]
ODD_STYLES = ["Foo", "clearspeak"]
ODD_CODES = ["Braille9", "nemeth", "UEB2"]


def rel(p):
    r = os.path.relpath(p, C.RULES) if p else ""
    return r.split(os.sep) if p and not r.startswith("..") else ["<outside>", p]


def tie_sessions():
    langs = shipped_languages() + ODD_LANGS
    styles = ["ClearSpeak", "SimpleSpeak"] + ODD_STYLES
    codes = shipped_codes() + ODD_CODES
    sessions, meta = [], []
    for l in langs:
        for s in styles:
            sessions.append({"id": len(sessions), "ops": [["set_rules_dir", C.RULES], ["set_preference", "SpeechStyle", s], ["set_preference", "Language", l], ["v_prefs_files"]]})
            meta.append(("speech", l, s))
    for c in codes:
        sessions.append({"id": len(sessions), "ops": [["set_rules_dir", C.RULES], ["set_preference", "BrailleCode", c], ["v_prefs_files"]]})
        meta.append(("braille", c, None))
    # style changed after the language
    for l in shipped_languages()[:4] + ["xx"]:
        sessions.append({"id": len(sessions), "ops": [["set_rules_dir", C.RULES], ["set_preference", "Language", l], ["set_preference", "SpeechStyle", "SimpleSpeak"], ["v_prefs_files"]]})
        meta.append(("speech", l, "SimpleSpeak"))
    return sessions, meta


SPEECH_SLOTS = ["intent", "overview", "navigation", "speech_unicode", "speech_unicode_full", "speech_defs", "speech"]
BRAILLE_SLOTS = ["braille", "braille_unicode", "braille_unicode_full", "braille_defs"]


def generate(res):
    ok, log = C.build_harness()
    if not ok:
        raise RuntimeError("harness build failed: " + log)
    gen_tree()
    n_entries = gen_unicode_entries()
    sessions, meta = tie_sessions()
    out = C.run_harness(sessions)
    items = []
    for (kind, name, style), r in zip(meta, out):
        rr = r.get("res") or []
        if len(rr) < 3:
            continue
        failed = any("err" in x for x in rr[1:-1])
        files = dict(rr[-1]["ok"]) if "ok" in rr[-1] else {}
        slots = SPEECH_SLOTS if kind == "speech" else BRAILLE_SLOTS
        obs = "None" if failed else "Some [%s]" % "; ".join(cpath(rel(files.get(s, ""))) for s in slots)
        if kind == "speech":
            items.append("(true, %s, %s, %s)" % (cstr(name), cstr(style), obs))
        else:
            items.append("(false, %s, [], %s)" % (cstr(name), obs))
    body = HEADER + "From MC Require Import Lib.Base Model.FindFile.\n" \
        "Definition locate_obs : list (bool * str * str * option (list path)) := " + clist(items) + ".\n"
    C.write_if_changed(os.path.join(C.GEN, "C15Obs.v"), body)
    if res is not None:
        res.extra["tie_cases"] = len(items)
        res.extra["unicode_entries_checked"] = n_entries
    return meta, out


# ------------------------------------------------------------------------------------------------------------------
# oracle: every shipped configuration x a corpus over every element kind and every rule tag
# ------------------------------------------------------------------------------------------------------------------
ELEMENTS = [
    "<mrow><ms>text</ms><mo>+</mo><mspace width='1em'/><mi>x</mi></mrow>",
    "<mrow><merror><mtext>bad</mtext></merror><mo>+</mo><mphantom><mi>x</mi></mphantom><mi>y</mi></mrow>",
    "<mtable><mlabeledtr><mtd><mtext>(1)</mtext></mtd><mtd><mi>x</mi><mo>=</mo><mn>1</mn></mtd></mlabeledtr><mtr><mtd><mi>y</mi><mo>=</mo><mn>2</mn></mtd></mtr></mtable>",
    "<maction actiontype='toggle'><mi>a</mi><mi>b</mi></maction>",
    "<semantics><mrow><mi>x</mi><mo>+</mo><mn>1</mn></mrow><annotation encoding='TeX'>x+1</annotation></semantics>",
    "<mrow><menclose notation='longdiv'><mn>12</mn></menclose><mo>+</mo><menclose notation='circle updiagonalstrike'><mi>x</mi></menclose><mo>+</mo><menclose notation='top bottom'><mi>y</mi></menclose></mrow>",
    "<mrow><mover><mi>x</mi><mo>^</mo></mover><mo>+</mo><munder><mi>y</mi><mo>_</mo></munder><mo>+</mo><mover accent='true'><mrow><mi>A</mi><mi>B</mi></mrow><mo>&#x2194;</mo></mover></mrow>",
    "<mrow><mo>|</mo><mtable><mtr><mtd><mi>a</mi></mtd><mtd><mi>b</mi></mtd></mtr><mtr><mtd><mi>c</mi></mtd><mtd><mi>d</mi></mtd></mtr></mtable><mo>|</mo></mrow>",
    "<mtable><mtr><mtd><mi>x</mi><mo>+</mo><mi>y</mi></mtd><mtd><mo>=</mo></mtd><mtd><mn>1</mn></mtd></mtr><mtr><mtd><mi>x</mi><mo>-</mo><mi>y</mi></mtd><mtd><mo>=</mo></mtd><mtd><mn>0</mn></mtd></mtr></mtable>",
    "<mrow><mn>2</mn><msub><mi>H</mi><mn>2</mn></msub><mo>+</mo><msub><mi>O</mi><mn>2</mn></msub><mo>&#x2192;</mo><mn>2</mn><msub><mi>H</mi><mn>2</mn></msub><mi>O</mi></mrow>",
    "<mrow><msubsup><mi>SO</mi><mn>4</mn><mrow><mn>2</mn><mo>-</mo></mrow></msubsup><mo>+</mo><mmultiscripts><mi>U</mi><mprescripts/><mn>92</mn><mn>238</mn></mmultiscripts></mrow>",
    "<mrow><mi>Na</mi><msub><mi>Cl</mi><mrow><mo>(</mo><mi>aq</mi><mo>)</mo></mrow></msub></mrow>",
    "<mrow><mn>5</mn><mi intent=':unit'>km</mi><mo>+</mo><mn>3</mn><mi mathvariant='normal' intent=':unit'>m</mi></mrow>",
    "<mrow><mi>x</mi><mo>&#x2208;</mo><mo>(</mo><mn>0</mn><mo>,</mo><mn>1</mn><mo>]</mo><mo>&#x222A;</mo><mo>[</mo><mn>2</mn><mo>,</mo><mn>3</mn><mo>)</mo></mrow>",
    "<mrow><mo>(</mo><mfrac linethickness='0'><mi>n</mi><mi>k</mi></mfrac><mo>)</mo><mo>+</mo><mo>{</mo><mi>x</mi><mo>|</mo><mi>x</mi><mo>&gt;</mo><mn>0</mn><mo>}</mo></mrow>",
    "<mrow><msup><mi>f</mi><mrow><mo>-</mo><mn>1</mn></mrow></msup><mo>(</mo><mi>x</mi><mo>)</mo><mo>+</mo><msub><mi>log</mi><mn>2</mn></msub><mi>x</mi><mo>+</mo><msup><mi>sin</mi><mn>2</mn></msup><mi>x</mi></mrow>",
    "<mrow><mo>&#x2225;</mo><mi>v</mi><mo>&#x2225;</mo><mo>+</mo><msup><mi>A</mi><mi>T</mi></msup><mo>+</mo><mo>&#x2207;</mo><mo>&#xD7;</mo><mi>F</mi><mo>+</mo><mo>&#x2207;</mo><mo>&#x22C5;</mo><mi>F</mi></mrow>",
    "<mrow><mover><mrow><mi>A</mi><mi>B</mi></mrow><mo>&#xAF;</mo></mover><mo>&#x2245;</mo><mover><mrow><mi>C</mi><mi>D</mi></mrow><mo>&#x2192;</mo></mover><mo>,</mo><mi>m</mi><mo>&#x2220;</mo><mi>A</mi><mi>B</mi><mi>C</mi><mo>=</mo><msup><mn>90</mn><mo>&#xB0;</mo></msup></mrow>",
    "<mrow><msub><mrow><mi>f</mi><mo>(</mo><mi>x</mi><mo>)</mo><mo>|</mo></mrow><mrow><mi>x</mi><mo>=</mo><mn>1</mn></mrow></msub><mo>+</mo><mfrac><mrow><mi>d</mi><mi>y</mi></mrow><mrow><mi>d</mi><mi>x</mi></mrow></mfrac></mrow>",
    "<mrow><mi>&#x211D;</mi><mo>&#x2282;</mo><mi>&#x2102;</mi><mo>,</mo><msup><mi>&#x211D;</mi><mn>2</mn></msup><mo>,</mo><mn>3</mn><mo>&#x2212;</mo><mo>-</mo><mn>2</mn><mo>,</mo><mo>+</mo><mn>4</mn></mrow>",
    "<mrow><mi>P</mi><mo>(</mo><mn>1</mn><mo>,</mo><mn>2</mn><mo>)</mo><mo>,</mo><mover><mi>x</mi><mo>~</mo></mover><mo>,</mo><mn>3</mn><mo>&#xD7;</mo><mn>4</mn><mtext>&#xA0;matrix</mtext></mrow>",
]
NOT_INTENT_TAGS = {"!*", "*", "none", "math", "intent-wrapper"}


def rule_tags():
    import re
    tags = set()
    for root, _, fs in os.walk(C.RULES):
        for f in fs:
            if f.endswith(".yaml") and "unicode" not in f and f not in ("prefs.yaml", "definitions.yaml"):
                for line in open(os.path.join(root, f), encoding="utf-8", errors="replace"):
                    m = re.match(r"\s*-?\s*tag:\s*(.*?)\s*(#.*)?$", line)
                    if m:
                        for x in re.split(r"[,\[\]\s]+", m.group(1).strip()):
                            x = x.strip("\"'")
                            if x:
                                tags.add(x)
    return sorted(tags)


def english_arities():
    """for every intent tag: the numbers of children the English rules for it are written for -- the `count(*)=N`
    tests of their match conditions, else the largest child index `*[k]` they use"""
    import re
    counts, maxidx = {}, {}
    en = os.path.join(C.RULES, "Languages", "en")
    files = [os.path.join(en, f) for f in os.listdir(en) if f.endswith("_Rules.yaml")] + \
            [os.path.join(en, "SharedRules", f) for f in os.listdir(os.path.join(en, "SharedRules"))]
    for p in files:
        blocks = re.split(r"(?m)^-\s*\n?\s*name:", open(p, encoding="utf-8").read())
        for blk in blocks[1:]:
            m = re.search(r"(?m)^\s*tag:\s*(.*?)\s*(#.*)?$", blk)
            if not m:
                continue
            tags = [x.strip("\"'") for x in re.split(r"[,\[\]\s]+", m.group(1)) if x.strip("\"'")]
            mm = re.search(r"(?m)^\s*match:(.*(?:\n\s+-.*)*)", blk)
            cs = [int(x) for x in re.findall(r"count\(\*\)\s*=\s*(\d)", mm.group(1))] if mm else []
            ks = [int(x) for x in re.findall(r"\*\[(\d)\]", blk)]
            for tg in tags:
                counts.setdefault(tg, set()).update(cs)
                if ks:
                    maxidx[tg] = max(maxidx.get(tg, 0), max(ks))
    out = {}
    for tg in set(counts) | set(maxidx):
        out[tg] = sorted(counts[tg]) if counts.get(tg) else ([maxidx[tg]] if maxidx.get(tg) else [1])
    return out


def intent_corpus():
    """one expression per intent tag of the rule files and per number of children the English rules expect for it"""
    out = []
    kids = [("a", "<mi arg='a'>x</mi>"), ("b", "<mn arg='b'>2</mn>"), ("c", "<mi arg='c'>y</mi>"), ("d", "<mi arg='d'>z</mi>"), ("e", "<mn arg='e'>5</mn>")]
    ar = english_arities()
    elements = {"mi", "mn", "mo", "mtext", "ms", "mrow", "mfrac", "msqrt", "mroot", "mstyle", "msub", "msup", "msubsup", "munder", "mover", "munderover",
                "mmultiscripts", "mtable", "mtr", "mlabeledtr", "mtd", "menclose", "semantics", "math"}
    for t in rule_tags():
        if t in NOT_INTENT_TAGS or t in elements:
            continue
        for n in ar.get(t, [1, 2]):
            if 1 <= n <= 5:
                out.append("<mrow intent='%s(%s)'>%s</mrow>" % (t, ",".join("$" + a for a, _ in kids[:n]), "<mo>&#x2063;</mo>".join(x for _, x in kids[:n])))
    return out


NAV_STEPS = [["do_navigate_command", "ZoomIn"], ["do_navigate_command", "MoveNext"], ["do_navigate_command", "ReadCurrent"],
             ["do_navigate_command", "ZoomOutAll"], ["do_navigate_command", "DescribeCurrent"]]


def configurations(res):
    tier = res.tier if res else "quick"
    rng = random.Random((res.seed if res else 1) * 131 + 15)
    langs = [l for l in shipped_languages() if not l.startswith("zz")]
    speech = []
    for l in langs:
        for s in ["ClearSpeak", "SimpleSpeak"]:
            for v in ["Terse", "Medium", "Verbose"]:
                speech.append((l, s, v))
    codes = shipped_codes()
    if tier == "quick":
        # every language and style once with a seeded verbosity, every code
        speech = [(l, s, rng.choice(["Terse", "Medium", "Verbose"])) for l in langs for s in ["ClearSpeak", "SimpleSpeak"]]
    return speech, codes


def block(kind, body):
    if kind == "braille":
        return [["set_mathml", X.math(body)], ["get_braille", ""], ["do_navigate_command", "ZoomIn"], ["get_navigation_braille"]]
    return [["set_mathml", X.math(body)], ["get_spoken_text"], ["get_overview_text"]] + NAV_STEPS


def prefs_of(kind, cfg):
    if kind == "braille":
        return [["set_rules_dir", C.RULES], ["set_preference", "BrailleCode", cfg]]
    if kind == "name":
        return [["set_rules_dir", C.RULES], ["set_preference", "Language", cfg]]
    l, s, v = cfg
    return [["set_rules_dir", C.RULES], ["set_preference", "Language", l], ["set_preference", "SpeechStyle", s], ["set_preference", "Verbosity", v]]


def verdicts(kind, cfg, bodies):
    """per expression: None (fine) or (op, result) of the first call that fails (error, panic, crash, empty output)"""
    pre = prefs_of(kind, cfg)
    ops = list(pre)
    for b in bodies:
        ops += block(kind, b)
    return pre, ops


def judge(kind, pre, ops, rr, bodies):
    n = len(block(kind, bodies[0]))
    out = []
    for op, x in zip(pre, rr[:len(pre)]):
        if "ok" not in x:
            return [(op, x)] * len(bodies)
    for i, b in enumerate(bodies):
        bad = None
        for op, x in zip(ops[len(pre) + i * n:len(pre) + (i + 1) * n], rr[len(pre) + i * n:len(pre) + (i + 1) * n]):
            empty = "ok" in x and op[0] in ("get_spoken_text", "get_braille", "get_overview_text") and isinstance(x["ok"], str) and x["ok"].strip() == ""
            if "ok" not in x or empty:
                bad = (op, x if not empty else {"empty": True})
                break
        out.append(bad)
    return out


def oracle(res):
    speech, codes = configurations(res)
    tier = res.tier if res else "quick"
    rng = random.Random((res.seed if res else 1) * 733 + 15)
    plain = list(X.FIXED) + [e for e in ELEMENTS if "<maction" not in e]
    synthetic = intent_corpus() + [X.gen(rng, 3, kinds=X.MORE_KINDS) for _ in range(20 if tier == "quick" else 200)]
    if tier == "quick":
        rng.shuffle(synthetic)
        synthetic = synthetic[:70]
    bodies = plain + synthetic
    configs = [("speech", c) for c in speech] + [("braille", c) for c in codes] + [("name", l) for l in ODD_LANGS]
    # the references the synthetic expressions are judged against: English in the same style and verbosity; Nemeth and UEB
    refs = sorted(set(("speech", ("en", s, v)) for _, s, v in speech)) + [("braille", "Nemeth"), ("braille", "UEB")]
    todo = configs + [r for r in refs if r not in configs]
    sessions, built = [], []
    for kind, cfg in todo:
        use = bodies if kind != "name" else plain[:8]
        pre, ops = verdicts(kind, cfg, use)
        sessions.append({"id": len(sessions), "ops": ops})
        built.append((kind, cfg, pre, ops, use))
    out = C.run_harness_isolating(sessions, timeout=3000)
    table = {}
    for (kind, cfg, pre, ops, use), r in zip(built, out):
        rr = r.get("res") or []
        if len(rr) != len(ops):
            # the process died: find the expression that kills it
            per = C.run_harness_isolating([{"id": i, "ops": pre + block(kind, b)} for i, b in enumerate(use)], timeout=3000)
            v = []
            for b, one in zip(use, per):
                r1 = one.get("res") or []
                if len(r1) != len(pre) + len(block(kind, b)):
                    v.append((["set_mathml", X.math(b)], {"crash": one.get("crash", "timeout")}))
                else:
                    v.append(judge(kind, pre, pre + block(kind, b), r1, [b])[0])
            table[(kind, str(cfg))] = v
        else:
            table[(kind, str(cfg))] = judge(kind, pre, ops, rr, use)
    found = 0
    skipped = 0
    for kind, cfg in configs:
        v = table[(kind, str(cfg))]
        use = bodies if kind != "name" else plain[:8]
        res.add_case("%s %s" % (kind, cfg), True, "%s %s" % (kind, cfg if isinstance(cfg, str) else "/".join(cfg)))
        res.evaluations += len(use) - 1            # one evaluation per configuration and expression
        for i, (b, bad) in enumerate(zip(use, v)):
            if bad is None:
                continue
            op, x = bad
            fatal = "panic" in x or "crash" in x
            if i >= len(plain) and not fatal:
                # a synthetic expression: judged against the reference configuration(s)
                if kind == "speech":
                    ref_bad = table[("speech", str(("en", cfg[1], cfg[2])))][i] is not None
                else:
                    ref_bad = table[("braille", "Nemeth")][i] is not None or table[("braille", "UEB")][i] is not None
                if ref_bad:
                    skipped += 1
                    continue
            if kind == "name" and cfg.split("-")[0] in empty_language_dirs() and KF_ZH in {k["id"] for k in C.known_findings("C15")}:
                res.known("%s: Language=%s" % (KF_ZH, cfg))
                break
            found += 1
            what = ("panic " + x["panic"][:150]) if "panic" in x else ("the process dies (%s)" % x["crash"]) if "crash" in x else \
                ("error " + x.get("err", "")[-300:].replace("\n", " | ")) if "err" in x else "empty result"
            res.violation("%s %s: %s gives %s (expression %s)" % (kind, cfg, " ".join(str(a) for a in op[:2])[:60], what, b[:200]),
                          {"kind": "config", "config": [kind, cfg], "expr": b, "op": op})
            break
        if found >= 5:
            break
    res.extra["configurations"] = {"speech": len(speech), "braille": len(codes), "names": len(ODD_LANGS), "plain_expressions": len(plain),
                                   "synthetic_expressions": len(synthetic), "synthetic_rejected_by_the_reference_too": skipped}
    return found


KF_ZH = "language-directory-without-rules"
KF_HYPHEN = "hyphenated-braille-code-not-selectable"


def empty_language_dirs():
    base = os.path.join(C.RULES, "Languages")
    return [l for l in language_dirs() if not any(f.endswith(".yaml") for f in os.listdir(os.path.join(base, l)))]


def known_witnesses(res):
    kf = {k["id"] for k in C.known_findings("C15")}
    for l in empty_language_dirs():
        r = C.one_session([["set_preference", "Language", l]])["res"][0]
        if "err" in r:
            if KF_ZH in kf:
                res.known("%s: set_preference(Language, %s) fails: %s" % (KF_ZH, l, r["err"].strip()[:100]))
            else:
                res.violation("set_preference(Language, %s) fails although Rules/Languages/%s ships: %s" % (l, l, r["err"][:200]),
                              {"kind": "select", "prefs": [["set_preference", "Language", l]]})
    for c in shipped_codes():
        if "-" not in c:
            continue
        r = C.one_session([["set_preference", "BrailleCode", c], ["v_prefs_files"]])["res"]
        files = dict(r[1].get("ok") or [])
        own = os.path.join(C.RULES, "Braille", c) + os.sep
        if "ok" in r[0] and not files.get("braille", "").startswith(own):
            if KF_HYPHEN in kf:
                res.known("%s: BrailleCode=%s is served from %s" % (KF_HYPHEN, c, os.path.relpath(os.path.dirname(files.get("braille", "")), C.RULES)))
            else:
                res.violation("BrailleCode=%s is served from %s, not from its own directory" % (c, files.get("braille")),
                              {"kind": "select", "prefs": [["set_preference", "BrailleCode", c]]})


def py_speaks(items):
    """the analysis of Model/RuleAst.v speaks_items, in python, for the search only"""
    def item(x):
        k = x["k"]
        if k == "T":
            return x["ne"]
        if k in ("X", "L"):
            return True
        if k == "S":
            return x["cmd"] in ("spell", "pronounce") or lst(x["body"])
        if k in ("N", "W"):
            return lst(x["body"])
        if k == "?":
            return entries(x["entries"])
        return False

    def part(p):
        return False if p is None else lst(p["r"]) if "r" in p else entries(p["t"])

    def entries(es):
        if not es:
            return False
        e = es[0]
        return (part(e["then"]) if e["cond"] else True) and (entries(es[1:]) if e["else"] is None else part(e["else"]))

    def lst(l):
        return any(item(x) for x in l)
    return lst(items)


def may_be_silent(c):
    return c in (0x20, 0x2C, 0xA0) or 0x2000 <= c <= 0x200F or 0x2028 <= c <= 0x202F or 0x205F <= c <= 0x2064 or 0xE000 <= c <= 0xF8FF


def silent_search(res):
    """when the Unicode obligation breaks: which character of which language can be silenced, shown on the library"""
    base = os.path.join(C.RULES, "Languages")
    found = 0
    for lang in [l for l in shipped_languages() if not l.startswith("zz")]:
        d = os.path.join(base, *lang.split("-"))
        for f in ("unicode.yaml", "unicode-full.yaml"):
            p = os.path.join(d, f)
            if not os.path.exists(p):
                continue
            ents = C.one_session([["h_rules_tast", p]])["res"][0].get("ok") or []
            bad = [chr(RE.entry_codes(e)[0]) for e in ents if "replace" in e and "name" not in e and RE.entry_codes(e)
                   and not may_be_silent(RE.entry_codes(e)[0]) and not py_speaks(e["replace"])]
            for k in bad[:20]:
                ch = k[0]
                for style in ("ClearSpeak", "SimpleSpeak"):
                    for verb in ("Terse", "Medium", "Verbose"):
                        pre = [["set_preference", "Language", lang], ["set_preference", "SpeechStyle", style], ["set_preference", "Verbosity", verb]]
                        r = C.one_session(pre + [["set_mathml", "<math><mi>x</mi><mo>&#x%X;</mo><mi>y</mi></math>" % ord(ch)], ["get_spoken_text"],
                                                 ["set_mathml", "<math><mi>x</mi><mo>&#x2063;</mo><mi>y</mi></math>"], ["get_spoken_text"]])["res"]
                        a, b = r[-3].get("ok"), r[-1].get("ok")
                        if a is not None and b is not None and "".join(a.split()).replace(",", "") == "".join(b.split()).replace(",", ""):
                            found += 1
                            res.violation("%s/%s/%s: the character U+%04X (%s of %s) is not spoken: 'x %s y' is %r" % (lang, style, verb, ord(ch), f, lang, ch, a),
                                          {"kind": "config", "config": ["speech", [lang, style, verb]], "expr": "<mrow><mi>x</mi><mo>&#x%X;</mo><mi>y</mi></mrow>" % ord(ch),
                                           "op": ["get_spoken_text"], "silent_character": "U+%04X" % ord(ch)})
                            break
                    else:
                        continue
                    break
                if found >= 3:
                    return found
    return found


def literals_of(ast):
    out = set()
    if isinstance(ast, list):
        for x in ast:
            out |= literals_of(x)
    elif isinstance(ast, dict):
        if ast.get("k") == "T" and ast.get("ne"):
            out.add(ast.get("text", "").strip("\uF8FD\uF8FE "))
        for v in ast.values():
            if isinstance(v, (list, dict)):
                out |= literals_of(v)
    return out


def regional_oracle(res):
    """a regional variant that ships its own Unicode file (it includes the language's file and redefines some characters):
    the regional definitions are the ones in force.  For every redefined character whose regional words differ from the
    language's: the speech of `x c y` under the region differs from the speech under the bare language in at least one
    style / verbosity"""
    base = os.path.join(C.RULES, "Languages")
    nv = 0
    for lang in sorted(os.listdir(base)):
        for region in sorted(os.listdir(os.path.join(base, lang))) if os.path.isdir(os.path.join(base, lang)) else []:
            rfile = os.path.join(base, lang, region, "unicode.yaml")
            if lang == "zz" or region == "SharedRules" or not os.path.exists(rfile) or not os.path.exists(os.path.join(base, lang, "unicode.yaml")):
                continue
            own = {}
            for e in RE.dump(rfile):
                if "replace" in e and "name" not in e:
                    for c in RE.entry_codes(e):
                        own[c] = e["replace"]
            parent = RE.load_unicode(os.path.join(base, lang, "unicode.yaml"))
            chars = [c for c in sorted(own) if c in parent and literals_of(own[c]) - literals_of(parent[c])]
            cfgs = [(st, v) for st in ("ClearSpeak", "SimpleSpeak") for v in ("Terse", "Medium", "Verbose")]
            sessions = []
            for tag in (lang, "%s-%s" % (lang, region)):
                ops = [["set_rules_dir", C.RULES], ["set_preference", "Language", tag]]
                for st, v in cfgs:
                    ops += [["set_preference", "SpeechStyle", st], ["set_preference", "Verbosity", v]]
                    for c in chars:
                        ops += [["set_mathml", "<math><mi>x</mi><mo>&#x%X;</mo><mi>y</mi></math>" % c], ["get_spoken_text"]]
                sessions.append({"id": len(sessions), "ops": ops})
            # ... also when the language is changed inside a session: language -> region -> language and the other way round
            speak = []
            for c in chars:
                speak += [["set_mathml", "<math><mi>x</mi><mo>&#x%X;</mo><mi>y</mi></math>" % c], ["get_spoken_text"]]
            tags = (lang, "%s-%s" % (lang, region))
            for first in (0, 1):
                ops = [["set_rules_dir", C.RULES], ["set_preference", "SpeechStyle", cfgs[0][0]], ["set_preference", "Verbosity", cfgs[0][1]]]
                for t in (first, 1 - first, first):
                    ops += [["set_preference", "Language", tags[t]]] + speak
                sessions.append({"id": len(sessions), "ops": ops})
            out = C.run_harness(sessions)
            switched, out = out[2:], out[:2]
            if len(out) != 2 or any(len(o.get("res") or []) != 2 + len(cfgs) * (2 + 2 * len(chars)) for o in out):
                continue
            fresh = [[o["res"][2 + 2 + 2 * j + 1] for j in range(len(chars))] for o in out]       # the first configuration's block
            for first, sw in zip((0, 1), switched):
                rs = sw.get("res") or []
                if len(rs) != 3 + 3 * (1 + 2 * len(chars)):
                    continue
                for b, t in enumerate((first, 1 - first, first)):
                    at = 3 + b * (1 + 2 * len(chars)) + 1
                    got = [rs[at + 2 * j + 1] for j in range(len(chars))]
                    res.add_case(("regional-switch", lang, region, first, b), nontrivial=b > 0)
                    bad = [j for j in range(len(chars)) if got[j] != fresh[t][j]]
                    if bad:
                        c = chars[bad[0]]
                        res.violation("Language changed to %s inside a session (%s): x U+%04X y is spoken %r, a session that only ever had %s says %r"
                                      % (tags[t], " -> ".join(tags[k] for k in (first, 1 - first, first)[:b + 1]), c, got[bad[0]].get("ok", got[bad[0]]), tags[t],
                                         fresh[t][bad[0]].get("ok", fresh[t][bad[0]])),
                                      {"kind": "switch", "ops": sessions[2 + first]["ops"][:at + 2 * bad[0] + 2], "language": tags[t],
                                       "fresh_ops": [["set_preference", "Language", tags[t]], ["set_preference", "SpeechStyle", cfgs[0][0]], ["set_preference", "Verbosity", cfgs[0][1]],
                                                     ["set_mathml", "<math><mi>x</mi><mo>&#x%X;</mo><mi>y</mi></math>" % c], ["get_spoken_text"]]})
                        nv += 1
                        break
                if nv >= 3:
                    return nv
            for j, c in enumerate(chars):
                same = True
                for k in range(len(cfgs)):
                    i = 2 + k * (2 + 2 * len(chars)) + 2 + 2 * j + 1
                    if out[0]["res"][i] != out[1]["res"][i]:
                        same = False
                res.add_case(("regional", lang, region, c), nontrivial=True)
                if same:
                    new = sorted(literals_of(own[c]) - literals_of(parent[c]))
                    res.violation("%s-%s redefines U+%04X (words %r) in its own Unicode file, but under every style and verbosity the speech is the same as for %s: the regional definition is not in force"
                                  % (lang, region, c, new[:3], lang),
                                  {"kind": "config", "config": ["speech", ["%s-%s" % (lang, region), "ClearSpeak", "Medium"]], "expr": "<mrow><mi>x</mi><mo>&#x%X;</mo><mi>y</mi></mrow>" % c,
                                   "op": ["get_spoken_text"], "regional_words": new})
                    nv += 1
                    if nv >= 3:
                        return nv
    return nv


def run(res):
    res.rule = ("every shipped language / region (zz test fixtures excluded) x {ClearSpeak, SimpleSpeak} x {Terse, Medium, Verbose} (quick: one seeded verbosity per "
                "language and style), every shipped braille code, 13 regional / unknown / oddly written language names; corpus: 25 textbook expressions, 20 "
                "expressions over the remaining element kinds, chemistry, units, intervals, geometry, calculus, one synthetic expression per intent tag of the rule files "
                "and per number of children the English rules expect for it, seeded generator expressions; per expression: set_mathml, speech, overview, five "
                "navigation steps / braille, navigation braille; plain expressions must work outright, synthetic ones wherever the reference configuration "
                "(English in the same style and verbosity; Nemeth and UEB) accepts them")
    generate(res)

    def on_broken(log):
        return (silent_search(res) if "UnicodeEntries" in log else 0) + oracle(res) + regional_oracle(res) > 0
    proved = C.check_proofs(res, "C15", ["Props/C15.vo", "Tie/C15Tie.vo"], "Props/C15.v", search=on_broken)
    known_witnesses(res)
    if proved:
        oracle(res)
        regional_oracle(res)
    res.trusted += ["hook prefs::verif::files (the rule files the preference manager has located)",
                    "harness h_rules_tast: the dump of every Unicode replacement as a rule AST with the library's YAML parser crate (the analysis itself is Coq's speaks_items, "
                    "proved sound in Proofs/RuleAstP.v; computed items -- x, spell, pronounce, translate -- are taken to speak)",
                    "python listing of /repo/Rules (os.walk) and the split of reported paths into components"]
    res.assumptions += ["what a located rule file does when its rules fire (xpath evaluation, rule matching) is the library's and is decided by the oracle over the corpus, not proved",
                        "the Languages/zz and zz/aa test fixtures are excluded from the oracle (they are deliberately incomplete); they are part of the file-location tie",
                        "zip archives are not modelled: the shipped tree has none (generated obligation no_zip)",
                        "a synthetic intent expression that the English rules reject as well is not judged (wrong number of children for that intent)"]


def replay(path):
    rep = json.load(open(path, encoding="utf-8"))
    if rep.get("kind") == "switch":
        C.build_harness()
        a = C.one_session(rep["ops"][1:])["res"][-1]
        b = C.one_session(rep["fresh_ops"])["res"][-1]
        print("after the switch:", a, "\nfresh session:   ", b)
        return 1 if a != b else 0
    ok, log = C.build_harness()
    if not ok:
        print("harness build failed", log)
        return 2
    if rep.get("kind") == "config":
        kind, cfg = rep["config"]
        cfg = tuple(cfg) if isinstance(cfg, list) else cfg
        pre = prefs_of(kind, cfg)
        ops = pre + block(kind, rep["expr"])
        r = C.run_harness_isolating([{"id": 0, "ops": ops}])[0]
        rr = r.get("res") or []
        if len(rr) != len(ops):
            print("FAILS: the process dies")
            return 1
        bad = judge(kind, pre, ops, rr, [rep["expr"]])[0]
        if bad:
            print("FAILS:", bad[0][:2], str(bad[1])[:300])
            return 1
        print("the recorded configuration and expression now work")
        return 0
    if rep.get("kind") == "select":
        r = C.one_session(rep["prefs"])["res"]
        bad = [x for x in r if "ok" not in x]
        print("FAILS: " + str(bad[0])[:200] if bad else "selection works")
        return 1 if bad else 0
    print("replay names a broken obligation, not an input:", rep.get("what"))
    return 1
