"""C18 -- mathvariant maps characters to the right Unicode math letters.
Decision: Coq theorems over tables regenerated from src/canonicalize.rs (Props/C18.v) + kernel-checked
agreement of the model with the library on the whole finite domain (Tie/C18Tie.v)."""
import json
import os
import re
import sys

from . import common as C

sys.path.insert(0, C.VERIF)
from gen import c18 as G
from gen.coqfmt import HEADER, clist, cstr

OUTSIDE = [0x2F, 0x3A, 0x40, 0x5B, 0x60, 0x7B, 0x131, 0x237, 0x390, 0x3A2, 0x3AA, 0x3CA, 0x3F6, 0x2102, 0x210E,
           0x2206, 0x2208, 0xD7FF, 0xE000, 0x1D400, 0x1D455, 0x1D7CB, 0x1F600, 0x10FFFF]
EXTRA_VARIANTS = ["normal", "initial", "tailed", "looped", "stretched", "Bold", "", "bogus", "bold ", "ITALIC"]
MULTI = ["AbΓ1", "sin", "ABCDEFGHIJKLMNOPQRSTUVWXYZabcdefghijklmnopqrstuvwxyz0123456789", "xϜϝ∇∂y", "ℋello"]


def domain(table, ref_domain):
    chars = []
    for c, _, _ in table["shifts"]:
        chars.append(ord(c))
    for a, _ in table["digammas"]:
        chars.append(a)
    for c in ref_domain:
        chars.append(c)
    for c in OUTSIDE:
        chars.append(c)
    seen, out = set(), []
    for c in chars:
        if c not in seen:
            seen.add(c)
            out.append(c)
    return out


def observe(table, ref_domain):
    """Run the hook on the whole domain. Returns list of (variant|None, text, out)."""
    variants = [v for v, _ in table["variants"]]
    for v in sorted(set(G.STYLE_OF_UCD.values())):
        if v not in variants:
            variants.append(v)
    variants += EXTRA_VARIANTS
    variants.append(None)
    chars = domain(table, ref_domain)
    ops, keys = [], []
    for v in variants:
        for c in chars:
            ops.append(["v_plane1", chr(c), v])
            keys.append((v, chr(c)))
        for t in MULTI:
            ops.append(["v_plane1", t, v])
            keys.append((v, t))
    r = C.one_session(ops)
    if "res" not in r or len(r["res"]) != len(ops):
        raise RuntimeError("harness failed on C18 observations: %r" % (r,))
    obs = []
    for (v, t), x in zip(keys, r["res"]):
        if "ok" not in x:
            obs.append((v, t, None, x))
        else:
            obs.append((v, t, x["ok"], None))
    return obs


def render_obs(obs):
    items = []
    for v, t, o, _ in obs:
        if o is None:
            continue
        items.append("(%s, %s, %s)" % ("None" if v is None else "Some " + cstr(v), cstr(t), cstr(o)))
    return HEADER + "Definition observations : list (option (list N) * list N * list N) := " + clist(items, per_line=1) + ".\n"


def generate(res):
    src = C.read(os.path.join(C.REPO, "src", "canonicalize.rs"))
    try:
        table = G.parse_source(src)
        C.write_if_changed(os.path.join(C.GEN, "MathVariant.v"), G.render_mathvariant(table))
    except G.GenError as ex:
        # the source no longer has the shape the translator reads: the tie is broken; the library is still
        # observed on the reference domain so that the search can look for a concrete failing input
        table = {"variants": [], "shifts": [], "exceptions": [], "digammas": [], "span": (0, 0), "translator_error": str(ex)}
    ucd_text, ref, styles, ref_domain = G.render_ucd()
    C.write_if_changed(os.path.join(C.GEN, "UcdMath.v"), ucd_text)
    ok, log = C.build_harness()
    if not ok:
        raise RuntimeError("harness build failed: " + log)
    obs = observe(table, ref_domain)
    C.write_if_changed(os.path.join(C.GEN, "C18Obs.v"), render_obs(obs))
    if res is not None:
        res.extra["gen_sources"] = [{"file": "src/canonicalize.rs", "lines": list(table["span"]),
                                     "sha256": C.sha256_text("\n".join(src.splitlines()[table["span"][0] - 1:table["span"][1]]))}]
        res.extra["table_sizes"] = {"variants": len(table["variants"]), "shift_amounts": len(table["shifts"]),
                                    "exceptions": len(table["exceptions"]), "ucd_pairs": len(ref)}
    return table, ref, styles, ref_domain, obs


# ---- the property oracle in python (used only to SEARCH for a concrete failing input; the decision is Coq's) ----
UPRIGHT = {"bold-italic": "bold", "sans-serif-italic": "sans-serif", "sans-serif-bold-italic": "bold-sans-serif"}


def oracle_char(ref, styles, sty, c, r, assigned):
    """None if (sty, c) -> r is acceptable by the property, else a reason string."""
    if sty not in styles:
        return None if r == c else "unknown or absent variant must leave the character unchanged"
    u = ref.get((sty, c))
    if u is not None:
        exp = c if (sty == "italic" and G.is_latin(c)) else u
        return None if r == exp else "Unicode assigns U+%04X to (%s, U+%04X)" % (exp, sty, c)
    if r == c:
        return None
    if G.is_greekish(c) and sty in ("bold-script", "bold-fraktur") and ref.get(("bold", c)) == r:
        return None
    if G.is_digit(c) and sty in UPRIGHT and ref.get((UPRIGHT[sty], c)) == r:
        return None
    if c in (0x3DC, 0x3DD) and sty in ("bold-script", "bold-fraktur") and ref.get(("bold", c)) == r:
        return None
    return "Unicode has no character for (%s, U+%04X) and U+%04X is not a documented fall-back" % (sty, c, r)


def search(res, ref, styles, obs, table):
    """Look for a concrete failing input among the observations. Returns number of violations reported."""
    assigned = G.assigned_ranges()

    def is_assigned(x):
        return any(lo <= x <= hi for lo, hi in assigned)
    nviol = 0
    images = {}
    dom = set(ord(c) for c, _, _ in table["shifts"]) | set(a for a, _ in table["digammas"]) | set(b for (_, b) in ref)
    for v, t, o, err in obs:
        rep = {"kind": "plane1", "variant": v, "text": t, "observed": o}
        if o is None:
            res.violation("canonicalize_plane1 does not return on variant=%r text=%r: %r" % (v, t, err), rep)
            nviol += 1
            continue
        if len(o) != len(t):
            res.violation("plane-1 mapping changed the number of characters for variant=%r text=%r -> %r" % (v, t, o), rep)
            nviol += 1
            continue
        for ci, ri in zip(t, o):
            c, r = ord(ci), ord(ri)
            why = oracle_char(ref, styles, v, c, r, assigned)
            if why is None and r != c and not ((r < 0xD800 or 0xE000 <= r <= 0x10FFFF) and is_assigned(r)):
                why = "produced U+%04X is not an assigned Unicode scalar" % r
            if why is None and len(t) == 1 and c in dom and v in styles:
                key = (v, r)
                if key in images and images[key] != c:
                    why = "not one-to-one within style %s: U+%04X and U+%04X both map to U+%04X" % (v, images[key], c, r)
                images[key] = c
            if why:
                rep2 = dict(rep)
                rep2.update({"char": "U+%04X" % c, "got": "U+%04X" % r, "why": why,
                             "mathml": "<math><mi mathvariant='%s'>%s</mi></math>" % (v, ci)})
                res.violation("mathvariant=%r char U+%04X -> U+%04X: %s" % (v, c, r, why), rep2)
                nviol += 1
                break
        if nviol >= 5:
            break
    return nviol


def end_to_end(res, ref, styles, table):
    """The same mapping through the public API (set_mathml), one token per expression: shows the hook is what the
    pipeline uses.  Any character whose canonical text differs from the hook's output is reported in the evidence;
    a difference that breaks the property oracle is a violation."""
    sess = []
    pairs = []
    variants = [v for v, _ in table["variants"]] or list(styles)
    chars = [ord(c) for c, _, _ in table["shifts"]] or sorted(set(b for (_, b) in ref))
    step = 1 if res.tier == "thorough" else 3
    k = 0
    for v in variants:
        ops = [["set_rules_dir", C.RULES]]
        these = []
        for c in chars:
            k += 1
            if k % step:
                continue
            ops.append(["set_mathml", "<math><mrow><mi mathvariant='%s'>%s</mi><mo>=</mo><mn>1</mn></mrow></math>" % (v, chr(c))])
            these.append(c)
        sess.append({"id": v, "ops": ops})
        pairs.append((v, these))
    out = C.run_harness(sess)
    n, bad = 0, 0
    for (v, these), r in zip(pairs, out):
        rs = r.get("res", [])[1:]
        for c, x in zip(these, rs):
            n += 1
            if "ok" not in x:
                res.violation("set_mathml fails on <mi mathvariant=%r>%s</mi>: %r" % (v, chr(c), x),
                              {"kind": "set_mathml", "variant": v, "text": chr(c), "observed": x})
                bad += 1
                continue
            m = re.search(r"<m[ion][^>]*mathvariant='%s'[^>]*>([^<]*)</m[ion]>" % re.escape(v), x["ok"])
            got = m.group(1) if m else None
            if got is None or len(got) != 1:
                res.extra.setdefault("e2e_unparsed", []).append([v, chr(c), x["ok"][:200]])
                continue
            why = oracle_char(ref, styles, v, c, ord(got), None)
            if why:
                res.violation("set_mathml: mathvariant=%r char U+%04X -> U+%04X: %s" % (v, c, ord(got), why),
                              {"kind": "set_mathml", "variant": v, "text": chr(c), "observed": got, "why": why})
                bad += 1
            if bad >= 3:
                break
    res.extra["end_to_end_set_mathml_cases"] = n
    return bad


def run(res):
    res.rule = ("exhaustive: every mapped variant + unknown/absent variants x every character of the implementation's table, "
                "of the UCD reference domain and 24 outside characters, through the canonicalize_plane1 hook; "
                "non-trivial = (variant, text) pairs whose output differs from the input; plus the same through set_mathml")
    res.exhaustive = True
    table, ref, styles, ref_domain, obs = generate(res)
    for v, t, o, _ in obs:
        res.add_case((v, t), nontrivial=(o is not None and o != t),
                     sample={"variant": v, "text": t, "out": o} if (o != t and len(res.samples) < 6) else None)

    def on_broken(log):
        return search(res, ref, styles, obs, table) > 0
    if "translator_error" in table:
        res.extra["translator_error"] = table["translator_error"]
        res.obligation_names = C.pinned_theorems(os.path.join(C.COQ, "Props/C18.v"))
        res.obligations = len(res.obligation_names)
        if not on_broken(""):
            res.violation("translator gen/c18.py can no longer read src/canonicalize.rs (%s): the theorems are not re-checked against the current source" % table["translator_error"],
                          {"broken": "translator", "error": table["translator_error"]}, found_input=False)
        end_to_end(res, ref, styles, table)
        return
    proved = C.check_proofs(res, "C18", ["Props/C18.vo", "Tie/C18Tie.vo"], "Props/C18.v", search=on_broken)
    if proved:
        # proofs and tie hold: the oracle pass below is then only a consistency check of the search machinery
        n = search(res, ref, styles, obs, table)
        if n:
            res.extra["note"] = "python oracle disagrees with proved theorems -- oracle/theorem mismatch"
    end_to_end(res, ref, styles, table)
    res.trusted += ["python unicodedata %s as the Unicode reference (names, <font> decompositions)" % __import__("unicodedata").unidata_version,
                    "hand-written model skeleton Model/MathVariant.v (tables generated; skeleton tied by Tie/C18Tie.v on the whole finite domain)"]
    res.assumptions += ["the hook verif::canonicalize::plane1 calls the same canonicalize_plane1 the pipeline uses (checked end to end through set_mathml)"]


def replay(path):
    rep = json.load(open(path, encoding="utf-8"))
    ok, log = C.build_harness()
    if not ok:
        print("harness build failed", log)
        return 2
    ucd_text, ref, styles, ref_domain = G.render_ucd()
    if rep.get("kind") == "plane1":
        r = C.one_session([["v_plane1", rep["text"], rep["variant"]]])["res"][0]
    elif rep.get("kind") == "set_mathml":
        r = C.one_session([["set_mathml", "<math><mi mathvariant='%s'>%s</mi></math>" % (rep["variant"], rep["text"])]])["res"][0]
    else:
        print("replay names a broken obligation, not an input:", rep.get("what"))
        return 1
    print("observed now:", r, " recorded:", rep.get("observed"), rep.get("why"))
    o = r.get("ok")
    if o is None:
        return 1
    if rep.get("kind") == "set_mathml":
        m = re.search(r"mathvariant='[^']*'[^>]*>([^<]*)<", o)
        o = m.group(1) if m else ""
    for ci, ri in zip(rep["text"], o):
        if oracle_char(ref, styles, rep["variant"], ord(ci), ord(ri), None):
            print("still failing")
            return 1
    print("passes now")
    return 0
