"""C17 -- equivalent XML spellings give identical results.
Coq: theorems over the entity table / substitution regex class regenerated from the source (Props/C17.v),
kernel-checked correspondence of the substitution model with set_mathml (Tie/C17Tie.v).
Library oracle runs (support + search): named vs numeric spelling for entity names; surface variants
(prefix, whitespace, comments, PIs, MathJax classes, quoting) on an expression corpus."""
import html
import json
import os
import random
import re
import sys

from . import common as C
from . import exprs as X

sys.path.insert(0, C.VERIF)
from gen import c17 as G
from gen.coqfmt import HEADER, clist, cstr

ADVERSARIAL = [
    "q&a&b;q", "q&;q", "q&&amp;;q", "q&#x41;q", "q&#65;q", "q &nvlt; q", "q&DotDot;q", "q&nbsp;q", "q&#x;q", "q& q",
    "q&amp q", "q&AMP;lt;q", "q&InvisibleTimes;q", "q&quot;&apos;&gt;q", "q&#x26;alpha;q", "q&amp;alpha;q",
    "q&alpha;&beta;q", "q&alpha;;q", "q;&alpha;q", "q&&alpha;q", "q&alpha&beta;q", "q&frac12;q", "q&frac 12;q",
    "q&there4;q", "q&blk12;q", "q&emsp13;q", "q&sup2;q", "q&nosuch;q", "q&nosuch1;q", "q&a;&b;q", "q&ALPHA;q",
    "q&Alpha;q", "q&alpha ;q", "q& alpha;q", "q&alpha\n;q", "q  a \t b\n q", " q ", "q&#x20;&#x20;q", "q&lt;&gt;q",
    "q&LT;q", "q&GT;q", "q&QUOT;q", "q&1a;q", "q&a1;q", "q&_a;q", "q&a-b;q", "q&a.b;q", "q&amp;amp;q", "q&#38;#38;q",
    "q&ThickSpace;q", "q&nvlt;&nvgt;q", "q&fjlig;q", "q&NotEqualTilde;q", "q&zwnj;q", "q&lt;q&amp;q", "&alpha;",
    "q&#x1D400;q", "q&#x10FFFF;q", "q&Aopf;q", "q&b.alpha;q",
    "q\r\nq", "\r q \r", "q\rq", "\r\n  q&alpha;\r\n", "q\t\tq", "\n\tq\n", "q \r q", "q&#x20;\rq", "q&#xD;q", "q&#xA;q", "q&#x9;q",
]


def obs_code(x):
    """library outcome of set_mathml(<math><mtext>T</mtext></math>) -> (code, text)"""
    k, p = C.outcome(x)
    if k == "ok":
        m = re.search(r"<mtext[^>]*>(.*?)</mtext>", p, re.S)
        if not m:
            return None
        t = html.unescape(m.group(1))
        return (2, t)
    if k == "err":
        m = re.match(r"No entity named '&(.*);'", p)
        if m:
            return (0, m.group(1))
        if p.startswith("Invalid MathML input"):
            return (1, "")
    return None


def tie_inputs(ents, rng, tier):
    inputs = ["q&%s;q" % k for k, _ in ents]
    inputs += ADVERSARIAL
    alphabet = ["&", ";", "a", "Z", "1", "q", " ", "&", ";", "lt", "amp", "alpha", "frac12"]
    n = 400 if tier == "quick" else 4000
    for _ in range(n):
        inputs.append("q" + "".join(rng.choice(alphabet) for _ in range(rng.randint(1, 7))) + "q")
    seen, out = set(), []
    for t in inputs:
        if t not in seen:
            seen.add(t)
            out.append(t)
    return out


def generate(res):
    ents = C.translate(res, "c17-entities", "src/entities.in", lambda: G.parse_entities(C.read(os.path.join(C.REPO, "src", "entities.in"))))
    isrc = C.read(os.path.join(C.REPO, "src", "interface.rs"))
    rx, cls = C.translate(res, "c17-regexes", "regexes of interface.rs",
                          lambda: (lambda r: (r, G.parse_entity_class(r["HTML_ENTITIES"])))(G.parse_regexes(isrc)))
    C.write_if_changed(os.path.join(C.GEN, "Entities.v"), G.render_entities(ents, rx, cls))
    ref = G.reference()
    C.write_if_changed(os.path.join(C.GEN, "RefEntities.v"), G.render_ref(ref))
    ok, log = C.build_harness()
    if not ok:
        raise RuntimeError("harness build failed: " + log)
    seed = res.seed if res else 1
    tier = res.tier if res else "quick"
    rng = random.Random(seed * 7919 + 17)
    inputs = tie_inputs(ents, rng, tier)
    r = C.one_session([["set_mathml", "<math><mtext>%s</mtext></math>" % t] for t in inputs])
    obs, skipped = [], []
    for t, x in zip(inputs, r.get("res", [])):
        oc = obs_code(x)
        if oc is None:
            skipped.append((t, x))
        else:
            obs.append((t, oc))
    items = ["(%s, (%d, %s))" % (cstr(t), c, cstr(s)) for t, (c, s) in obs]
    C.write_if_changed(os.path.join(C.GEN, "C17Obs.v"),
                       HEADER + "Definition observations : list (list N * (N * list N)) := " + clist(items) + ".\n")
    if res is not None:
        res.extra["gen_sources"] = [{"file": "src/entities.in", "sha256": C.sha256_text(C.read(os.path.join(C.REPO, "src", "entities.in")))},
                                    {"file": "src/interface.rs (regexes)", "regexes": rx}]
        res.extra["tie_cases"] = len(obs)
        res.extra["tie_unclassified"] = [[t, json.dumps(x)[:200]] for t, x in skipped[:5]]
    return ents, ref, rx, obs, skipped


# --------------------------------------------------------------------------------------------------------------
def numeric(s):
    return "".join("&#x%X;" % ord(c) for c in s)


def results_of(sessions_ops):
    """run each ops list in its own fresh session (with rules dir); returns list of normalised result tuples"""
    sess = [{"id": i, "ops": [["set_rules_dir", C.RULES]] + ops} for i, ops in enumerate(sessions_ops)]
    out = C.run_harness(sess)
    res = []
    for r in out:
        rs = r.get("res", [])[1:]
        res.append([tuple(C.norm_ids(v) if isinstance(v, str) else v for v in C.outcome(x)) for x in rs] if rs else [("crash", json.dumps(r))])
    return res


def triple(mathml):
    return [["set_mathml", mathml], ["get_spoken_text"], ["get_braille", ""]]


def entity_oracle(res, ents, ref):
    """named vs numeric spelling: for every name of the table (thorough) / every 4th name + all names with digits
    and all multi-character entities (quick)"""
    names = [k for k, _ in ents]
    table = dict(ents)
    if res.tier == "quick":
        names = [k for i, k in enumerate(names) if i % 4 == (res.seed % 4) or re.search(r"\d", k) or len(ref.get(k, "x")) > 1]
    cases = []
    for k in names:
        r = ref.get(k)
        if r is None:
            continue
        tv = re.sub(r"&#x([0-9A-Fa-f]+);", lambda m: chr(int(m.group(1), 16)), table[k])
        if tv == " " + r:      # documented deviation (theorem entities_agree): leading space before a combining mark
            r = tv
        a = "<math><mrow><mi>x</mi><mo>&%s;</mo><mi>y</mi></mrow></math>" % k
        b = "<math><mrow><mi>x</mi><mo>%s</mo><mi>y</mi></mrow></math>" % numeric(r)
        cases.append((k, a, b))
    # batch 50 names per session pair to keep process count low
    ops_a, ops_b, groups = [], [], []
    for i in range(0, len(cases), 40):
        grp = cases[i:i + 40]
        groups.append(grp)
        ops_a.append(sum((triple(a) for _, a, _ in grp), []))
        ops_b.append(sum((triple(b) for _, _, b in grp), []))
    ra, rb = results_of(ops_a), results_of(ops_b)
    nv = 0
    for grp, xa, xb in zip(groups, ra, rb):
        for j, (k, a, b) in enumerate(grp):
            ta, tb = xa[3 * j:3 * j + 3], xb[3 * j:3 * j + 3]
            res.add_case(("entity", k), nontrivial=True,
                         sample={"named": a, "numeric": b} if len(res.samples) < 3 else None)
            if ta != tb:
                # documented: leading space before a combining mark
                known = False
                if known:
                    continue
                res.violation("named entity &%s; and its numeric spelling give different results" % k,
                              {"kind": "pair", "a": a, "b": b, "result_a": ta, "result_b": tb})
                nv += 1
                if nv >= 5:
                    return nv
    return nv


def surface_variants(body, rng):
    """rewritings of <math>body</math> that differ only in XML surface form"""
    plain = "<math>%s</math>" % body
    vs = []
    for p in ("m", "mml", "M"):
        pref = re.sub(r"<(/?)([a-z]+)", lambda m: "<%s%s:%s" % (m.group(1), p, m.group(2)), plain)
        pref = pref.replace("<%s:math" % p, "<%s:math xmlns:%s='http://www.w3.org/1998/Math/MathML'" % (p, p), 1)
        vs.append(("prefix " + p, pref))
    vs.append(("xmlns", plain.replace("<math", "<math xmlns='http://www.w3.org/1998/Math/MathML'", 1)))
    ws = re.sub(r">\s*<", lambda m: ">" + rng.choice(["\n", "  ", "\t", "\r\n  "]) + "<", plain)
    vs.append(("whitespace", ws))
    pad = re.sub(r"<(m[ion]|mtext)>([^<]+)</", lambda m: "<%s>%s%s%s</" % (m.group(1), rng.choice(["\r\n  ", " ", "\n", "\t", "\r"]), m.group(2), rng.choice(["\r\n", "  ", "\n ", "\r"])), plain)
    vs.append(("whitespace padding inside tokens", pad))
    cm = re.sub(r"><", lambda m: ">" + rng.choice(["", "<!-- c -->", "<?pi x?>", "<!--a--><!--b-->"]) + "<", plain)
    vs.append(("comments/PIs", cm))
    def inside(m):
        # a comment / PI inside the text of a token (between two characters, never inside a character reference)
        units = re.findall(r"&[^;]+;|.", m.group(3), re.S)
        k = rng.randint(0, len(units)) if len(units) < 2 or rng.random() < 0.3 else rng.randint(1, len(units) - 1)
        ins = rng.choice(["<!-- c -->", "<!--a--><!--b-->", "<?pi x?>", "<!-- c --><?pi x?>"])
        out = "".join(units[:k]) + ins + "".join(units[k:])
        if len(units) > 2 and rng.random() < 0.3:
            out = out + "<!--t-->"
        return "<%s%s>%s</" % (m.group(1), m.group(2), out)
    ci = re.sub(r"<(m[ion]|mtext)((?: [^>]*)?)>([^<]+)</", inside, plain)
    vs.append(("comments/PIs inside token text", ci))
    vs.append(("doc prolog", "<?xml version='1.0'?><!-- lead -->" + plain + "<!-- trail -->"))
    mj = re.sub(r"<(m[a-z]+)(?=[ >])", lambda m: "<%s class=\"MJX-TeXAtom-ORD\"" % m.group(1) if rng.random() < 0.5 else m.group(0), plain)
    vs.append(("mathjax v2 class", mj))
    mj3 = re.sub(r"<(m[a-z]+)(?=[ >])", lambda m: "<%s class='data-mjx-texclass-ORD'" % m.group(1) if rng.random() < 0.5 else m.group(0), plain)
    vs.append(("mathjax v3 class", mj3))
    dq = re.sub(r"='([^']*)'", r'="\1"', plain)
    vs.append(("double quotes", dq))
    ch = re.sub(r"&#x([0-9A-Fa-f]+);", lambda m: "&#%d;" % int(m.group(1), 16), plain)
    vs.append(("decimal refs", ch))
    raw = re.sub(r"&#x([0-9A-Fa-f]+);", lambda m: chr(int(m.group(1), 16)) if int(m.group(1), 16) not in (0x26, 0x3C) else m.group(0), plain)
    vs.append(("raw characters", raw))
    return plain, vs


def surface_oracle(res, rng):
    bodies = [b for b in X.FIXED]
    n = 25 if res.tier == "quick" else 400
    bodies += [X.gen(rng, 3) for _ in range(n)]
    plains, variants, meta = [], [], []
    for b in bodies:
        plain, vs = surface_variants(b, rng)
        plains.append(triple(plain))
        for nm, v in vs:
            variants.append(triple(v))
            meta.append((len(plains) - 1, nm, plain, v))
    rp = results_of(plains)
    rv = results_of(variants)
    nv = 0
    for (pi, nm, plain, v), xv in zip(meta, rv):
        res.add_case(("surface", nm, plain), nontrivial=(v != plain),
                     sample={"variant": nm, "input": v[:300]} if len(res.samples) < 8 else None)
        if xv != rp[pi]:
            res.violation("surface variant (%s) of an expression gives a different result" % nm,
                          {"kind": "pair", "a": plain, "b": v, "result_a": rp[pi], "result_b": xv, "variant": nm})
            nv += 1
            if nv >= 5:
                break
    return nv


def lookalike_known(res):
    """known finding (DESIGN 10 #12): the pre-parse regexes run on the raw string, so TEXT that looks like a namespace
    declaration or a MathJax class attribute is altered.  Reported as KNOWN-FINDING when (still) present."""
    kf = {k["id"]: k for k in C.known_findings("C17")}
    probes = {
        "xmlns-lookalike-in-text": ("<math><mtext>see xmlns:foo here</mtext></math>", "see xmlns:foo here"),
        "mathjax-class-lookalike-in-text": ("<math><mtext>class=\"MJX-a\" z</mtext></math>", "class=\"MJX-a\" z"),
        "foreign-prefix-declaration": ("<math xmlns='http://www.w3.org/1998/Math/MathML' xmlns:xlink='http://www.w3.org/1999/xlink'><mtext>ok</mtext></math>", "ok"),
    }
    for kid, (inp, want) in probes.items():
        r = C.one_session([["set_mathml", inp]])["res"][0]
        oc = obs_code(r)
        got = oc[1] if oc and oc[0] == 2 else None
        res.add_case(("lookalike", kid), nontrivial=True)
        if got != want:
            if kid in kf:
                res.known("%s: input %s -> text %r" % (kid, inp, got))
            else:
                res.violation("text that merely looks like XML bookkeeping is altered: %r -> %r" % (want, got),
                              {"kind": "text", "input": inp, "expected_text": want, "observed": got})


def run(res):
    res.rule = ("tie: every entity name + adversarial + seeded random strings through set_mathml vs the Coq model (kernel-checked); "
                "oracle: named vs numeric spelling per entity name, and 10 surface rewritings (prefix, xmlns, whitespace, comments/PIs, "
                "prolog, MathJax v2/v3 classes, quoting, decimal refs, raw characters) of fixed + seeded textbook expressions, "
                "comparing canonical MathML (ids renamed), speech and braille; non-trivial = variant differs textually from the plain form")
    rng = random.Random(res.seed * 104729 + 3)
    ents, ref, rx, obs, skipped = generate(res)

    def on_broken(log):
        n = 0
        idx = C.parse_coq_nlist(log) if "Tie/C17Tie" in log else None
        if idx:
            for i in idx[:3]:
                t, oc = obs[i]
                res.extra.setdefault("tie_disagreements", []).append({"input": t, "library": oc})
        n += entity_oracle(res, ents, ref)
        n += surface_oracle(res, rng)
        # direct table search: the first table entry that disagrees with the reference
        for k, v in ents:
            r = ref.get(k)
            dec = re.sub(r"&#x([0-9A-Fa-f]+);", lambda m: chr(int(m.group(1), 16)), v)
            if r is None or (dec != r and dec != " " + r):
                inp = "<math><mtext>q&%s;q</mtext></math>" % k
                x = C.one_session([["set_mathml", inp]])["res"][0]
                res.violation("entity &%s; does not mean what the HTML5 reference says (%r vs %r)" % (k, dec, r),
                              {"kind": "entity", "input": inp, "reference": r, "table": v, "observed": C.outcome(x)})
                n += 1
                break
        return n > 0
    proved = C.check_proofs(res, "C17", ["Props/C17.vo", "Tie/C17Tie.vo"], "Props/C17.v", search=on_broken)
    if proved:
        entity_oracle(res, ents, ref)
        surface_oracle(res, rng)
    lookalike_known(res)
    if skipped:
        res.extra["tie_unclassified_count"] = len(skipped)
    res.trusted += ["python html.entities.html5 as the entity reference",
                    "sxd_document XML parser (character-reference decoding is modelled only to state what a replacement text means)",
                    "regex crate: leftmost non-overlapping match semantics of `&([CLASS]+?);` (model tied by Tie/C17Tie.v)"]
    res.assumptions += ["prefix/namespace/MathJax/whitespace/comment invariance is exercised on the library (oracle run), not proved"]


def replay(path):
    rep = json.load(open(path, encoding="utf-8"))
    ok, log = C.build_harness()
    if not ok:
        print("harness build failed", log)
        return 2
    if rep.get("kind") == "pair":
        ra, rb = results_of([triple(rep["a"]), triple(rep["b"])])
        print("a:", ra, "\nb:", rb)
        return 1 if ra != rb else 0
    if rep.get("kind") in ("text", "entity"):
        r = C.one_session([["set_mathml", rep["input"]]])["res"][0]
        print(r)
        oc = obs_code(r)
        if rep.get("kind") == "text":
            return 0 if oc and oc[1] == rep["expected_text"] else 1
        return 1
    print("replay names a broken obligation, not an input:", rep.get("what"))
    return 1
