"""C17 -- equivalent XML spellings give identical results.
Coq: theorems over the entity table / substitution regex class regenerated from the source (Props/C17.v),
kernel-checked correspondence of the substitution model with set_mathml (Tie/C17Tie.v).
Library oracle runs (support + search): named vs numeric spelling for entity names; surface variants
(prefix, whitespace, comments, PIs, MathJax classes, quoting) on an expression corpus."""
import html
import json
import os
import random
import re
import sys

from . import common as C
from . import exprs as X

sys.path.insert(0, C.VERIF)
from gen import c17 as G
from gen.coqfmt import HEADER, clist, cstr

ADVERSARIAL = [
    "q&a&b;q", "q&;q", "q&&amp;;q", "q&#x41;q", "q&#65;q", "q &nvlt; q", "q&DotDot;q", "q&nbsp;q", "q&#x;q", "q& q",
    "q&amp q", "q&AMP;lt;q", "q&InvisibleTimes;q", "q&quot;&apos;&gt;q", "q&#x26;alpha;q", "q&amp;alpha;q",
    "q&alpha;&beta;q", "q&alpha;;q", "q;&alpha;q", "q&&alpha;q", "q&alpha&beta;q", "q&frac12;q", "q&frac 12;q",
    "q&there4;q", "q&blk12;q", "q&emsp13;q", "q&sup2;q", "q&nosuch;q", "q&nosuch1;q", "q&a;&b;q", "q&ALPHA;q",
    "q&Alpha;q", "q&alpha ;q", "q& alpha;q", "q&alpha\n;q", "q  a \t b\n q", " q ", "q&#x20;&#x20;q", "q&lt;&gt;q",
    "q&LT;q", "q&GT;q", "q&QUOT;q", "q&1a;q", "q&a1;q", "q&_a;q", "q&a-b;q", "q&a.b;q", "q&amp;amp;q", "q&#38;#38;q",
    "q&ThickSpace;q", "q&nvlt;&nvgt;q", "q&fjlig;q", "q&NotEqualTilde;q", "q&zwnj;q", "q&lt;q&amp;q", "&alpha;",
    "q&#x1D400;q", "q&#x10FFFF;q", "q&Aopf;q", "q&b.alpha;q",
    "q\r\nq", "\r q \r", "q\rq", "\r\n  q&alpha;\r\n", "q\t\tq", "\n\tq\n", "q \r q", "q&#x20;\rq", "q&#xD;q", "q&#xA;q", "q&#x9;q",
]


def obs_code(x):
    """library outcome of set_mathml(<math><mtext>T</mtext></math>) -> (code, text)"""
    k, p = C.outcome(x)
    if k == "ok":
        m = re.search(r"<mtext[^>]*>(.*?)</mtext>", p, re.S)
        if not m:
            return None
        t = html.unescape(m.group(1))
        return (2, t)
    if k == "err":
        m = re.match(r"No entity named '&(.*);'", p)
        if m:
            return (0, m.group(1))
        if p.startswith("Invalid MathML input"):
            return (1, "")
    return None


def tie_inputs(ents, rng, tier):
    inputs = ["q&%s;q" % k for k, _ in ents]
    inputs += ADVERSARIAL
    # names that are in the table but for the case of some letters: not entity names
    names = set(k for k, _ in ents)
    sample = [k for k, _ in ents]
    rng.shuffle(sample)
    for k in sample[:80 if tier == "quick" else 800] + ["nbsp", "pi", "rarr", "times", "minus", "alpha", "lt", "amp"]:
        for v in (k.upper(), k.lower(), k.capitalize(), k.swapcase(), k[:-1] + k[-1].upper()):
            if v not in names:
                inputs.append("q&%s;q" % v)
    alphabet = ["&", ";", "a", "Z", "1", "q", " ", "&", ";", "lt", "amp", "alpha", "frac12"]
    n = 400 if tier == "quick" else 4000
    for _ in range(n):
        inputs.append("q" + "".join(rng.choice(alphabet) for _ in range(rng.randint(1, 7))) + "q")
    seen, out = set(), []
    for t in inputs:
        if t not in seen:
            seen.add(t)
            out.append(t)
    return out


def generate(res):
    ents = C.translate(res, "c17-entities", "src/entities.in", lambda: G.parse_entities(C.read(os.path.join(C.REPO, "src", "entities.in"))))
    isrc = C.read(os.path.join(C.REPO, "src", "interface.rs"))
    rx, cls = C.translate(res, "c17-regexes", "regexes of interface.rs",
                          lambda: (lambda r: (r, G.parse_entity_class(r["HTML_ENTITIES"])))(G.parse_regexes(isrc)))
    C.write_if_changed(os.path.join(C.GEN, "Entities.v"), G.render_entities(ents, rx, cls))
    ref = G.reference()
    C.write_if_changed(os.path.join(C.GEN, "RefEntities.v"), G.render_ref(ref))
    ok, log = C.build_harness()
    if not ok:
        raise RuntimeError("harness build failed: " + log)
    seed = res.seed if res else 1
    tier = res.tier if res else "quick"
    rng = random.Random(seed * 7919 + 17)
    inputs = tie_inputs(ents, rng, tier)
    r = C.one_session([["set_mathml", "<math><mtext>%s</mtext></math>" % t] for t in inputs])
    obs, skipped = [], []
    for t, x in zip(inputs, r.get("res", [])):
        oc = obs_code(x)
        if oc is None:
            skipped.append((t, x))
        else:
            obs.append((t, oc))
    items = ["(%s, (%d, %s))" % (cstr(t), c, cstr(s)) for t, (c, s) in obs]
    C.write_if_changed(os.path.join(C.GEN, "C17Obs.v"),
                       HEADER + "Definition observations : list (list N * (N * list N)) := " + clist(items) + ".\n")
    if res is not None:
        res.extra["gen_sources"] = [{"file": "src/entities.in", "sha256": C.sha256_text(C.read(os.path.join(C.REPO, "src", "entities.in")))},
                                    {"file": "src/interface.rs (regexes)", "regexes": rx}]
        res.extra["tie_cases"] = len(obs)
        res.extra["tie_unclassified"] = [[t, json.dumps(x)[:200]] for t, x in skipped[:5]]
    return ents, ref, rx, obs, skipped


# --------------------------------------------------------------------------------------------------------------
def numeric(s):
    return "".join("&#x%X;" % ord(c) for c in s)


def results_of(sessions_ops):
    """run each ops list in its own fresh session (with rules dir); returns list of normalised result tuples"""
    sess = [{"id": i, "ops": [["set_rules_dir", C.RULES]] + ops} for i, ops in enumerate(sessions_ops)]
    out = C.run_harness(sess)
    res = []
    for r in out:
        rs = r.get("res", [])[1:]
        res.append([tuple(C.norm_ids(v) if isinstance(v, str) else v for v in C.outcome(x)) for x in rs] if rs else [("crash", json.dumps(r))])
    return res


def triple(mathml):
    return [["set_mathml", mathml], ["get_spoken_text"], ["get_braille", ""]]


def entity_oracle(res, ents, ref):
    """named vs numeric spelling: for every name of the table (thorough) / every 4th name + all names with digits
    and all multi-character entities (quick)"""
    names = [k for k, _ in ents]
    table = dict(ents)
    if res.tier == "quick":
        names = [k for i, k in enumerate(names) if i % 4 == (res.seed % 4) or re.search(r"\d", k) or len(ref.get(k, "x")) > 1]
    cases = []
    for k in names:
        r = ref.get(k)
        if r is None:
            continue
        tv = re.sub(r"&#x([0-9A-Fa-f]+);", lambda m: chr(int(m.group(1), 16)), table[k])
        if tv == " " + r:      # documented deviation (theorem entities_agree): leading space before a combining mark
            r = tv
        a = "<math><mrow><mi>x</mi><mo>&%s;</mo><mi>y</mi></mrow></math>" % k
        b = "<math><mrow><mi>x</mi><mo>%s</mo><mi>y</mi></mrow></math>" % numeric(r)
        cases.append((k, a, b))
    # batch 50 names per session pair to keep process count low
    ops_a, ops_b, groups = [], [], []
    for i in range(0, len(cases), 40):
        grp = cases[i:i + 40]
        groups.append(grp)
        ops_a.append(sum((triple(a) for _, a, _ in grp), []))
        ops_b.append(sum((triple(b) for _, _, b in grp), []))
    ra, rb = results_of(ops_a), results_of(ops_b)
    nv = 0
    for grp, xa, xb in zip(groups, ra, rb):
        for j, (k, a, b) in enumerate(grp):
            ta, tb = xa[3 * j:3 * j + 3], xb[3 * j:3 * j + 3]
            res.add_case(("entity", k), nontrivial=True,
                         sample={"named": a, "numeric": b} if len(res.samples) < 3 else None)
            if ta != tb:
                # documented: leading space before a combining mark
                known = False
                if known:
                    continue
                res.violation("named entity &%s; and its numeric spelling give different results" % k,
                              {"kind": "pair", "a": a, "b": b, "result_a": ta, "result_b": tb})
                nv += 1
                if nv >= 5:
                    return nv
    return nv


def surface_variants(body, rng):
    """rewritings of <math>body</math> that differ only in XML surface form"""
    plain = "<math>%s</math>" % body
    vs = []
    for p in ("m", "mml", "M"):
        pref = re.sub(r"<(/?)([a-z]+)", lambda m: "<%s%s:%s" % (m.group(1), p, m.group(2)), plain)
        pref = pref.replace("<%s:math" % p, "<%s:math xmlns:%s='http://www.w3.org/1998/Math/MathML'" % (p, p), 1)
        vs.append(("prefix " + p, pref))
    vs.append(("xmlns", plain.replace("<math", "<math xmlns='http://www.w3.org/1998/Math/MathML'", 1)))
    ws = re.sub(r">\s*<", lambda m: ">" + rng.choice(["\n", "  ", "\t", "\r\n  "]) + "<", plain)
    vs.append(("whitespace", ws))
    pad = re.sub(r"<(m[ion]|mtext)>([^<]+)</", lambda m: "<%s>%s%s%s</" % (m.group(1), rng.choice(["\r\n  ", " ", "\n", "\t", "\r"]), m.group(2), rng.choice(["\r\n", "  ", "\n ", "\r"])), plain)
    vs.append(("whitespace padding inside tokens", pad))
    cm = re.sub(r"><", lambda m: ">" + rng.choice(["", "<!-- c -->", "<?pi x?>", "<!--a--><!--b-->"]) + "<", plain)
    vs.append(("comments/PIs", cm))
    def inside(m):
        # a comment / PI inside the text of a token (between two characters, never inside a character reference)
        units = re.findall(r"&[^;]+;|.", m.group(3), re.S)
        k = rng.randint(0, len(units)) if len(units) < 2 or rng.random() < 0.3 else rng.randint(1, len(units) - 1)
        ins = rng.choice(["<!-- c -->", "<!--a--><!--b-->", "<?pi x?>", "<!-- c --><?pi x?>"])
        out = "".join(units[:k]) + ins + "".join(units[k:])
        if len(units) > 2 and rng.random() < 0.3:
            out = out + "<!--t-->"
        return "<%s%s>%s</" % (m.group(1), m.group(2), out)
    ci = re.sub(r"<(m[ion]|mtext)((?: [^>]*)?)>([^<]+)</", inside, plain)
    vs.append(("comments/PIs inside token text", ci))
    vs.append(("doc prolog", "<?xml version='1.0'?><!-- lead -->" + plain + "<!-- trail -->"))
    mj = re.sub(r"<(m[a-z]+)(?=[ >])", lambda m: "<%s class=\"MJX-TeXAtom-ORD\"" % m.group(1) if rng.random() < 0.5 else m.group(0), plain)
    vs.append(("mathjax v2 class", mj))
    mj3 = re.sub(r"<(m[a-z]+)(?=[ >])", lambda m: "<%s class='data-mjx-texclass-ORD'" % m.group(1) if rng.random() < 0.5 else m.group(0), plain)
    vs.append(("mathjax v3 class", mj3))
    dq = re.sub(r"='([^']*)'", r'="\1"', plain)
    vs.append(("double quotes", dq))
    ch = re.sub(r"&#x([0-9A-Fa-f]+);", lambda m: "&#%d;" % int(m.group(1), 16), plain)
    vs.append(("decimal refs", ch))
    raw = re.sub(r"&#x([0-9A-Fa-f]+);", lambda m: chr(int(m.group(1), 16)) if int(m.group(1), 16) not in (0x26, 0x3C) else m.group(0), plain)
    vs.append(("raw characters", raw))
    return plain, vs


def surface_oracle(res, rng):
    bodies = [b for b in X.FIXED]
    n = 25 if res.tier == "quick" else 400
    bodies += [X.gen(rng, 3) for _ in range(n)]
    plains, variants, meta = [], [], []
    for b in bodies:
        plain, vs = surface_variants(b, rng)
        plains.append(triple(plain))
        for nm, v in vs:
            variants.append(triple(v))
            meta.append((len(plains) - 1, nm, plain, v))
    rp = results_of(plains)
    rv = results_of(variants)
    nv = 0
    for (pi, nm, plain, v), xv in zip(meta, rv):
        res.add_case(("surface", nm, plain), nontrivial=(v != plain),
                     sample={"variant": nm, "input": v[:300]} if len(res.samples) < 8 else None)
        if xv != rp[pi]:
            res.violation("surface variant (%s) of an expression gives a different result" % nm,
                          {"kind": "pair", "a": plain, "b": v, "result_a": rp[pi], "result_b": xv, "variant": nm})
            nv += 1
            if nv >= 5:
                break
    return nv


def lookalike_known(res):
    """known finding (DESIGN 10 #12): the pre-parse regexes run on the raw string, so TEXT that looks like a namespace
    declaration or a MathJax class attribute is altered.  Reported as KNOWN-FINDING when (still) present."""
    kf = {k["id"]: k for k in C.known_findings("C17")}
    probes = {
        "xmlns-lookalike-in-text": ("<math><mtext>see xmlns:foo here</mtext></math>", "see xmlns:foo here"),
        "mathjax-class-lookalike-in-text": ("<math><mtext>class=\"MJX-a\" z</mtext></math>", "class=\"MJX-a\" z"),
        "foreign-prefix-declaration": ("<math xmlns='http://www.w3.org/1998/Math/MathML' xmlns:xlink='http://www.w3.org/1999/xlink'><mtext>ok</mtext></math>", "ok"),
    }
    for kid, (inp, want) in probes.items():
        r = C.one_session([["set_mathml", inp]])["res"][0]
        oc = obs_code(r)
        got = oc[1] if oc and oc[0] == 2 else None
        res.add_case(("lookalike", kid), nontrivial=True)
        if got != want:
            if kid in kf:
                res.known("%s: input %s -> text %r" % (kid, inp, got))
            else:
                res.violation("text that merely looks like XML bookkeeping is altered: %r -> %r" % (want, got),
                              {"kind": "text", "input": inp, "expected_text": want, "observed": got})


# ---------------------------------------------------------------- the trim tie (Model/Trim.v)
T_WS = [" ", "  ", "\n", "\t", "\n   ", " \r\n ", "\u00a0"]
T_WORDS = ["x", "sin", "12", "3.5", "if and only if", "a b", "\u03b1", "A&B", "1<2", "d\u00e9j\u00e0", "--", "y\u00a0z"]
T_LEAVES = ["mi", "mn", "mo", "mtext", "ms", "mspace", "none", "annotation", "ci"]
T_ROWS = ["mrow", "mfrac", "msqrt", "msup", "mtable", "mtr", "mtd", "mstyle", "semantics", "mprescripts", "foo"]
T_HTML = ["b", "span", "i", "font"]


def t_doc(rng, depth):
    """a document tree: ('T', text) | ('C',) | ('P',) | ('E', name, alt, kids); texts never adjacent, never empty"""
    def leaf_kids(d):
        kids = []
        for _ in range(rng.choice([0, 1, 1, 2, 3, 4])):
            r = rng.random()
            if r < 0.5:
                t = rng.choice(T_WS + [""]) + rng.choice(T_WORDS) + rng.choice(T_WS + ["", ""]) if rng.random() < 0.85 else rng.choice(T_WS[:6])
                if kids and kids[-1][0] == "T":
                    kids.append(("C",))
                kids.append(("T", t))
            elif r < 0.7:
                kids.append(("C",))
            elif r < 0.78:
                kids.append(("P",))
            elif r < 0.88:
                kids.append(("E", "mglyph", rng.choice([None, "G", "alt text", ""]), []))
            elif d > 0:
                kids.append(("E", rng.choice(T_HTML + ["mi"]), None, leaf_kids(d - 1)))
        return kids
    if depth <= 0 or rng.random() < 0.45:
        return ("E", rng.choice(T_LEAVES), None, leaf_kids(2))
    kids = []
    for _ in range(rng.randint(0, 4)):
        r = rng.random()
        if r < 0.6:
            kids.append(t_doc(rng, depth - 1))
        elif r < 0.75:
            if not (kids and kids[-1][0] == "T"):
                kids.append(("T", rng.choice(T_WS[:6] + ["junk", " stray text "])))
        elif r < 0.9:
            kids.append(("C",))
        else:
            kids.append(("P",))
    return ("E", rng.choice(T_ROWS), None, kids)


def t_xml(t):
    if t[0] == "T":
        return t[1].replace("&", "&amp;").replace("<", "&lt;").replace("\r", "&#13;")
    if t[0] == "C":
        return "<!-- a <b> c -->"
    if t[0] == "P":
        return "<?pi x y?>"
    _, g, alt, kids = t
    a = "" if alt is None else " alt='%s'" % alt
    return "<%s%s>%s</%s>" % (g, a, "".join(t_xml(k) for k in kids), g)


def t_coq(t):
    if t[0] == "T":
        return "XText %s" % cstr(t[1])
    if t[0] == "C":
        return "XComment"
    if t[0] == "P":
        return "XPI"
    _, g, alt, kids = t
    return "XEl %s %s [%s]" % (cstr(g), "None" if alt is None else "(Some %s)" % cstr(alt), "; ".join(t_coq(k) for k in kids))


def t_observed(xml):
    """the tree the library returns for the stage 'trim', in the model's vocabulary (no comments survive; a text is the
    content of an element without element children)"""
    import xml.etree.ElementTree as ET
    def conv(e):
        kids = [conv(k) for k in e]
        if not kids and e.text is not None and e.text != "":
            kids = [("T", e.text)]
        return ("E", e.tag.split("}")[-1], e.get("alt"), kids)
    return conv(ET.fromstring(xml))


def trim_observations(res):
    tier = res.tier if res else "quick"
    rng = random.Random((res.seed if res else 1) * 7349 + 17)
    hand = ["<math><mn>1<!-- c -->2</mn></math>", "<math><mi>s<!-- c -->in</mi><mo>&#x2061;</mo><mi>x</mi></math>", "<math><mtext>if <!-- a -->and only<?p q?> if</mtext></math>",
            "<math><mi><!--c--></mi><mi></mi><mi> </mi></math>", "<math><mi> a <b>b  c</b><!--k-->\n d<mglyph alt='G g'/> </mi></math>",
            "<math><mrow>junk<mi>x</mi>more<!--c--><?pi y?></mrow></math>", "<math><mspace>x</mspace><none><!--c--></none><mn><!--lead-->7</mn></math>",
            "<math>\n  <mrow>\n    <mi>x</mi>\n    <mo>+</mo>\n  </mrow>\n</math>", "<math><mtext>a&#xA0;b &#xA0; c</mtext></math>"]
    docs = [("E", "math", None, [t_doc(rng, 3) for _ in range(rng.randint(1, 3))]) for _ in range(300 if tier == "quick" else 3000)]
    xmls = hand + [t_xml(d) for d in docs]
    import xml.etree.ElementTree as ET

    def parse_in(x):
        def conv(e):
            kids = []
            if e.text:
                kids.append(("T", e.text))
            for k in e:
                if k.tag is ET.Comment:
                    kids.append(("C",))
                elif k.tag is ET.ProcessingInstruction:
                    kids.append(("P",))
                else:
                    kids.append(conv(k))
                if k.tail:
                    kids.append(("T", k.tail))
            return ("E", e.tag, e.get("alt"), kids)
        return conv(ET.fromstring(x, parser=ET.XMLParser(target=ET.TreeBuilder(insert_comments=True, insert_pis=True))))
    trees = [parse_in(x) for x in hand] + docs
    sessions = [{"id": i, "ops": [["set_rules_dir", C.RULES]] + [["v_canon_stage", x, "trim"] for x in xmls[i::16]]} for i in range(16)]
    out = C.run_harness(sessions)
    obs, skipped = [], 0
    for i, r in enumerate(out):
        rr = r.get("res", [])[1:]
        for x, t, o in zip(xmls[i::16], trees[i::16], rr):
            if "ok" in o:
                try:
                    obs.append((x, t, t_observed(o["ok"])))
                except Exception:
                    skipped += 1
            else:
                skipped += 1
    body = HEADER + "From MC Require Import Model.Trim.\nDefinition trim_obs : list (xnode * xnode) := " + \
        clist(("(%s, %s)" % (t_coq(t), t_coq(o)) for _, t, o in obs), per_line=1) + ".\n"
    C.write_if_changed(os.path.join(C.GEN, "TrimObs.v"), body)
    if res is not None:
        res.extra["trim_tie_cases"] = len(obs)
        res.extra["trim_tie_skipped"] = skipped
        res.extra["trim_tie_with_comment_inside_token"] = sum(1 for x, _, _ in obs if re.search(r"<(m[ion]|mtext)>[^<]+<!--", x))
    return obs


def run(res):
    res.rule = ("trim tie: hand-written and 300 (3000) seeded documents with comments, processing instructions, blanks of every kind, stray text between elements, "
                "embedded HTML and mglyph inside tokens, through the library's trim stage (hook) against Model/Trim.v; "
                "tie: every entity name + adversarial + seeded random strings through set_mathml vs the Coq model (kernel-checked); "
                "oracle: named vs numeric spelling per entity name, and 10 surface rewritings (prefix, xmlns, whitespace, comments/PIs, "
                "prolog, MathJax v2/v3 classes, quoting, decimal refs, raw characters) of fixed + seeded textbook expressions, "
                "comparing canonical MathML (ids renamed), speech and braille; non-trivial = variant differs textually from the plain form")
    rng = random.Random(res.seed * 104729 + 3)
    ents, ref, rx, obs, skipped = generate(res)
    tobs = trim_observations(res)

    def on_broken(log):
        n = 0
        m = re.search(r"=\s*\(40040004,\s*\[([^\]]*)\]\)", log)
        if m:
            # the trim tie: a document the library trims differently from the model; is a spelling that must not matter involved?
            for xx in [int(v.replace("%N", "")) for v in m.group(1).replace("\n", " ").split(";") if v.strip()][:20]:
                if xx < len(tobs):
                    x = tobs[xx][0]
                    plain = re.sub(r"<!--.*?-->|<\?.*?\?>", "", x, flags=re.S)
                    a, b = (C.one_session([["set_mathml", v]])["res"][0] for v in (x, plain))
                    if C.norm_ids_deep(a) != C.norm_ids_deep(b):
                        res.violation("the same expression with and without comments / processing instructions gives different results: %s" % x[:300],
                                      {"kind": "pair", "a": x, "b": plain, "result_a": a, "result_b": b})
                        n += 1
                        if n >= 3:
                            break
        idx = C.parse_coq_nlist(log) if "Tie/C17Tie" in log else None
        if idx:
            names = set(k for k, _ in ents)
            for i in idx[:40]:
                t, oc = obs[i]
                res.extra.setdefault("tie_disagreements", []).append({"input": t, "library": oc})
                # a reference to a name that is not in the table must be refused
                unknown = [m for m in re.findall(r"&([A-Za-z0-9]+);", t) if m not in names]
                if unknown and oc[0] == 2 and n < 3:
                    res.violation("&%s; is not an entity name but set_mathml accepts it (text %r)" % (unknown[0], oc[1]),
                                  {"kind": "entity", "input": "<math><mtext>%s</mtext></math>" % t, "reference": None, "table": None, "observed": oc})
                    n += 1
        n += entity_oracle(res, ents, ref)
        n += surface_oracle(res, rng)
        # direct table search: the first table entry that disagrees with the reference
        for k, v in ents:
            r = ref.get(k)
            dec = re.sub(r"&#x([0-9A-Fa-f]+);", lambda m: chr(int(m.group(1), 16)), v)
            if r is None or (dec != r and dec != " " + r):
                inp = "<math><mtext>q&%s;q</mtext></math>" % k
                x = C.one_session([["set_mathml", inp]])["res"][0]
                res.violation("entity &%s; does not mean what the HTML5 reference says (%r vs %r)" % (k, dec, r),
                              {"kind": "entity", "input": inp, "reference": r, "table": v, "observed": C.outcome(x)})
                n += 1
                break
        return n > 0
    proved = C.check_proofs(res, "C17", ["Props/C17.vo", "Tie/C17Tie.vo", "Tie/TrimTie.vo"], "Props/C17.v", search=on_broken)
    if proved:
        entity_oracle(res, ents, ref)
        surface_oracle(res, rng)
    lookalike_known(res)
    if skipped:
        res.extra["tie_unclassified_count"] = len(skipped)
    res.trusted += ["python html.entities.html5 as the entity reference",
                    "sxd_document XML parser (character-reference decoding is modelled only to state what a replacement text means)",
                    "regex crate: leftmost non-overlapping match semantics of `&([CLASS]+?);` (model tied by Tie/C17Tie.v)"]
    res.assumptions += ["comment / processing-instruction / inter-element text invariance is proved for the trim model (tied); prefix, namespace, MathJax class and quoting "
                        "invariance are exercised on the library (oracle run), not proved"]


def replay(path):
    rep = json.load(open(path, encoding="utf-8"))
    ok, log = C.build_harness()
    if not ok:
        print("harness build failed", log)
        return 2
    if rep.get("kind") == "pair":
        ra, rb = results_of([triple(rep["a"]), triple(rep["b"])])
        print("a:", ra, "\nb:", rb)
        return 1 if ra != rb else 0
    if rep.get("kind") in ("text", "entity"):
        r = C.one_session([["set_mathml", rep["input"]]])["res"][0]
        print(r)
        oc = obs_code(r)
        if rep.get("kind") == "text":
            return 0 if oc and oc[1] == rep["expected_text"] else 1
        return 1
    print("replay names a broken obligation, not an input:", rep.get("what"))
    return 1
