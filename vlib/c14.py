"""C14 -- broken rule files give errors, not crashes, and recovery is complete.
Coq (Props/C14.v): the caches of Model/Caches.v over a file system that changes between calls (every call sees the
file content and modification stamp of that moment; a load may fail).  For ANY history of file-system states and keys:
a guarded slot checked with file times answers with what the current files give (so a repaired fault is repaired in the
output), without file times it does so after any change of key (re-pointing); the value-unguarded variant is refuted.
Tie: the library's own cache checks (hook log) during seeded fault histories = the model's reload flags under the same
sequence of (key, stamp changed?, load fails?) -- kernel-checked.
Oracle (search + support): fault injection on private copies of Rules/: every rule file reachable from the configuration x
fault kind (deleted, moved away, empty, truncated at a document boundary, wrong top-level type, invalid xpath, unknown
key) x scenario (in place with CheckRuleFiles=All; re-pointing to a broken copy and back; broken before the first call and
repaired): no call panics, an affected call returns an error that names the file, and after the repair every output equals
the output before the fault / of a clean session."""
import json
import os
import random
import re
import shutil
import sys

from . import common as C
from . import exprs as X

sys.path.insert(0, C.VERIF)
from gen.coqfmt import HEADER, clist, cstr

SCRATCH = os.path.join(C.BUILD, "c14")
KEEP_LANGS = ["en", "es"]
KEEP_CODES = ["Nemeth", "UEB"]

# an expression that reaches every layer: a function name (definitions), a rare character (full Unicode table), a
# fraction and a script (rule files), a number with separators (preference-dependent patterns)
BODY = ("<mrow><mi>sin</mi><mo>&#x2061;</mo><mi>x</mi><mo>+</mo><mfrac><mn>1</mn><msup><mi>y</mi><mn>2</mn></msup></mfrac>"
        "<mo>&#x22C8;</mo><mn>1,234.5</mn></mrow>")
QUERIES = [["set_mathml", X.math(BODY)], ["get_spoken_text"], ["get_braille", ""], ["get_overview_text"],
           ["do_navigate_command", "ZoomIn"], ["do_navigate_command", "MoveNext"], ["get_navigation_braille"]]


def copy_path(n):
    # the copy is a directory NAMED Rules: find_file walks from the language directory towards the root and stops only at
    # a directory of that name (under any other name it goes on into the parents of the rules directory: outside the model)
    return os.path.join(SCRATCH, "r%d" % n, "Rules")


def private_copy(n):
    """a pruned private copy of Rules/ (the languages and codes the histories use)"""
    d = copy_path(n)
    if os.path.isdir(d):
        shutil.rmtree(d)
    os.makedirs(d)
    for f in os.listdir(C.RULES):
        p = os.path.join(C.RULES, f)
        if os.path.isfile(p):
            shutil.copy(p, d)
    shutil.copytree(os.path.join(C.RULES, "Intent"), os.path.join(d, "Intent"))
    os.makedirs(os.path.join(d, "Languages"))
    for l in KEEP_LANGS:
        shutil.copytree(os.path.join(C.RULES, "Languages", l), os.path.join(d, "Languages", l))
    os.makedirs(os.path.join(d, "Braille"))
    shutil.copy(os.path.join(C.RULES, "Braille", "definitions.yaml"), os.path.join(d, "Braille"))
    for c in KEEP_CODES:
        shutil.copytree(os.path.join(C.RULES, "Braille", c), os.path.join(d, "Braille", c))
    return d


# files reachable from Language=en, SpeechStyle=ClearSpeak, BrailleCode=Nemeth (relative to the rules directory): the head
# files the preference manager locates and everything they include, transitively
HEADS = ["prefs.yaml", "intent.yaml", "Languages/en/ClearSpeak_Rules.yaml", "Languages/en/overview.yaml", "Languages/en/navigate.yaml",
         "Languages/en/unicode.yaml", "Languages/en/unicode-full.yaml", "Languages/en/definitions.yaml", "Braille/Nemeth/Nemeth_Rules.yaml",
         "Braille/Nemeth/unicode.yaml", "Braille/Nemeth/unicode-full.yaml", "Braille/Nemeth/definitions.yaml"]


def includes_of(relpath):
    """the files a rule file includes directly (relative to the rules directory)"""
    out = []
    p = os.path.join(C.RULES, relpath)
    for line in open(p, encoding="utf-8", errors="replace"):
        s = line.strip()
        if s.startswith("#"):
            continue
        i = s.find("include:")
        if i >= 0:
            tgt = s[i + 8:].split("#")[0].strip().strip("\"'")
            out.append(os.path.relpath(os.path.normpath(os.path.join(os.path.dirname(p), tgt)), C.RULES))
    return out


def closure(relpath):
    """relpath and everything it includes, transitively, in reading order"""
    out = [relpath]
    for x in includes_of(relpath):
        for y in closure(x):
            if y not in out:
                out.append(y)
    return out


def reachable():
    out = []
    for h in HEADS:
        for f in closure(h):
            if f not in out:
                out.append(f)
    return out


def doc_boundaries(text):
    """offsets at which a top-level list item of a YAML rule file starts"""
    out, off = [], 0
    for line in text.splitlines(True):
        if line.startswith("- ") or line.startswith(" - "):
            out.append(off)
        off += len(line)
    return out


FAULTS = ["deleted", "moved", "empty", "truncated", "cut-mid-item", "wrong-type", "scalar", "bad-xpath", "unknown-key", "not-yaml", "bad-mid"]


def fault_ops(kind, path, orig_text, rng):
    """harness steps that put the fault in place; None when the kind does not apply to the file"""
    if kind == "deleted":
        return [["h_remove", path]]
    if kind == "moved":
        return [["h_rename", path, path + ".away"]]
    if kind == "empty":
        return [["h_write", path, ""]]
    if kind == "truncated":
        b = doc_boundaries(orig_text)
        if len(b) < 3:
            return None
        return [["h_write", path, orig_text[:rng.choice(b[1:])]]]
    if kind == "cut-mid-item":
        if len(orig_text) < 200:
            return None
        return [["h_write", path, orig_text[:rng.randrange(100, len(orig_text) - 1)]]]
    if kind == "wrong-type":
        return [["h_write", path, "name: value\nother: 3\n"]]
    if kind == "scalar":
        return [["h_write", path, "just a string\n"]]
    if kind == "not-yaml":
        return [["h_write", path, "- [a, b\n  c: {d\n\t- e\n"]]
    if kind == "bad-xpath":
        i = orig_text.find('match: "')
        if i < 0:
            return None
        j = orig_text.find("\n", i)
        return [["h_write", path, orig_text[:i] + 'match: "self::m:mi[[(" ' + orig_text[j:]]]
    if kind == "unknown-key":
        i = orig_text.find("\n  tag: ")
        if i < 0:
            i = orig_text.find("\n   tag: ")
        if i < 0:
            return None
        return [["h_write", path, orig_text[:i + 1] + orig_text[i + 1:].replace("tag: ", "tga: ", 1)]]
    if kind == "bad-mid":
        # one bad definition in the MIDDLE of the file: the load fails after part of the file was read
        if os.path.basename(path).startswith("unicode"):
            ms = list(re.finditer(r'(?m)^ - "([^"\\]+)": \[t: "[^"]*"\]', orig_text))
            if len(ms) < 12:
                return None
            m = ms[rng.choice([3, len(ms) // 10, len(ms) // 3])]
            return [["h_write", path, orig_text[:m.start()] + ' - "%s": [tq: "oops"]' % m.group(1) + orig_text[m.end():]]]
        ms = list(re.finditer(r'(?m)^( *)match: .*$', orig_text))
        if len(ms) < 4:
            return None
        m = ms[rng.choice([1, len(ms) // 2])]
        return [["h_write", path, orig_text[:m.start()] + m.group(1) + 'match: "self::m:mi[[("' + orig_text[m.end():]]]
    raise ValueError(kind)


def repair_ops(kind, path, orig_path, how):
    if kind == "moved" and how == "rename":
        return [["h_rename", path + ".away", path]]
    return [["h_copy", orig_path, path]]


# ------------------------------------------------------------------------------------------------------------------
# histories: harness steps + the python-side account of the file system (stamps as epochs, broken files)
# ------------------------------------------------------------------------------------------------------------------
HARD = ["empty", "wrong-type", "scalar", "not-yaml", "bad-xpath", "unknown-key", "bad-mid"]     # the load of the file fails
SLEEP = ["h_sleep", 12]          # modification times have the granularity of a kernel tick


class Hist:
    def __init__(self, d, rng):
        self.d, self.rng = d, rng
        self.n = int(os.path.basename(os.path.dirname(d))[1:])
        self.ops = []
        self.epoch = 1
        self.stamp = {}                # path -> epoch of the last modification (absent: 1; 0: no such file)
        self.saved = {}                # path -> stamp before it was moved away
        self.broken = {}               # path -> kind
        self.marks = []                # (tag, first result index, count, info)
        self.mode = "Prefs"
        self.fs_at = []                # per log take: (epoch stamps snapshot, ignore_time)
        self.prefs = []

    def rel(self, r):
        return os.path.join(self.d, r)

    def _fs_step(self, ops):
        self.take_log()
        self.epoch += 1
        self.ops += [SLEEP] + ops + [SLEEP]

    def take_log(self):
        self.marks.append(("log", len(self.ops), 1, (dict(self.stamp), self.mode != "All", not self.broken)))
        self.ops.append(["v_take_load_log_full"])

    def fault(self, relpath, kind, preserve=False):
        p = self.rel(relpath)
        text = open(os.path.join(C.RULES, relpath), encoding="utf-8").read()
        f = fault_ops(kind, p, text, self.rng)
        if f is None or p in self.broken:
            return False
        if preserve and kind not in ("deleted", "moved"):
            f = [["h_rename", p, p + ".orig"]] + f
        self._fs_step(f)
        if kind in ("deleted", "moved"):
            self.saved[p] = self.stamp.get(p, 1)
            self.stamp[p] = 0
        else:
            if preserve:
                self.saved[p] = self.stamp.get(p, 1)
            self.stamp[p] = self.epoch
        self.broken[p] = (kind, preserve, relpath)
        return True

    def repair(self, p):
        kind, preserve, relpath = self.broken[p]
        self.take_log()                      # the calls so far saw the fault
        del self.broken[p]
        if kind == "moved":
            self._fs_step([["h_rename", p + ".away", p]])
            self.stamp[p] = self.saved.pop(p)
        elif preserve and kind != "deleted":
            self._fs_step([["h_rename", p + ".orig", p]])
            self.stamp[p] = self.saved.pop(p)
        else:
            self._fs_step([["h_copy", os.path.join(C.RULES, relpath), p]])
            self.stamp[p] = self.epoch

    def repair_all(self):
        for p in list(self.broken):
            self.repair(p)

    def call(self, op, tag="call"):
        if op[0] == "set_preference" and op[1] == "CheckRuleFiles":
            self.take_log()
        self.marks.append((tag, len(self.ops), 1, sorted(v[2] for v in self.broken.values())))
        self.ops.append(op)
        if op[0] == "set_rules_dir":
            # which rule files has the preference manager located? (tie with the file-location model of C15)
            missing = sorted(os.path.relpath(f, self.d) for f, s in self.stamp.items() if s == 0 and f.startswith(self.d + os.sep))
            self.marks.append(("files", len(self.ops), 1, (op[1], missing)))
            self.ops.append(["v_prefs_files"])
        if op[0] == "set_preference":
            if op[1] == "CheckRuleFiles":
                self.mode = op[2]
            self.prefs.append(op)

    def queries(self, tag):
        self.marks.append((tag, len(self.ops), len(QUERIES), sorted(v[2] for v in self.broken.values())))
        self.ops += QUERIES


def includers():
    """file (relative) -> the files that include it, transitively (an error may name the including head file)"""
    inc = {}
    for root, _, files in os.walk(C.RULES):
        for f in files:
            if not f.endswith(".yaml"):
                continue
            p = os.path.join(root, f)
            for line in open(p, encoding="utf-8", errors="replace"):
                s = line.strip()
                if s.startswith("#"):
                    continue
                i = s.find("include:")
                if i >= 0:
                    t = s[i + 8:].strip().strip("\"'")
                    q = os.path.normpath(os.path.join(root, t))
                    inc.setdefault(os.path.relpath(q, C.RULES), set()).add(os.path.relpath(p, C.RULES))
    changed = True
    while changed:
        changed = False
        for k, v in list(inc.items()):
            for x in list(v):
                for y in inc.get(x, ()):
                    if y not in v:
                        v.add(y)
                        changed = True
    return inc


def scenarios(res, n_dirs):
    """(name, Hist) list; every history ends with everything repaired and a final block of queries tagged 'final'"""
    seed = res.seed if res else 1
    tier = res.tier if res else "quick"
    rng = random.Random(seed * 97 + 14)
    files = reachable()
    combos = [(f, k) for f in files for k in FAULTS]
    rng.shuffle(combos)
    if tier == "quick":
        # every file once with a hard fault, once moved away, plus a sample of the rest
        chosen = [(f, rng.choice(HARD)) for f in files] + [(f, "moved") for f in files[::3]] + combos[:20]
        chosen += [(f, "bad-mid") for f in files if os.path.basename(f).startswith("unicode") and (f, "bad-mid") not in chosen]
    else:
        chosen = combos
    out = []
    n = 0
    for relpath, kind in chosen:
        for scen in (["in-place-All", "first-broken", "repoint"] if tier == "quick" else
                     ["in-place-All", "in-place-preserved", "in-place-Prefs", "first-broken", "repoint", "repoint-All"]):
            if tier == "quick" and rng.random() < 0.5 and scen != "first-broken" and not (relpath == "prefs.yaml" and scen == "in-place-All"):
                continue
            if scen == "in-place-preserved" and kind not in HARD + ["moved"]:
                continue          # an older time stamp on changed content: outside the file-system assumption
            d = copy_path(n)
            n += 1
            h = Hist(d, rng)
            if scen.startswith("in-place"):
                h.call(["set_rules_dir", d])
                if scen != "in-place-Prefs":
                    h.call(["set_preference", "CheckRuleFiles", "All"])
                h.queries("base")
                if not h.fault(relpath, kind, preserve=(scen == "in-place-preserved")):
                    continue
                h.must_report = kind in HARD and scen != "in-place-Prefs"
                h.queries("during")
                if kind == "bad-mid" or relpath == "prefs.yaml" or rng.random() < 0.3:
                    h.queries("during")        # the fault is still there: the second round of calls is affected as well
                    if relpath == "prefs.yaml":
                        h.queries("during")    # ... and the third
                h.repair_all()
                h.queries("final")
            elif scen == "first-broken":
                if not h.fault(relpath, kind):
                    continue
                h.call(["set_rules_dir", d], "during-call")
                h.call(["set_preference", "CheckRuleFiles", "All"], "during-call")
                h.queries("during")
                h.repair_all()
                h.call(["set_rules_dir", d])
                h.call(["set_preference", "CheckRuleFiles", "All"])
                h.queries("final")
            else:
                if not h.fault(relpath, kind):
                    continue
                h.call(["set_rules_dir", C.RULES])
                if scen == "repoint-All":
                    h.call(["set_preference", "CheckRuleFiles", "All"])
                h.queries("base")
                h.call(["set_rules_dir", d], "during-call")
                h.queries("during")
                h.take_log()           # the calls so far saw the broken copy
                h.broken_after = dict(h.broken)
                h.broken = {}          # the good directory has no fault
                h.call(["set_rules_dir", C.RULES])
                h.queries("final")
            h.take_log()
            out.append(("%s %s %s" % (scen, kind, relpath), h))
    # files reached through an include of an included file: loaded while cut short, then repaired; broken after a good load
    nested = ["Languages/en/SharedRules/default.yaml", "Languages/en/SharedRules/general.yaml", "definitions.yaml"]
    for relpath in nested:
        for scen in ["first-broken", "in-place-All"]:
            d = copy_path(n)
            n += 1
            h = Hist(d, rng)
            if scen == "first-broken":
                h.fault(relpath, "truncated")
                h.call(["set_rules_dir", d], "during-call")
                h.call(["set_preference", "CheckRuleFiles", "All"], "during-call")
                h.queries("during")
                h.repair_all()
                h.queries("final")
            else:
                h.call(["set_rules_dir", d])
                h.call(["set_preference", "CheckRuleFiles", "All"])
                h.queries("base")
                h.fault(relpath, "empty")
                h.must_report = True
                h.queries("during")
                h.repair_all()
                h.queries("final")
            h.take_log()
            out.append(("nested-include %s %s" % (scen, relpath), h))
    # language / style / code switches around a fault in the other language
    for relpath, kind in [("Languages/es/definitions.yaml", "wrong-type"), ("Languages/es/unicode.yaml", "empty"),
                          ("Languages/es/ClearSpeak_Rules.yaml", "not-yaml"), ("Braille/UEB/UEB_Rules.yaml", "scalar"),
                          ("Braille/UEB/definitions.yaml", "empty"), ("Languages/es/navigate.yaml", "bad-xpath")]:
        d = copy_path(n)
        n += 1
        h = Hist(d, rng)
        pref = ["set_preference", "BrailleCode", "UEB"] if relpath.startswith("Braille") else ["set_preference", "Language", "es"]
        back = ["set_preference", "BrailleCode", "Nemeth"] if relpath.startswith("Braille") else ["set_preference", "Language", "en"]
        h.call(["set_rules_dir", d])
        h.queries("base")
        h.fault(relpath, kind)
        h.call(pref, "during-call")
        h.queries("during")
        h.take_log()                           # the calls so far saw the fault
        h.broken, keep = {}, h.broken          # back to the configuration the fault does not reach
        h.call(back)
        h.queries("final")
        h.broken = keep
        h.take_log()
        out.append(("switch-away-and-back %s %s" % (kind, relpath), h))
    # seeded longer histories: faults, repairs, switches, re-pointing in any order; at the end everything is repaired
    # and file checking is on
    for i in range(6 if tier == "quick" else 60):
        d = copy_path(n)
        n += 1
        h = Hist(d, rng)
        h.call(["set_rules_dir", d])
        for _ in range(rng.randint(4, 12)):
            r = rng.random()
            if r < 0.3:
                # prefs.yaml has its own scenarios: re-reading it resets preferences set through the API (known finding)
                h.fault(rng.choice(files[1:]), rng.choice(FAULTS))
            elif r < 0.5 and h.broken:
                h.repair(rng.choice(sorted(h.broken)))
            elif r < 0.65:
                h.call(["set_preference", "CheckRuleFiles", rng.choice(["All", "Prefs", "None"])], "during-call")
            elif r < 0.75:
                h.call(["set_preference"] + rng.choice([["SpeechStyle", "SimpleSpeak"], ["SpeechStyle", "ClearSpeak"], ["Verbosity", "Terse"], ["Verbosity", "Medium"]]), "during-call")
            elif r < 0.8:
                h.call(["set_rules_dir", d], "during-call")
            else:
                h.queries("during")
        h.repair_all()
        h.call(["set_preference", "CheckRuleFiles", "All"])
        h.call(["set_rules_dir", d])
        h.queries("final")
        h.take_log()
        out.append(("seeded history %d" % i, h))
    return out


def norm(o):
    if "ok" in o:
        return {"ok": C.norm_ids_deep(o["ok"])}
    if "err" in o:
        return {"err": True}
    return o


def execute(hists, batch=160):
    """runs the histories, each on its own fresh private copy of Rules/ (made and removed batch by batch)"""
    out = []
    for i in range(0, len(hists), batch):
        part = hists[i:i + batch]
        try:
            for _, h in part:
                private_copy(h.n)
            out += C.run_harness([{"id": h.n, "ops": h.ops} for _, h in part], timeout=2400)
        finally:
            shutil.rmtree(SCRATCH, ignore_errors=True)
    return out


ITEM_NAMES = []
LOCATED_NAMES = []


def tie_items(hists, out):
    """per session and cache: (guard, [obs_call], [observed reload flags]) as Coq text"""
    items, kinds = [], {}
    for (name, h), r in zip(hists, out):
        res = r.get("res") or []
        if len(res) != len(h.ops):
            continue
        per = {}       # kind -> list of (ignore, stamps snapshot, key, result, reloaded)
        for tag, at, cnt, info in h.marks:
            if tag != "log" or "ok" not in res[at]:
                continue
            stamps, ignore, intact = info
            for kind, key, reload, files in res[at]["ok"]:
                if kind == "patterns":
                    continue
                per.setdefault(kind, []).append((ignore, stamps, key, files, reload, intact))
        for kind, seq in per.items():
            guard = kind.endswith(":rules") or kind.endswith("unicode-full")
            ids = {}

            def fid(f):
                return "[%d]" % ids.setdefault(f, len(ids) + 1)
            interest = set()
            for _, _, key, files, _, _ in seq:
                interest.add(key)
                interest.update(files or [])
            calls = []
            recorded = []
            for ignore, stamps, key, files, reload, intact in seq:
                if files and intact:
                    # with every file intact, what the library has on record for a load is the head file and everything it
                    # includes, transitively (the harness's own reading of the include: entries)
                    root = h.d if key.startswith(h.d + os.sep) else C.RULES
                    expected = [os.path.join(root, x) for x in closure(os.path.relpath(key, root))]
                    recorded.append("([%s], [%s])" % ("; ".join(fid(f) for f in files), "; ".join(fid(f) for f in expected)))
                st = "; ".join("(%s, %d)" % (fid(f), stamps.get(f, 1)) for f in sorted(interest))
                fl = "Some [%s]" % "; ".join(fid(f) for f in files) if files else "None"
                calls.append("(%s, [%s], %s, %s)" % ("true" if ignore else "false", st, fid(key), fl))
            kinds[kind] = kinds.get(kind, 0) + len(seq)
            items.append("(%s, [%s], [%s], [%s])" % ("true" if guard else "false", "; ".join(calls),
                                                   "; ".join("true" if x[4] else "false" for x in seq), "; ".join(recorded)))
            ITEM_NAMES.append("%s / %s" % (name, kind))
    return items, kinds


def pruned_listing():
    """the files of a private copy, as component lists relative to its root"""
    out = []
    for d, _, files in os.walk(C.RULES):
        rel = os.path.relpath(d, C.RULES)
        parts = [] if rel == "." else rel.split(os.sep)
        keep = (not parts or parts[0] == "Intent" or (parts[0] == "Languages" and len(parts) > 1 and parts[1] in KEEP_LANGS) or
                (parts[0] == "Braille" and (len(parts) == 1 or parts[1] in KEEP_CODES)))
        if parts and parts[0] in ("Languages",) and len(parts) == 1:
            keep = False
        if not keep:
            continue
        for f in sorted(files):
            out.append(parts + [f])
    return sorted(out)


LOCATED_SLOTS = ["intent", "overview", "navigation", "speech_unicode", "speech_unicode_full", "speech_defs", "speech",
                 "braille", "braille_unicode", "braille_unicode_full", "braille_defs"]


def located_items(hists, out):
    """after every set_rules_dir that succeeds: (private copy?, files missing from it, the 11 located files) as Coq text"""
    from .c15 import cpath
    items = []
    for (name, h), r in zip(hists, out):
        res = r.get("res") or []
        if len(res) != len(h.ops) or any(op[0] == "set_preference" and op[1] in ("Language", "SpeechStyle", "BrailleCode") for op in h.ops):
            continue
        for tag, at, cnt, info in h.marks:
            if tag != "files" or "ok" not in res[at] or "ok" not in res[at - 1]:
                continue
            root, missing = info
            root = os.path.realpath(root) if os.path.isdir(root) else root
            files = dict(res[at]["ok"])
            paths = []
            for s in LOCATED_SLOTS:
                f = files.get(s, "")
                rel = os.path.relpath(f, root) if f else ""
                paths.append(cpath(rel.split(os.sep)) if f and not rel.startswith("..") else cpath(["<outside>"]))
            private = os.path.realpath(h.d) == root
            items.append("(%s, [%s], [%s])" % ("true" if private else "false", "; ".join(cpath(m.split(os.sep)) for m in missing) if private else "", "; ".join(paths)))
            LOCATED_NAMES.append("%s / missing %r / located %r" % (name, missing, {k_: os.path.relpath(v_, root) for k_, v_ in files.items()}))
    return items


def generate(res):
    ok, log = C.build_harness()
    if not ok:
        raise RuntimeError("harness build failed: " + log)
    hists = scenarios(res, 0)
    out = execute(hists)
    items, kinds = tie_items(hists, out)
    from .c15 import cpath, gen_tree
    gen_tree()
    loc = located_items(hists, out)
    body = HEADER + "From MC Require Import Lib.Base Model.CachesFS Model.FindFile.\n" \
        "Definition fault_obs : list (bool * list obs_call * list bool * list (list str * list str)) := " + clist(items) + ".\n" \
        "Definition pruned_files : list path := " + clist([cpath(f) for f in pruned_listing()], per_line=2) + ".\n" \
        "Definition located_obs : list (bool * list path * list path) := " + clist(loc) + ".\n"
    C.write_if_changed(os.path.join(C.GEN, "C14Obs.v"), body)
    if res is not None:
        res.extra["tie_cases"] = len(items)
        res.extra["tie_located_files_cases"] = len(loc)
        res.extra["tie_checks_per_cache"] = kinds
    return hists, out


_INC = None


def acceptable_names(broken):
    global _INC
    if _INC is None:
        _INC = includers()
    names = set()
    for b in broken:
        names.add(os.path.basename(b))
        for x in _INC.get(b, ()):
            names.add(os.path.basename(x))
    return names


def clean_reference(prefs_list):
    """outputs of fresh sessions on the unchanged Rules/ for each distinct list of preference calls"""
    keys = sorted(set(json.dumps(p) for p in prefs_list))
    sessions = [{"id": i, "ops": [["set_rules_dir", C.RULES]] + json.loads(k) + QUERIES} for i, k in enumerate(keys)]
    out = C.run_harness(sessions)
    return {k: [norm(x) for x in r["res"][-len(QUERIES):]] for k, r in zip(keys, out) if r.get("res")}


def prefs_key(h):
    return json.dumps([p for p in h.prefs if p[1] != "CheckRuleFiles"])


def problems_of(h, results, clean):
    """the C14 conditions on one executed history; returns a list of (what, detail)"""
    out = []
    if len(results) != len(h.ops):
        return [("the session did not complete (crash / abort / timeout)", {})]
    for i, r in enumerate(results):
        if "panic" in r:
            out.append(("panic in %s: %s" % (h.ops[i][0], r["panic"][:160]), {"step": i}))
            break
    base = None
    have_dir = have_expr = False
    for tag, at, cnt, info in h.marks:
        if tag in ("log", "files"):
            continue
        if tag == "base":
            base = [norm(x) for x in results[at:at + cnt]]
        for j in range(at, at + cnt):
            r, op = results[j], h.ops[j][0]
            if op == "set_rules_dir":
                have_dir = "ok" in r
            if op == "set_mathml" and "ok" in r:
                have_expr = True
            if "err" not in r or op.startswith("h_") or op.startswith("v_"):
                continue
            # consequences of an earlier reported failure are not judged: no rules directory / no expression yet
            if op != "set_rules_dir" and (not have_dir or (op != "set_mathml" and op != "set_preference" and not have_expr)):
                continue
            if not info:
                out.append(("%s returns an error although no rule file is broken: %s" % (op, r["err"][:200].replace("\n", " | ")), {"step": j}))
            elif not any(nm in r["err"] for nm in acceptable_names(info)):
                out.append(("the error of %s names none of the broken files %s (nor a file that includes one): %s"
                            % (op, info, r["err"][:300].replace("\n", " | ")), {"step": j, "broken": info}))
        if tag == "during" and getattr(h, "must_report", False):
            if not any("err" in x for x in results[at:at + cnt]):
                out.append(("with file checking on, no call reports the broken file %s (speech, braille, overview and navigation all answer)" % info, {"broken": info}))
        if tag == "final":
            fin = [norm(x) for x in results[at:at + cnt]]
            names = [q[0] + ("(" + q[1] + ")" if q[0] == "do_navigate_command" else "") for q in QUERIES]
            if base is not None and fin != base:
                k = [i for i in range(cnt) if fin[i] != base[i]][0]
                out.append(("after the repair %s differs from what it was before the fault: %s vs %s"
                            % (names[k], str(fin[k])[:160], str(base[k])[:160]), {"query": names[k]}))
            ref = clean.get(prefs_key(h))
            if ref is not None and fin != ref and not (base is not None and fin != base):
                k = [i for i in range(cnt) if fin[i] != ref[i]][0]
                out.append(("after the repair %s differs from a clean session with the same preferences: %s vs %s"
                            % (names[k], str(fin[k])[:160], str(ref[k])[:160]), {"query": names[k]}))
    return out


KF_PREFS = "prefs-file-reread-resets-api-set-preferences"


def known_witness(res):
    """the recorded finding, on its own witness history: reported as KNOWN-FINDING while it reproduces"""
    if not any(k["id"] == KF_PREFS for k in C.known_findings("C14")):
        return
    h = Hist(copy_path(9000), random.Random(0))
    h.call(["set_rules_dir", h.d])
    h.call(["set_preference", "CheckRuleFiles", "All"])
    h.call(["set_preference", "Verbosity", "Terse"])
    h.queries("base")
    h.fault("prefs.yaml", "scalar")
    h.queries("during")
    h.repair_all()
    h.queries("final")
    r = execute([("known finding witness", h)])[0].get("res") or []
    if len(r) != len(h.ops):
        return
    n = len(QUERIES)
    at = [m[1] for m in h.marks if m[0] == "base"][0]
    base = [norm(x) for x in r[at:at + n]]
    at = [m[1] for m in h.marks if m[0] == "final"][0]
    fin = [norm(x) for x in r[at:at + n]]
    if base != fin and "ok" in fin[1]:
        res.known("%s: Verbosity=Terse set through the API; prefs.yaml broken and restored; speech %r before, %r after"
                  % (KF_PREFS, base[1].get("ok", "")[:40], fin[1].get("ok", "")[:40]))


def oracle(res, hists, out):
    clean = clean_reference([json.loads(prefs_key(h)) for _, h in hists])
    known_witness(res)
    found = 0
    stats = {"during_errors": 0, "during_unchanged": 0, "during_changed_silently": 0}
    for (name, h), r in zip(hists, out):
        results = r.get("res") or []
        probs = problems_of(h, results, clean)
        # distribution of what the fault did
        base = None
        for tag, at, cnt, info in h.marks:
            if tag == "base":
                base = [norm(x) for x in results[at:at + cnt]]
            if tag == "during" and len(results) == len(h.ops):
                d = [norm(x) for x in results[at:at + cnt]]
                if any("err" in x for x in d):
                    stats["during_errors"] += 1
                elif base is not None and d == base:
                    stats["during_unchanged"] += 1
                else:
                    stats["during_changed_silently"] += 1
        res.add_case(name, len(h.ops) > 30, name.split(" ")[0] + " " + name.split(" ")[1])
        for what, detail in probs[:1]:
            found += 1
            res.violation("%s: %s" % (name, what), {"kind": "fault-history", "name": name, "copy": h.n, "ops": h.ops,
                                                      "marks": h.marks, "prefs": h.prefs, "detail": detail})
        if found >= 3:
            break
    res.extra["fault_effects"] = stats
    return found


def run(res):
    res.rule = ("fault histories on private copies of Rules/: every rule file reachable from en/ClearSpeak/Nemeth (25 files) x fault kind "
                "(deleted, moved away, empty, truncated at an item boundary, cut mid-item, wrong top-level type, scalar, not YAML, invalid xpath, "
                "unknown key) x scenario (in place with CheckRuleFiles=All, in place with the old time stamp restored, in place with the default, "
                "broken before the first call, re-pointing to the broken copy and back, with and without file checking), switches to a broken "
                "language / braille code and back, and seeded longer histories of faults, repairs, preference switches and re-pointing; "
                "quick = a seeded sample; non-trivial = more than 30 steps")
    hists, out = generate(res)

    def on_broken(log):
        m = re.findall(r"=\s*\[([^\]]*)\]\s*:\s*list N", log)
        if m:
            idx = [int(x.replace("%N", "")) for x in m[0].replace("\n", " ").split(";") if x.strip()]
            res.extra["tie_disagreements"] = [ITEM_NAMES[i] for i in idx[:12] if i < len(ITEM_NAMES)]
            C.log("  tie disagreements: %r" % res.extra["tie_disagreements"])
        if len(m) > 1:
            idx = [int(x.replace("%N", "")) for x in m[1].replace("\n", " ").split(";") if x.strip()]
            res.extra["located_disagreements"] = [LOCATED_NAMES[i] for i in idx[:6] if i < len(LOCATED_NAMES)]
            C.log("  located-files disagreements: %r" % res.extra["located_disagreements"])
        return oracle(res, hists, out) > 0
    proved = C.check_proofs(res, "C14", ["Props/C14.vo", "Tie/C14Tie.vo"], "Props/C14.v", search=on_broken)
    if proved:
        oracle(res, hists, out)
    res.trusted += ["hook speech::verif::log_load / log_reloaded / log_loaded (cache checks of read_files and replace_single_char)",
                    "harness file-system steps (h_write, h_remove, h_rename, h_copy) on private copies of Rules/ under _build/c14"]
    res.assumptions += ["file-system assumption of the time-checked theorem (faithful): a file whose content changed has a newer modification time than any "
                        "load made before the change; histories that restore an OLDER time stamp onto changed content are outside it (the library compares recorded >= current)",
                        "the preference files (prefs.yaml, user prefs) have their own time check (FileAndTime::is_up_to_date in set_preference_files): covered by the fault oracle, not by the model",
                        "what a load does with a broken file (YAML parsing, xpath compilation, key validation) is the library's; the model takes its outcome as the file system's f_load; "
                        "that every broken file gives an error naming it, and no panic, is decided by the fault oracle over the listed fault kinds",
                        "zipped rule directories (zip_extract_shim) are not exercised: the shipped tree is unzipped"]


def replay(path):
    rep = json.load(open(path, encoding="utf-8"))
    ok, log = C.build_harness()
    if not ok:
        print("harness build failed", log)
        return 2
    if rep.get("kind") != "fault-history":
        print("replay names a broken obligation, not an input:", rep.get("what"))
        return 1
    os.makedirs(SCRATCH, exist_ok=True)
    try:
        d = private_copy(rep["copy"])
        h = Hist(d, random.Random(0))
        h.ops, h.marks, h.prefs = rep["ops"], [tuple(m) for m in rep["marks"]], rep["prefs"]
        # the faults that precede the first call were made by the recorded steps themselves
        out = C.run_harness([{"id": 0, "ops": h.ops}])[0]
    finally:
        shutil.rmtree(SCRATCH, ignore_errors=True)
    clean = clean_reference([json.loads(prefs_key(h))])
    probs = problems_of(h, out.get("res") or [], clean)
    for what, _ in probs:
        print("FAILS:", what)
    if not probs:
        print("the recorded history now meets the property")
    return 1 if probs else 0
