"""C03 -- row structure follows the operator dictionary.
Coq: Model/ParserCore.v + Model/Parser.v (a port of canonicalize_mrows and everything it calls), theorems in
Props/C03.v; tie: the real canonicalize_mrows (hook, parser alone) on generated rows vs the model (Tie/C03Tie.v)."""
import json
import os
import random
import re
import sys
import xml.etree.ElementTree as ET

from . import common as C

sys.path.insert(0, C.VERIF)
from gen import c03 as G
from gen import elemsets as GE
from gen.coqfmt import HEADER, clist, cstr

DEF_SETS = ["FunctionNames", "TrigFunctionNames", "LikelyFunctionNames", "GeometryShapes"]


def gen_tables(res):
    src = C.read(os.path.join(C.REPO, "src", "operator-info.in"))
    can = C.read(os.path.join(C.REPO, "src", "canonicalize.rs"))
    xp = C.read(os.path.join(C.REPO, "src", "xpath_functions.rs"))
    entries = C.translate(res, "c03-opdict", "src/operator-info.in", lambda: G.parse_opdict(src))
    sets_ = C.translate(res, "c03-sets", "operator sets and statics of canonicalize.rs / xpath_functions.rs",
                        lambda: (G.phf_set(can, "AMBIGUOUS_OPERATORS"), G.statics(can), G.named_ops(can), G.phf_set(can, "GLOBAL_ATTRS"),
                                 GE.phf_str_set(xp, "MATHML_LEAF_NODES"), GE.phf_str_set(xp, "MATHML_MODIFIED_NODES")))
    text = G.render_opdict(entries, *sets_)
    C.write_if_changed(os.path.join(C.GEN, "OpDict.v"), text)
    ok, log = C.build_harness()
    if not ok:
        raise RuntimeError("harness build failed: " + log)
    r = C.one_session([["set_preference", "Language", "en"], ["set_mathml", "<math><mi>x</mi></math>"]] +
                      [["v_definitions_set", n] for n in DEF_SETS])["res"][2:]
    sets = {}
    for n, o in zip(DEF_SETS, r):
        if "ok" not in o or o["ok"] is None:
            raise RuntimeError("definitions set %s not available: %r" % (n, o))
        sets[n] = o["ok"]
    C.write_if_changed(os.path.join(C.GEN, "ParserDefs.v"), G.render_defs(sets))
    if res is not None:
        res.extra.setdefault("gen_sources", []).append({"file": "src/operator-info.in", "entries": len(entries)})
        res.extra["gen_sources"].append({"runtime": "definition sets", "sizes": {k: len(v) for k, v in sets.items()}})
    return entries, sets


# ---------------------------------------------------------------- trees
def T(tag, kids=(), text="", attrs=()):
    return (tag, list(attrs), list(kids), text)


def mi(s, **a):
    return T("mi", text=s, attrs=sorted(a.items()))


def mn(s):
    return T("mn", text=s)


def mo(s, **a):
    return T("mo", text=s, attrs=sorted(a.items()))


def mtext(s):
    return T("mtext", text=s)


def row(*kids, **a):
    return T("mrow", kids, attrs=sorted(a.items()))


def xml_escape(s, attr=False):
    out = []
    for ch in s:
        if ch == "&":
            out.append("&amp;")
        elif ch == "<":
            out.append("&lt;")
        elif ch == ">":
            out.append("&gt;")
        elif ch == '"' and attr:
            out.append("&quot;")
        elif ord(ch) > 126 or ord(ch) < 32:
            out.append("&#x%X;" % ord(ch))
        else:
            out.append(ch)
    return "".join(out)


def to_xml(t):
    tag, attrs, kids, text = t
    a = "".join(' %s="%s"' % (k, xml_escape(v, True)) for k, v in attrs)
    return "<%s%s>%s%s</%s>" % (tag, a, xml_escape(text), "".join(to_xml(k) for k in kids), tag)


def to_coq(t):
    tag, attrs, kids, text = t
    return "T %s [%s] [%s] %s" % (cstr(tag), "; ".join("(%s, %s)" % (cstr(k), cstr(v)) for k, v in attrs),
                                  "; ".join("(%s)" % to_coq(k) for k in kids), cstr(text))


LEAVES = {"mi", "mo", "mn", "mtext", "ms", "mspace", "mglyph", "none", "annotation", "ci", "cn", "csymbol"}


def from_xml(s):
    """the library's mml_to_string output -> tree (attributes sorted by name)"""
    def conv(e):
        tag = e.tag.split("}")[-1]
        attrs = sorted((k.split("}")[-1], v) for k, v in e.attrib.items())
        kids = [conv(c) for c in e]
        text = (e.text or "") if tag in LEAVES and not kids else ""
        return (tag, attrs, kids, text)
    return conv(ET.fromstring(s))


def norm_tree(t):
    tag, attrs, kids, text = t
    return (tag, sorted(attrs), [norm_tree(k) for k in kids], text)


def bracket(t):
    """compact rendering of a tree for messages: [ a + [ b &it; c ] ]"""
    tag, attrs, kids, text = t
    inv = {"⁡": "&af;", "⁢": "&it;", "⁣": "&ic;", "⁤": "&ip;", " ": "&nbsp;"}
    if tag in LEAVES:
        return inv.get(text, text) or "<%s/>" % tag
    inner = " ".join(bracket(k) for k in kids)
    return "⟦ %s ⟧" % inner if tag == "mrow" else "%s( %s )" % (tag, inner)


# ---------------------------------------------------------------- generators
COMMON_OPS = ["+", "-", "−", "×", "⋅", "/", "=", "<", ">", "≤", ",", ";", ":", "!", "(", ")", "[", "]", "{", "}", "|", "‖",
              "∘", "^", "_", "→", "∈", "∑", "∫", "√", "¬", "∂", "′", "°", "%", ".", "±", "∓", "∪", "∩", "∧", "∨", "*", "'",
              "⁡", "⁢", "⁣", "⁤", "~", "∀", "∥", "⟨", "⟩", "⌊", "⌋", "&", "⊕", "⊗", "÷", "∣", "≠", "⇒", "∖", "!!", "++", "||"]
IDENTS = ["a", "b", "c", "x", "y", "z", "n", "k", "f", "g", "h", "F", "A", "B", "C", "sin", "cos", "log", "ln", "max", "Tr",
          "Sin", "_", "△", "e", "π", "dx", " x "]
NUMS = ["1", "2", "3", "12", "3.5", "0", "10", "007"]


class Gen:
    def __init__(self, rng, all_ops):
        self.rng = rng
        self.all_ops = all_ops

    def op_text(self):
        r = self.rng.random()
        if r < 0.75:
            return self.rng.choice(COMMON_OPS)
        if r < 0.97:
            return self.rng.choice(self.all_ops)
        return self.rng.choice(["⊛⊛", "??", "⦀", "⫿", "…"])      # mostly not in the dictionary

    def op(self, text=None):
        attrs = {}
        if self.rng.random() < 0.06:
            attrs["form"] = self.rng.choice(["prefix", "infix", "postfix", "Prefix", "bogus"])
        if self.rng.random() < 0.02:
            attrs["data-chemical-bond"] = "true"
        return mo(text if text is not None else self.op_text(), **attrs)

    def embellished(self, core, depth, levels=None):
        """an operator under 1-3 levels of scripts / accents (an embellished operator: the parser looks through them)"""
        out = core
        for _ in range(levels if levels is not None else self.rng.choice([1, 1, 2, 2, 3])):
            tag = self.rng.choice(["msup", "msub", "mover", "munder", "msubsup", "munderover"])
            kids = [out, self.arg(depth - 1)] + ([self.arg(depth - 1)] if tag in ("msubsup", "munderover") else [])
            out = T(tag, kids)
        return out

    def leaf_operand(self):
        r = self.rng.random()
        if r < 0.55:
            a = {}
            if self.rng.random() < 0.04:
                a["mathvariant"] = self.rng.choice(["bold", "italic", "double-struck", "normal"])
            if self.rng.random() < 0.02:
                # the library's own marker for a whitespace mo it turned into an mtext (it is only ever put on an NBSP mtext)
                return T("mtext", text="\u00a0", attrs=[("data-changed", "data-was-mo")])
            return mi(self.rng.choice(IDENTS), **a)
        if r < 0.9:
            return mn(self.rng.choice(NUMS))
        if r < 0.94:
            return mtext(self.rng.choice([" ", "if", " ", "  "]))
        if r < 0.97:
            return T("mspace", attrs=[("width", "1em")])
        return T("mi", text="", attrs=[("data-changed", "empty_content")])

    def operand(self, depth):
        r = self.rng.random()
        if depth <= 0 or r < 0.62:
            return self.leaf_operand()
        if r < 0.70:
            return T("mfrac", [self.arg(depth - 1), self.arg(depth - 1)])
        if r < 0.76:
            return T("msqrt", [self.arg(depth - 1)])
        if r < 0.86:
            tag = self.rng.choice(["msup", "msub", "mover", "munder"])
            base = self.op() if self.rng.random() < 0.25 else self.arg(depth - 1)
            if self.rng.random() < 0.08:
                base = self.embellished(self.op(), depth, self.rng.choice([1, 2]))
            return T(tag, [base, self.arg(depth - 1)])
        if r < 0.90:
            tag = self.rng.choice(["msubsup", "munderover"])
            base = self.op() if self.rng.random() < 0.3 else self.arg(depth - 1)
            return T(tag, [base, self.arg(depth - 1), self.arg(depth - 1)])
        if r < 0.95:
            return row(mo("("), *self.seq(depth - 1, self.rng.randint(1, 3)), mo(")"))
        return self.row(depth - 1)

    def arg(self, depth):
        """a child of a 2-D element: an operand, a bare operator or a row"""
        r = self.rng.random()
        if r < 0.5:
            return self.leaf_operand()
        if r < 0.58:
            return self.op()
        return self.row(depth)

    def seq(self, depth, n):
        """n 'terms' in one of several shapes"""
        shape = self.rng.random()
        out = []
        if shape < 0.45:            # operand (op operand)*, sometimes with a prefix or postfix operator
            for i in range(n):
                if i:
                    out.append(self.op())
                if self.rng.random() < 0.12:
                    out.append(self.op(self.rng.choice(["-", "+", "¬", "√", "∑", "!", "∂", "(", "|"])))
                out.append(self.operand(depth))
                if self.rng.random() < 0.12:
                    out.append(self.op(self.rng.choice(["!", "′", "°", "%", ")", "|", "'", "!!"])))
        elif shape < 0.65:          # juxtaposition (implied operators)
            for i in range(n):
                out.append(self.operand(depth))
                if self.rng.random() < 0.25:
                    out.append(self.op())
        elif shape < 0.8:           # fences
            l, r = self.rng.choice([("(", ")"), ("[", "]"), ("|", "|"), ("{", "}"), ("(", "]"), ("‖", "‖"), ("⟨", "⟩"), ("|", ")")])
            inner = self.seq(depth - 1, max(1, n - 1))
            out = [self.operand(depth)] if self.rng.random() < 0.5 else []
            close = self.op(r)
            if self.rng.random() < 0.35:
                close = self.embellished(close, depth)      # scripts / accents on the closing fence (one level is lifted onto the group)
            opn = self.op(l)
            if self.rng.random() < 0.08:
                opn = self.embellished(opn, depth, 1)
            out += [opn] + inner + [close]
            if self.rng.random() < 0.4:
                out += [self.op(), self.operand(depth)]
        else:                       # anything
            for i in range(n + 1):
                out.append(self.op() if self.rng.random() < 0.45 else self.operand(depth))
        return out

    def row(self, depth, **attrs):
        a = dict(attrs)
        if self.rng.random() < 0.05:
            a["intent"] = self.rng.choice(["foo($a)", ":prefix", "x"])
        if self.rng.random() < 0.05:
            a["id"] = "r%d" % self.rng.randint(0, 99)
        if self.rng.random() < 0.03:
            a["displaystyle"] = "true"
        return row(*self.seq(depth, self.rng.randint(1, 5)), **a)

    def top(self, depth):
        r = self.rng.random()
        if r < 0.7:
            return T("math", [self.row(depth)])
        if r < 0.8:
            return T("math", self.seq(depth, self.rng.randint(1, 4)))
        tag = self.rng.choice(["msup", "msub", "mfrac", "msqrt", "mover", "msubsup"])
        n = {"msqrt": 1, "msubsup": 3}.get(tag, 2)
        return T("math", [T(tag, [self.row(depth) for _ in range(n)])])


FIXED_ROWS = [
    [mi("a"), mo("+"), mi("b"), mo("×"), mi("c"), mo("-"), mi("d")],
    [mi("a"), mo("="), mi("b"), mo("+"), mi("c"), mo("<"), mi("d")],
    [mo("-"), mi("a"), mo("+"), mi("b")],
    [mi("n"), mo("!"), mo("!")],
    [mn("2"), mi("n"), mo("!"), mo("∂"), mi("y"), mo("+"), mn("1")],
    [mi("g"), mo("∘"), mi("f"), mo("("), mi("x"), mo("+"), mn("1"), mo(")")],
    [mi("f"), mo("("), mi("x"), mo(")")],
    [mi("sin"), mn("2"), mi("x"), mi("cos"), mn("3"), mi("y")],
    [mi("sin"), mo("-"), mn("2"), mi("x"), mi("y")],
    [mo("|"), mi("x"), mo("|"), mi("y"), mo("|"), mi("z"), mo("|")],
    [mo("|"), mo(")")],
    [mo("("), mi("x"), mo("+"), mi("y"), T("msup", [mo(")"), mn("2")])],
    [mo("("), mi("x"), mo("+"), mi("y"), T("msub", [T("msup", [mo(")"), mn("2")]), mi("k")])],
    [mo("["), mi("x"), T("msubsup", [T("mover", [mo("]"), mo("~")]), mi("i"), mi("j")])],
    [mi("f"), mo("("), mi("x"), T("mover", [T("msub", [mo(")"), mn("1")]), mo("^")]), mo("+"), mn("1")],
    [mi("x"), mtext(" "), mo(")")],
    [mn("2"), mn("3"), mo("/"), mn("4")],
    [mn("2"), T("mfrac", [mn("3"), mn("4")])],
    [mi("A"), mi("B"), mi("C")],
    [mo("("), mi("a"), mo(","), mi("b"), mo("]")],
    [mi("a"), mo("^"), mo("-"), mi("b"), mo("+"), mi("c")],
    [mo("("), mo("+"), mo(")"), mi("x")],
    [mi("x"), mo(")"), mo(")")],
    [mi("a"), mo("."), mi("b"), mo(".")],
    [mo("("), mi("a"), T("msup", [mo(")"), mn("2")])],
    [mi("f"), row(mo("("), mi("x"), mo(","), mi("y"), mo(")"))],
    [mi("a"), mo("+", form="prefix"), mi("b")],
    [mn("1"), mn("2"), row(mi("a"), mo("+"), mi("b")), mi("c")],
]


def cases(rng, n, all_ops):
    g = Gen(rng, all_ops)
    out = [T("math", [row(*r)]) for r in FIXED_ROWS]
    out += [T("math", [T("msup", [mi("x"), row(mn("1"), mn("2"))])])]
    # a row that ends up with one child (white space goes into an attribute): the child stands for the row, keeps what it
    # says itself and takes the rest from the row
    sp = T("mspace", attrs=[("width", "1em")])
    out += [T("math", [T("mrow", [T("mi", text="x", attrs=[("id", "x")]), sp], attrs=[("id", "r")])]),
            T("math", [T("mrow", [T("menclose", [mi("x")], attrs=[("id", "e"), ("notation", "box")]), sp], attrs=[("class", "k"), ("id", "r")])]),
            T("math", [T("msqrt", [T("mrow", [T("mfrac", [mi("a"), mi("b")], attrs=[("linethickness", "0")]), sp], attrs=[("mathcolor", "red")])])]),
            T("math", [T("mrow", [T("mo", text="-", attrs=[("form", "prefix"), ("mathcolor", "blue")]), sp], attrs=[("id", "r"), ("mathcolor", "red"), ("data-x", "1")])]),
            T("math", [T("mrow", [sp, T("mn", text="7", attrs=[("data-changed", "added"), ("id", "n")])], attrs=[("data-changed", "added"), ("id", "r")])]),
            T("math", [T("mrow", [T("mi", text="y", attrs=[("mathvariant", "bold")]), sp], attrs=[("intent", "f"), ("id", "r")])])]
    while len(out) < n:
        out.append(g.top(rng.randint(0, 3)))
    return out


# ---------------------------------------------------------------- tie: library (parser alone) vs model
def observe(trees):
    """[(trimmed input tree | None, outcome)] with outcome ('ok', tree) | ('panic', msg) | ('err', msg)"""
    ops = []
    for t in trees:
        x = to_xml(t)
        ops.append(["v_canon_stage", x, "trim"])
        ops.append(["v_canon_stage", x, "parse_rows"])
    # chunk the work over sessions (each a fresh thread)
    chunks = [ops[i:i + 200] for i in range(0, len(ops), 200)]
    pre = [["set_preference", "Language", "en"], ["set_mathml", "<math><mi>x</mi></math>"]]
    res = C.run_harness([{"id": i, "ops": [["set_rules_dir", C.RULES]] + pre + ch} for i, ch in enumerate(chunks)])
    out = []
    for r in res:
        if "res" not in r or len(r["res"]) < 3:
            raise RuntimeError("harness session failed: %r" % (r,))
        rr = r["res"][3:]
        for i in range(0, len(rr), 2):
            a, b = rr[i], rr[i + 1]
            if "ok" not in a:
                out.append((None, ("err", json.dumps(a))))
                continue
            tin = from_xml(a["ok"])
            if "ok" in b:
                out.append((tin, ("ok", from_xml(b["ok"]))))
            elif "panic" in b:
                out.append((tin, ("panic", b["panic"])))
            else:
                out.append((tin, ("err", b.get("err", ""))))
    return out


def obs_term(o):
    if o[0] == "ok":
        return "OOk (%s)" % to_coq(o[1])
    return "OPanic" if o[0] == "panic" else "OErr"


def write_obs(obs, plain=()):
    items = ["(%s, %s)" % (to_coq(t), obs_term(o)) for t, o in obs if t is not None]
    body = HEADER + "From MC Require Import Lib.Tree.\n"
    body += "Inductive obs := OOk (t : tree) | OPanic | OErr.\n"
    body += "Definition observations : list (tree * obs) := " + clist(items) + ".\n"
    body += "Definition plain_rows : list tree := " + clist(to_coq(t) for t in plain) + ".\n"
    C.write_if_changed(os.path.join(C.GEN, "C03Obs.v"), body)
    return len(items)


# ---------------------------------------------------------------- well-formed ("plain") rows and their reference parse
class Dict:
    """the operator dictionary as the property reads it: per text the forms it has, with priorities"""
    def __init__(self, entries):
        self.forms = {}
        for text, chain in entries:
            d = {}
            for ty, pr in chain:
                if ty & 1 and "prefix" not in d:
                    d["prefix"] = (pr, ty == 9)
                elif ty & 2 and "infix" not in d:
                    d["infix"] = (pr, False)
                elif ty & 4 and ty & 1 == 0 and "postfix" not in d:
                    d["postfix"] = (pr, ty == 12)
            self.forms[text] = d
        self.prefix_ops = sorted(t for t, d in self.forms.items() if "prefix" in d and not d["prefix"][1])
        self.postfix_ops = sorted(t for t, d in self.forms.items() if "postfix" in d and not d["postfix"][1] and "infix" not in d)
        self.infix_ops = sorted(t for t, d in self.forms.items() if "infix" in d and "postfix" not in d)
        self.left_fences = sorted(t for t, d in self.forms.items() if "prefix" in d and d["prefix"][1] and len(d) == 1)
        self.right_fences = sorted(t for t, d in self.forms.items() if "postfix" in d and d["postfix"][1] and len(d) == 1)


PLAIN_IDENTS = ["a", "b", "c", "x", "y", "z", "n", "k", "u", "v", "w", "p", "q"]      # lower case, no function names
PLAIN_INFIX = ["+", "-", "×", "⋅", "/", "=", "<", "≤", ",", ";", ":", "∘", "^", "→", "∈", "∪", "∩", "∧", "∨", "*", "⁢", "±", "⊕", "÷", "≠", "⇒", "∖", "&&"]
PLAIN_PREFIX = ["-", "+", "¬", "√", "∑", "∂", "∀", "!", "∫", "±"]
PLAIN_POSTFIX = ["!", "′", "°", "%", "'", "!!", "++"]


class PlainGen:
    """E ::= U (infix U | U)* ; U ::= prefix* A postfix* ; A ::= ident | number | ( E ) | [ E ]"""
    def __init__(self, rng, d):
        self.rng, self.d = rng, d

    def pick(self, common, all_, p_all=0.3):
        return self.rng.choice(all_) if self.rng.random() < p_all else self.rng.choice(common)

    def atom(self, depth):
        r = self.rng.random()
        if depth > 0 and r < 0.2:
            l, rr = self.rng.choice([("(", ")"), ("[", "]"), ("{", "}"), ("(", ")")])
            return [mo(l)] + self.expr(depth - 1, self.rng.randint(1, 3)) + [mo(rr)]
        if r < 0.65:
            return [mi(self.rng.choice(PLAIN_IDENTS))]
        return [mn(self.rng.choice(["1", "2", "3", "12", "3.5"]))]

    def unit(self, depth):
        out = []
        while self.rng.random() < 0.18:
            out.append(mo(self.pick(PLAIN_PREFIX, self.d.prefix_ops)))
        out += self.atom(depth)
        while self.rng.random() < 0.15:
            out.append(mo(self.pick(PLAIN_POSTFIX, self.d.postfix_ops)))
        return out

    def expr(self, depth, n):
        out = self.unit(depth)
        for _ in range(n):
            if self.rng.random() < 0.8:
                out.append(mo(self.pick(PLAIN_INFIX, self.d.infix_ops)))
            out += self.unit(depth)
        return out


# ---------------------------------------------------------------- reference parse of plain rows (the property's reading)
PM = {"+", "-"}
TIMES = {"×", "⁢"}


def nary(a, b):
    """a, b: (text, form)"""
    return a == b or (a[1] == b[1] == "infix" and ((a[0] in PM and b[0] in PM) or (a[0] in TIMES and b[0] in TIMES)))


def flat_single_arg(open_, following):
    if not following:
        return True
    close = {"(": ")", "[": "]"}[open_]
    f0 = following[0]
    if f0[0] == "mo" and f0[3] == close:
        return True
    return len(following) > 1 and f0[0] != "mrow" and following[1][0] == "mo" and following[1][3] == close


def flat_comma_arg(open_, following):
    close = {"(": ")", "[": "]"}[open_]
    if len(following) == 1:
        return False
    for t in following:
        if t[0] == "mo":
            if t[3] == ",":
                return True
            if t[3] == close:
                return False
    return False


MO_TEXT_ROW = {"\u02C9": "\u00AF", "\u0304": "\u00AF", "\u0305": "\u00AF", "\u02DC": "\u223C", "~": "\u223C", "\u01C1": "\u2016",
               "\u2212": "-"}


def canon_tokens(tokens):
    """canonicalize_mo_text for an operator that is a child of an mrow"""
    return [(t[0], t[1], t[2], MO_TEXT_ROW.get(t[3], t[3])) if t[0] == "mo" else t for t in tokens]


CAPS = ["N", "K", "C", "S", "P", "H", "O", "B", "F", "I", "U", "V", "W", "Y"]


def classify_plain(tokens, d, idents=None):
    """tokens: leaf trees.  Returns (items, why_not): items = [(kind, text, prio, form)] with kind in
    atom/pre/post/in/lf/rf (implied operators included, marked by text U+2061/U+2062), or None when the row is outside
    the plain fragment; 'kf:...' in why_not marks a known-finding class."""
    items, want, depth_stack = [], True, []
    n = len(tokens)
    for i, t in enumerate(tokens):
        tag, text = t[0], t[3]
        nxt = tokens[i + 1] if i + 1 < n else None

        def juxta():
            prev = tokens[i - 1]
            if prev[0] == "mi" and tag == "mo" and text in ("(", "[") and (
                    flat_single_arg(text, tokens[i + 1:]) or flat_comma_arg(text, tokens[i + 1:])):
                items.append(("in", "⁡", d.forms["⁡"]["infix"][0], "infix"))
            else:
                items.append(("in", "⁢", d.forms["⁢"]["infix"][0], "infix"))
        if tag == "mi" and text not in (idents or PLAIN_IDENTS):
            return None, "identifier outside the plain alphabet"
        if tag in ("mi", "mn"):
            if not want:
                if tokens[i - 1][0] == "mn" and tag == "mn":
                    return None, "adjacent numbers"
                juxta()
            items.append(("atom", text, None, None))
            want = False
            continue
        if tag != "mo":
            return None, "token " + tag
        f = d.forms.get(text)
        if f is None:
            return None, "not in the dictionary"
        if "prefix" in f and (want or ("infix" not in f and "postfix" not in f)):
            if not want:
                juxta()
            pr, fence = f["prefix"]
            if fence:
                items.append(("lf", text, pr, "prefix"))
                depth_stack.append(text)
            else:
                if nxt is None:
                    return None, "prefix operator at the end"
                if nxt[0] == "mo":
                    nf = d.forms.get(nxt[3], {})
                    if "prefix" not in nf:
                        return None, "prefix operator before a non-prefix operator"
                    if "infix" in nf:
                        return None, "kf:prefix-before-ambiguous-operator"
                items.append(("pre", text, pr, "prefix"))
            want = True
            continue
        if want:
            return None, "operator without a prefix form where an operand is expected"
        has_in, has_post = "infix" in f, "postfix" in f
        if has_post and f["postfix"][1] and not has_in:
            if not depth_stack:
                return None, "unbalanced right fence"
            depth_stack.pop()
            items.append(("rf", text, f["postfix"][0], "postfix"))
        elif has_in and not has_post:
            if nxt is None:
                return None, "infix operator at the end"
            items.append(("in", text, f["infix"][0], "infix"))
            want = True
        elif has_post and not has_in:
            if nxt is not None and nxt[0] in ("mi", "mn"):
                return None, "postfix operator before an operand"
            items.append(("post", text, f["postfix"][0], "postfix"))
        else:
            return None, "operator with both an infix and a postfix form"
    if want or depth_stack:
        return None, "incomplete"
    return items, None


def ref_parse(items):
    """nested lists of texts: the unique parse of the classified row by the dictionary priorities"""
    pos = [0]

    def peek():
        return items[pos[0]] if pos[0] < len(items) else None

    def absorbed(o, r0, c0):
        return o[2] > r0 or (o[2] == r0 and not (c0 is not None and nary((o[1], o[3]), c0)))

    def operand(r0, c0):
        t = peek()
        pos[0] += 1
        if t[0] == "pre":
            inner = operand(t[2], (t[1], t[3]))
            left = [t[1], inner]
        elif t[0] == "lf":
            if peek() is not None and peek()[0] == "rf":
                left = [t[1], peek()[1]]
            else:
                inner = operand(t[2], None)
                left = [t[1], inner, peek()[1]]
            pos[0] += 1
        else:
            left = t[1]
        while True:
            o = peek()
            if o is None or o[0] not in ("in", "post") or not absorbed(o, r0, c0):
                return left
            pos[0] += 1
            if o[0] == "post":
                left = [left, o[1]]
                continue
            kids, cls = [left, o[1]], (o[1], o[3])
            kids.append(operand(o[2], cls))
            while True:
                o2 = peek()
                if o2 is not None and o2[0] == "in" and o2[2] == o[2] and nary((o2[1], o2[3]), cls):
                    pos[0] += 1
                    kids.append(o2[1])
                    cls = (o2[1], o2[3])
                    kids.append(operand(o2[2], cls))
                else:
                    break
            left = kids
    r = operand(0, None)
    assert pos[0] == len(items), "reference parser stopped early"
    return r


def shape(t):
    """library output -> nested lists of texts (rows only; single-child rows and the math wrapper are transparent)"""
    tag, attrs, kids, text = t
    if tag in LEAVES:
        return text
    if tag in ("mrow", "math"):
        ks = [shape(k) for k in kids]
        return ks[0] if len(ks) == 1 else ks
    return [tag] + [shape(k) for k in kids]


def show(s):
    inv = {"⁡": "&af;", "⁢": "&it;", "⁣": "&ic;", "⁤": "&ip;"}
    return inv.get(s, s) if isinstance(s, str) else "⟦ " + " ".join(show(k) for k in s) + " ⟧"


def flatten_leaves(t):
    """leaf tokens of a tree made of math/mrow and leaves only; None when it contains anything else"""
    tag, attrs, kids, text = t
    if tag in ("mi", "mn", "mo"):
        return [t]
    if tag not in ("math", "mrow"):
        return None
    out = []
    for k in kids:
        f = flatten_leaves(k)
        if f is None:
            return None
        out += f
    return out


# ---------------------------------------------------------------- the check
KF_PREFIX = "prefix-before-ambiguous-operator"


def plain_rows(rng, n, d, depth=2):
    """n rows of the plain fragment: (tokens, items, why) with why a known-finding class or None"""
    g, out = PlainGen(rng, d), []
    tries = 0
    while len(out) < n and tries < 40 * n:
        tries += 1
        r = g.expr(depth, rng.randint(1, 6))
        items, why = classify_plain(canon_tokens(r), d)
        if items is not None:
            out.append((r, items, None))
    return out


LADDER = [",", ":", "∴", "=", "+", "⋅", "∧"]          # reference operators spread over the priority range


def special_cased_ops(d):
    """dictionary operators that the parser source mentions by name (string literals of canonicalize.rs): the ones whose
    priority or form can be decided by context"""
    src = C.read(os.path.join(C.REPO, "src", "canonicalize.rs"))
    lits = set(re.findall(r'"([^"\\\n]{1,2})"', src)) | set(re.findall(r"'([^'\\\n])'", src))
    return sorted(x for x in lits if x in d.forms and "infix" in d.forms[x])


def sweep_rows(rng, d, tier):
    """x OP y REF z and x REF y OP z for infix operators OP against a ladder of reference operators: a contextual
    priority that disagrees with the dictionary shows as a misnested row (quick: the operators the parser source names
    plus a seeded sample; thorough: every infix operator)"""
    ops = special_cased_ops(d)
    rest = [o for o in d.infix_ops if o not in ops]
    if tier == "quick":
        rng.shuffle(rest)
        rest = rest[:60]
    ops = ops + rest
    out = []
    for op in ops:
        refs = LADDER if (tier != "quick" or op in ops[:40]) else rng.sample(LADDER, 2)
        for ref in refs:
            if ref == op:
                continue
            a, b, c = (mi(x) for x in rng.sample(PLAIN_IDENTS, 3))
            out.append(T("math", [row(a, mo(op), b, mo(ref), c)]))
            out.append(T("math", [row(a, mo(ref), b, mo(op), c)]))
    # juxtaposition (an implied operator) right after and right before each operator: a OP b c, a b OP c, 1 OP 2 x, and
    # the same inside a script
    for op in ops:
        a, b, c = (mi(x) for x in rng.sample(PLAIN_IDENTS, 3))
        out.append(T("math", [row(a, mo(op), b, c)]))
        out.append(T("math", [row(a, b, mo(op), c)]))
        out.append(T("math", [row(mn("1"), mo(op), mn("2"), a)]))
        if tier != "quick" or op in ops[:40]:
            out.append(T("math", [T("msup", [mi("e"), row(a, mo(op), mn("4"), b, c)])]))
            out.append(T("math", [row(a, mo(op), b, c, mo("="), mi("e"))]))
    return out


def generate(res):
    entries, sets = gen_tables(res)
    seed = res.seed if res else 1
    tier = res.tier if res else "quick"
    rng = random.Random(seed * 7919 + 3)
    d = Dict(entries)
    n_mixed, n_plain = (250, 250) if tier == "quick" else (2500, 2500)
    mixed = cases(rng, n_mixed, [t for t, _ in entries]) + sweep_rows(rng, d, tier)
    plain = plain_rows(rng, n_plain, d)
    # juxtaposition next to every swept operator, as plain rows (the reference parse gives the implied operator its dictionary priority)
    sw = special_cased_ops(d)
    for op in sw + [o for o in PLAIN_INFIX if o not in sw]:
        for r in ([mi("a"), mo(op), mi("b"), mi("c")], [mi("a"), mi("b"), mo(op), mi("c")], [mn("1"), mo(op), mn("2"), mi("x")],
                  [mi("a"), mo(op), mi("b"), mi("c"), mi("u"), mo("="), mi("w")], [mi("a"), mo("+"), mi("b"), mo(op), mn("2"), mi("x"), mi("y")]):
            items, why = classify_plain(canon_tokens(r), d)
            if items is not None:
                plain.append((r, items, None))
    trees = mixed + [T("math", [row(*r)]) for r, _, _ in plain]
    obs = observe(trees)
    plain_in = [t for t, _ in obs[len(mixed):] if t is not None]
    n = write_obs(obs, plain_in)
    if res is not None:
        import collections
        res.extra["tie_cases"] = n
        res.extra["tie_outcomes"] = dict(collections.Counter(o[0] for _, o in obs))
        res.extra["plain_rows"] = len(plain_in)
        res.extra["row_lengths"] = dict(collections.Counter(min(len(flatten_leaves(t) or []), 20) for t, _ in obs if t is not None))
    return d, mixed, plain, obs


def emb_base_t(t):
    while t[0] in ("msub", "msup", "msubsup", "munder", "mover", "munderover", "mmultiscripts") and t[2]:
        t = t[2][0]
    return t


def is_added_row(t):
    return t[0] == "mrow" and ("data-changed", "added") in t[1]


def row_infix_prio(t, d):
    """(priority, text) of the infix operator of a parsed row e0 o1 e1 ..., or None when the row is not of that shape
    or the priority the parser used cannot be read off the dictionary (invisible operators may carry a synthetic one)"""
    kids = t[2]
    if len(kids) < 3 or len(kids) % 2 == 0:
        return None
    if emb_base_t(kids[0])[0] == "mo" or emb_base_t(kids[-1])[0] == "mo":
        return None
    o = emb_base_t(kids[1])
    if o[0] != "mo" or o[3] in ("⁢", "⁣", "⁤", " ") or ("data-chemical-bond", "true") in o[1] or any(k == "form" for k, _ in o[1]):
        return None
    f = d.forms.get(o[3], {})
    if "infix" not in f:
        return None
    return f["infix"][0], o[3]


def nested_violations(t, d, out=None):
    """parser-inserted infix rows nested in an infix row of higher priority"""
    out = [] if out is None else out
    if t[0] == "mrow":
        pr = row_infix_prio(t, d)
        if pr is not None:
            for k in t[2]:
                if is_added_row(k):
                    pk = row_infix_prio(k, d)
                    if pk is not None and pk[0] < pr[0] and not (pr[1] == "/" and False):
                        out.append("row of %r (priority %d) inside row of %r (priority %d)" % (pk[1], pk[0], pr[1], pr[0]))
    for k in t[2]:
        nested_violations(k, d, out)
    return out


def separated_violations(t, out=None):
    out = [] if out is None else out
    if t[0] == "mrow":
        ks = t[2]
        for a, b in zip(ks, ks[1:]):
            if emb_base_t(a)[0] != "mo" and emb_base_t(b)[0] != "mo":
                out.append("adjacent operands %s %s" % (bracket(a)[:30], bracket(b)[:30]))
    for k in t[2]:
        separated_violations(k, out)
    return out


FN_ROWS = [   # function application next to high-priority operators (the heuristics are outside the plain fragment)
    [mi("g"), mo("∘"), mi("f"), mo("("), mi("x"), mo("+"), mn("1"), mo(")")],
    [mi("g"), mo("∘"), mi("f"), mo("("), mi("x"), mo(","), mi("y"), mo(")")],
    [mi("a"), mo("⋄"), mi("sin"), mo("("), mn("2"), mi("x"), mo(")")],
    [mi("a"), mo("^"), mi("f"), mo("("), mi("x"), mo("+"), mn("1"), mo(")")],
    [mi("sin"), mi("x"), mo("+"), mi("cos"), mi("y")],
    [mi("f"), mo("("), mi("x"), mo(")"), mo("!")],
    [mn("2"), mi("n"), mo("!"), mo("∂"), mi("y"), mo("+"), mn("1")],
    [mi("n"), mo("!"), mo("!")],
]


def oracle(res, d, plain, obs, n_mixed):
    """library against the property's reading; returns the number of violations found"""
    found = 0
    # A: the parser alone on plain rows == the reference parse
    for (r, items, _), (tin, o) in zip(plain, obs[n_mixed:]):
        exp = ref_parse(items)
        got = shape(o[1]) if o[0] == "ok" else None
        res.add_case("parser:" + show([t[3] for t in r]), len(items) > 4, show([t[3] for t in r])[:80])
        if got != exp:
            found += 1
            rep = {"kind": "plain-row", "stage": "parse_rows", "mathml": to_xml(T("math", [row(*r)])),
                                     "expected": show(exp), "got": show(got) if got is not None else repr(o)}
            res.violation("plain row %s parses as %s, the dictionary priorities give %s" % (show([t[3] for t in r]), show(got) if got is not None else o[0], show(exp)), rep)
            if found >= 3:
                return found
    # structural invariants on every parser-level observation
    for tin, o in obs:
        if o[0] != "ok" or tin is None:
            continue
        v = nested_violations(o[1], d) + separated_violations(o[1])
        res.add_case("structure", False)
        if v:
            found += 1
            rep = {"kind": "structure", "stage": "parse_rows", "mathml": to_xml(tin), "what": v[:3], "got": bracket(o[1])}
            res.violation("%s in the parse of %s" % (v[0], bracket(tin)[:120]), rep)
            if found >= 3:
                return found
    # B: the whole pipeline: plain rows that clean-up leaves alone, and function-application rows
    rng = random.Random(res.seed * 31 + 5)
    g = PlainGen(rng, d)
    # rows whose operands are capital letters that are also element symbols, with operators that can be bonds: looked at as
    # chemistry first, parsed again when they are not
    caps = CAPS
    bonds = ["-", "⋅", ":", "≡", "=", "+", "×", "<"]
    chem_like = []
    for _ in range(60 if res.tier == "quick" else 600):
        r = []
        for i in range(rng.randint(2, 4)):
            if i:
                r.append(mo(rng.choice(bonds)))
            r.append(mi(rng.choice(caps)) if rng.random() < 0.7 else mn(rng.choice(["1", "2", "12"])))
        chem_like.append(r)
    chem_like += [[mi("N"), mo("-"), mi("K"), mo("⋅"), mn("2")], [mi("N"), mo("≡"), mi("C"), mo("-"), mn("1")], [mi("S"), mo(":"), mi("N"), mo("-"), mn("1")],
                  [mn("280"), mo("-"), mi("K"), mo("⋅"), mn("390")]]
    rows = [g.expr(2, rng.randint(1, 5)) for _ in range(400 if res.tier == "quick" else 4000)] + FN_ROWS + chem_like
    sess = [{"id": k, "ops": [["set_rules_dir", C.RULES], ["v_canon_stage", to_xml(T("math", [row(*r)])), "clean"],
                              ["set_mathml", to_xml(T("math", [row(*r)]))]]} for k, r in enumerate(rows)]
    out = C.run_harness(sess)
    for r, rr in zip(rows, out):
        if "res" not in rr or len(rr["res"]) < 3:
            continue
        a, o = rr["res"][1], rr["res"][2]
        if "ok" not in a or "ok" not in o:
            continue
        tree = from_xml(o["ok"])
        v = nested_violations(tree, d) + separated_violations(tree)
        if v:
            found += 1
            rep = {"kind": "structure", "stage": "set_mathml", "mathml": to_xml(T("math", [row(*r)])), "what": v[:3], "got": bracket(tree)}
            res.violation("%s in the canonical MathML of %s" % (v[0], show([t[3] for t in r])), rep)
            if found >= 3:
                return found
        toks = flatten_leaves(from_xml(a["ok"]))
        if toks is None:
            continue
        if "data-chem" in o["ok"] or "chemical" in o["ok"]:
            continue          # taken for chemistry: its own structure
        items, why = classify_plain(canon_tokens(toks), d, idents=PLAIN_IDENTS + CAPS)
        if items is None:
            if why and why.startswith("kf:"):
                res.extra["known_class_rows"] = res.extra.get("known_class_rows", 0) + 1
            continue
        res.add_case("pipeline:" + show([t[3] for t in r]), len(items) > 4, show([t[3] for t in r])[:80])
        exp, got = ref_parse(items), shape(tree)
        if exp != got:
            found += 1
            rep = {"kind": "plain-row", "stage": "set_mathml", "mathml": to_xml(T("math", [row(*r)])),
                                     "expected": show(exp), "got": show(got)}
            res.violation("plain row %s is bracketed %s, the dictionary priorities give %s" % (show([t[3] for t in r]), show(got), show(exp)), rep)
            if found >= 3:
                return found
    return found


def known_findings_pass(res, d):
    """the recorded finding: a prefix operator followed by an operator that also has an infix form keeps its infix priority"""
    kf = {k["id"]: k for k in C.known_findings("C03")}
    if KF_PREFIX not in kf:
        return
    r = [mo("-"), mo("-"), mi("a"), mo("×"), mi("b")]
    o = C.one_session([["set_mathml", to_xml(T("math", [row(*r)]))]])["res"][0]
    if "ok" in o and shape(from_xml(o["ok"])) == ["-", [["-", "a"], "×", "b"]]:
        res.known("%s: '- - a × b' is bracketed %s (the first minus is parsed with its infix priority)" % (KF_PREFIX, show(shape(from_xml(o["ok"])))))
    else:
        res.extra["known_finding_gone"] = KF_PREFIX


def run(res):
    res.rule = ("rows: 24 fixed + seeded mixed rows (operands, all ~1300 dictionary operators weighted to the common ones, form attributes, "
                "embellished operators, fences, whitespace, nested and 2-D children) and seeded plain rows (E ::= U (infix U | U)*, "
                "U ::= prefix* A postfix*, A ::= identifier | number | fenced E); parser hook vs model on all of them; plain rows vs the "
                "reference parse at the parser and through set_mathml; non-trivial = plain rows with more than four tokens")
    d, mixed, plain, obs = generate(res)

    def on_broken(log):
        return oracle(res, d, plain, obs, len(mixed)) > 0
    proved = C.check_proofs(res, "C03", ["Props/C03.vo", "Tie/C03Tie.vo"], "Props/C03.v", search=on_broken)
    if proved:
        oracle(res, d, plain, obs, len(mixed))
    known_findings_pass(res, d)
    res.trusted += ["python's unicodedata for char::is_uppercase and the regex class \\\\d (Gen/ParserDefs.v)",
                    "the speech definition sets are read from the running library (Language=en)",
                    "well_placed is an executable predicate that follows the classifier; its link to the syntactic plain fragment is "
                    "checked on the generated plain rows (Tie/C03Tie.v plain_rows_are_well_placed), not proved for all rows"]
    res.assumptions += ["chemistry marks (data-maybe-chemistry) are outside the model: canonicalize_mrows returns Err 100 for trees that carry them",
                        "clean_mathml is not part of this model (C01/C02); the pipeline-level oracle only uses rows that clean-up leaves unchanged"]


def replay(path):
    rep = json.load(open(path, encoding="utf-8"))
    ok, log = C.build_harness()
    if not ok:
        print("harness build failed", log)
        return 2
    if rep.get("kind") in ("plain-row", "structure"):
        entries = C.translate(None, "c03-opdict", "src/operator-info.in", lambda: G.parse_opdict(C.read(os.path.join(C.REPO, "src", "operator-info.in"))))
        d = Dict(entries)
        if rep["stage"] == "set_mathml":
            o = C.one_session([["set_mathml", rep["mathml"]]])["res"][0]
        else:
            o = C.one_session([["set_preference", "Language", "en"], ["set_mathml", "<math><mi>x</mi></math>"],
                               ["v_canon_stage", rep["mathml"], "parse_rows"]])["res"][2]
        if "ok" not in o:
            print(json.dumps(o)[:500])
            return 1
        tree = from_xml(o["ok"])
        print("input   ", rep["mathml"])
        print("got     ", bracket(tree))
        if rep["kind"] == "structure":
            v = nested_violations(tree, d) + separated_violations(tree)
            print("violations", v)
            return 1 if v else 0
        print("expected", rep["expected"])
        return 0 if show(shape(tree)) == rep["expected"] else 1
    print("replay names a broken obligation, not an input:", rep.get("what"))
    return 1
