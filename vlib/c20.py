"""C20 -- braille highlighting and cursor routing are safe and side-effect free.
Coq: theorems about the highlight arithmetic for every string (Props/C20.v); tie: the nested
highlight_braille_chars (hook) vs the model on seeded strings (Tie/C20Tie.v).
Library oracle (search + support): for every node id and every cell position of generated expressions, in every
braille code and highlight style: bounds, ids, only dots 7-8 differ, purity (preferences, navigation position,
later braille and speech unchanged), Off / unknown id give exactly the unhighlighted braille."""
import html
import json
import os
import random
import re
import sys

from . import common as C
from . import exprs as X

sys.path.insert(0, C.VERIF)
from gen import c20 as G
from gen.coqfmt import HEADER, clist, cstr

CODES = ["Nemeth", "UEB", "CMU", "Vietnam", "Swedish", "LaTeX", "ASCIIMath"]
STYLES = ["EndPoints", "All", "FirstChar", "Off"]


def rand_string(rng):
    n = rng.randint(0, 14)
    out = []
    if rng.random() < 0.2:
        out += ["⠰"] * rng.choice([2, 3])
    special = [0x20, 0x3C, 0x38, 0x08, 0x28, 0x30, 0x06, 0x10, 0x18, 0x02, 0x32]
    for _ in range(n):
        r = rng.random()
        if r < 0.45:
            c = 0x2800 + (rng.choice(special) if rng.random() < 0.7 else rng.randint(0, 63))
        elif r < 0.75:
            c = 0x2800 + (rng.choice(special) if rng.random() < 0.5 else rng.randint(0, 63)) + 0xC0
        elif r < 0.85:
            c = rng.choice([0x28FF, 0x283F, 0x2840, 0x28BF, 0x28C0])
        else:
            c = rng.choice([0x62, 0x20, 0xE9, 0x4E2D, 0x1F600, 0x1D44F])
        out.append(chr(c))
    return "".join(out)


def generate(res):
    src = C.read(os.path.join(C.REPO, "src", "braille.rs"))
    t = C.translate(res, "c20", "highlight cell sets of braille.rs", lambda: G.parse_source(src))
    C.write_if_changed(os.path.join(C.GEN, "HighlightTabs.v"), G.render(t))
    ok, log = C.build_harness()
    if not ok:
        raise RuntimeError("harness build failed: " + log)
    seed = res.seed if res else 1
    tier = res.tier if res else "quick"
    rng = random.Random(seed * 5501 + 20)
    n = 700 if tier == "quick" else 6000
    cases = [(rand_string(rng), rng.choice(["Nemeth", "UEB", "CMU"]), rng.random() < 0.5) for _ in range(n)]
    cases += [("⠈⠈⣭⠬⣂", "Nemeth", False), ("⠠⠠⣭⠬⠂", "Nemeth", True), ("⠰⠰⠰⠠⣭⠬⣂", "UEB", True), ("😀⠖⠭⠖⠼⣁⣃", "CMU", False),
              ("⠼⠆⠨⣭", "UEB", False), ("⠰⠰⣭", "UEB", True), ("⠆⠈⣭", "UEB", True), ("⠐⠼⠆⣭⣭", "UEB", True), ("", "UEB", True)]
    r = C.one_session([["v_highlight_chars", s, c, f] for s, c, f in cases])["res"]
    items, obs = [], []
    for (s, c, f), x in zip(cases, r):
        b = lambda v: "true" if v else "false"
        if "ok" in x:
            o = x["ok"]
            rt = "Some (%s, %d, %d)" % (cstr(o[0]), o[1], o[2])
        elif "panic" in x:
            rt = "None"
        else:
            continue
        items.append("(%s, %s, %s, %s, %s)" % (cstr(s), b(c == "Nemeth"), b(c == "UEB"), b(f), rt))
        obs.append((s, c, f, x))
    C.write_if_changed(os.path.join(C.GEN, "C20Obs.v"),
                       HEADER + "Definition observations : list (list N * bool * bool * bool * option (list N * N * N)) := " + clist(items) + ".\n")
    if res is not None:
        res.extra["gen_sources"] = [{"file": "src/braille.rs", "tables": {k: (len(v) if isinstance(v, list) else v) for k, v in t.items()}}]
        res.extra["tie_cases"] = len(items)
    return obs


def unhl(s):
    return "".join(chr(ord(c) & 0x283F) if 0x28C0 <= ord(c) <= 0x28FF else c for c in s)


def api_oracle(res, rng):
    bodies = list(X.FIXED[:12]) + ["<mrow><mi>x</mi><mo>=</mo><mi>&#x221E;</mi></mrow>", "<mrow><mi>a</mi><mo>&#x2261;</mo><mi>b</mi></mrow>",
                                   "<mrow><mi>&#x1F600;</mi><mo>+</mo><mi>x</mi><mo>+</mo><mn>12</mn></mrow>",
                                   "<mrow><mn>2</mn><mi>sin</mi><mo>&#x2061;</mo><mi>x</mi><mo>+</mo><mi>arcsin</mi><mo>&#x2061;</mo><mn>1234</mn><mo>&#x2264;</mo><mtext>if so</mtext></mrow>"]
    bodies += [X.gen(rng, 2) for _ in range(4 if res.tier == "quick" else 40)]
    combos = [(c, s) for c in CODES for s in STYLES]
    if res.tier == "quick":
        combos = [cs for k, cs in enumerate(combos) if k % 2 == res.seed % 2 or cs[1] == "Off"]
    # pass 1: learn ids and braille length per (expr, code)
    pre = []
    for b in bodies:
        for code in CODES:
            pre.append({"id": len(pre), "ops": [["set_rules_dir", C.RULES], ["set_preference", "BrailleCode", code],
                                               ["set_preference", "BrailleNavHighlight", "Off"], ["set_mathml", X.math(b)], ["get_braille", ""]]})
    pout = C.run_harness(pre)
    info = {}
    k = 0
    for b in bodies:
        for code in CODES:
            rs = pout[k].get("res", [])
            k += 1
            if len(rs) == 5 and "ok" in rs[3] and "ok" in rs[4]:
                canon = C.norm_ids(rs[3]["ok"])
                info[(b, code)] = (re.findall(r"\bid='([^']*)'", canon), rs[4]["ok"],
                                   [(i_, html.unescape(t_)) for _, i_, t_ in re.findall(r"<(mi|mn|mo|mtext)\b[^>]*\bid='([^']*)'[^>]*>([^<]*)</", canon)])
    sessions, meta = [], []
    for b in bodies:
        for code, style in combos:
            if (b, code) not in info:
                continue
            ids, b0, toks = info[(b, code)]
            n = len(b0)
            ops = [["set_rules_dir", C.RULES], ["set_preference", "BrailleCode", code], ["set_preference", "BrailleNavHighlight", style],
                   ["set_mathml", X.math(b)], ["get_braille", ""], ["get_spoken_text"], ["v_prefs_dump"]]
            plan = []
            if rng.random() < 0.7:
                ops.append(["do_navigate_command", rng.choice(["ZoomIn", "MoveNext", "ZoomInAll"])])
                plan.append(("nav",))
                if rng.random() < 0.5:
                    ops.append(["do_navigate_command", rng.choice(["ZoomIn", "MoveNext", "MoveEnd"])])
                    plan.append(("nav",))
            ops.append(["get_navigation_mathml_id"])
            plan.append(("navid",))
            for nid in ids:
                ops.append(["v_get_braille_norm", nid])
                plan.append(("hb", nid))
            ops.append(["v_get_braille_norm", "no-such-id"])
            plan.append(("hb_unknown",))
            ops.append(["get_braille_position"])
            plan.append(("pos",))
            # the braille of the navigation node alone: a query like the others (asked twice: the answers agree)
            ops += [["get_navigation_braille"], ["get_navigation_braille"]]
            plan += [("navbr", 1), ("navbr", 2)]
            positions = list(range(0, n + 2)) if res.tier == "thorough" or n <= 12 else sorted(set([0, n - 1, n, n + 1] + [rng.randrange(n) for _ in range(8)]))
            for p in positions:
                ops.append(["get_navigation_node_from_braille_position", p])
                plan.append(("route", p))
            ops += [["v_prefs_dump"], ["get_navigation_mathml_id"], ["get_braille", ""], ["get_spoken_text"]]
            # the braille position of EVERY position navigation can be at: each token at each character offset inside
            # its text (set_navigation_node moves the position, so this sweep comes after the purity comparison)
            sweep = []
            cand = [(i_, t_) for i_, t_ in toks if len(t_) > 1] + [(i_, t_) for i_, t_ in toks if len(t_) == 1][:2]
            for i_, t_ in (cand if res.tier == "thorough" else cand[:5]):
                for k_ in sorted({0, 1, len(t_) // 2, len(t_) - 1} & set(range(len(t_)))):
                    ops += [["v_set_navigation_node_norm", i_, k_], ["get_braille_position"], ["get_braille", ""]]
                    sweep.append((i_, t_, k_))
            sessions.append({"id": len(sessions), "ops": ops})
            meta.append((b, code, style, ids, plan, sweep))
    out = C.run_harness(sessions)
    nv = 0
    for (b, code, style, ids, plan, sweep), r in zip(meta, out):
        rs = r.get("res", [])
        rep = {"kind": "api", "mathml": X.math(b), "code": code, "style": style}
        if len(rs) != 7 + len(plan) + 4 + 3 * len(sweep):
            res.violation("session crashes (braille %s, highlight %s)" % (code, style), dict(rep, results=r))
            nv += 1
            continue
        b0 = rs[4].get("ok")
        sp0, dump0 = rs[5], rs[6]
        n = len(b0) if b0 is not None else 0
        navid_before = None
        navbr_first = None
        for (st, x) in zip(plan, rs[7:7 + len(plan)]):
            kind = st[0]
            key = (code, style, kind)
            res.add_case(key + ((b,) if kind in ("hb", "route") else ()), nontrivial=("ok" in x),
                         sample={"code": code, "style": style, "op": st, "result": x.get("ok")} if len(res.samples) < 6 and kind == "hb" and "ok" in x and x["ok"] != b0 else None)
            if "panic" in x:
                res.violation("%s panics (braille %s, highlight %s): %s" % (st, code, style, x["panic"]), dict(rep, op=st, observed=x))
                nv += 1
                continue
            if kind == "navbr":
                if st[1] == 1:
                    navbr_first = x
                elif x != navbr_first:
                    res.violation("get_navigation_braille asked twice gives %r and then %r" % (str(navbr_first)[:80], str(x)[:80]), dict(rep, op=st, observed=[navbr_first, x]))
                    nv += 1
            elif kind == "navid":
                navid_before = x
            elif kind == "hb":
                hb = x.get("ok")
                if hb is None:
                    res.violation("get_braille(%s) fails for an id of the expression: %r" % (st[1], x), dict(rep, op=st, observed=x))
                    nv += 1
                elif unhl(hb) != unhl(b0) or len(hb) != len(b0):
                    # not demanded by the property (the clean-up may treat highlighted cells differently, e.g. no UEB
                    # contraction inside a highlighted word): counted in the evidence only
                    res.extra["highlight_changes_cells"] = res.extra.get("highlight_changes_cells", 0) + 1
                elif style == "Off" and hb != b0:
                    res.violation("BrailleNavHighlight=Off but get_braille(id) differs from the unhighlighted braille", dict(rep, op=st, plain=b0, highlighted=hb))
                    nv += 1
            elif kind == "hb_unknown":
                if x.get("ok") != b0:
                    res.violation("get_braille with an id that is not in the expression is not the unhighlighted braille", dict(rep, op=st, plain=b0, observed=x))
                    nv += 1
            elif kind == "pos":
                if "ok" not in x:
                    res.violation("get_braille_position fails: %r" % (x,), dict(rep, observed=x))
                    nv += 1
                else:
                    s_, e_ = x["ok"]
                    if not (0 <= s_ <= e_ <= n):
                        res.violation("get_braille_position (%d, %d) is outside the braille string of length %d" % (s_, e_, n), dict(rep, observed=x, braille=b0))
                        nv += 1
            elif kind == "route":
                p = st[1]
                if "ok" in x:
                    rid = C.norm_ids(x["ok"][0])
                    if rid not in ids:
                        res.violation("routing from cell %d returns id %r which is not in the expression" % (p, rid), dict(rep, op=st, observed=x))
                        nv += 1
                elif p < n:
                    res.violation("routing from cell %d (inside the braille, length %d) fails: %r" % (p, n, x), dict(rep, op=st, observed=x))
                    nv += 1
            if nv >= 6:
                return nv
        tail = rs[7 + len(plan):]
        if tail[0] != dump0:
            d0 = {(a[0], a[1]): a[3] for a in dump0.get("ok", [])}
            d1 = {(a[0], a[1]): a[3] for a in tail[0].get("ok", [])}
            diff = {str(k_): (d0.get(k_), d1.get(k_)) for k_ in set(d0) | set(d1) if d0.get(k_) != d1.get(k_)}
            res.violation("braille queries changed preferences: %r" % (diff,), dict(rep, diff=diff))
            nv += 1
        if navid_before is not None and tail[1] != navid_before:
            res.violation("braille queries moved the navigation position %r -> %r" % (navid_before, tail[1]), rep)
            nv += 1
        if tail[2].get("ok") != b0 or tail[3] != sp0:
            res.violation("braille/speech output changed after highlight / position / routing queries", dict(rep, before=[b0, sp0], after=tail[2:4]))
            nv += 1
        for j_, (i_, t_, k_) in enumerate(sweep):
            sn, ps, br = tail[4 + 3 * j_:7 + 3 * j_]
            res.add_case((code, style, "pos-at", b, i_, k_), nontrivial=(k_ > 0))
            srep = dict(rep, op=["set_navigation_node", i_, k_], token=t_, observed=[sn, ps])
            if "panic" in sn or "panic" in ps or "panic" in br:
                res.violation("set_navigation_node(%s, %d) / get_braille_position panics" % (i_, k_), srep)
                nv += 1
            elif "ok" not in sn:
                res.violation("set_navigation_node(%s, %d) fails for a token of the expression and an offset inside its text %r: %r" % (i_, k_, t_, sn), srep)
                nv += 1
            elif "ok" not in ps:
                res.violation("get_braille_position fails at token %s offset %d: %r" % (i_, k_, ps), srep)
                nv += 1
            else:
                s_, e_ = ps["ok"]
                ln = len(br.get("ok") or "")
                if not (0 <= s_ <= e_ <= ln):
                    res.violation("get_braille_position at token %r offset %d is (%d, %d): not start <= end <= length %d" % (t_, k_, s_, e_, ln), dict(srep, braille=br.get("ok")))
                    nv += 1
            if nv >= 6:
                return nv
        if nv >= 6:
            return nv
    return nv


def route_observations(res, rng):
    """Gen/RouteObs.v: per (expression, braille code) the annotated tree of the routing search (hook) and the answer of
    get_navigation_node_from_braille_position for every cell position"""
    bodies = list(X.FIXED[:10]) + [X.gen(rng, 3, kinds=X.MORE_KINDS) for _ in range(8 if res.tier == "quick" else 80)]
    bodies += ["<mrow><mi>A</mi><mi>B</mi><mi>C</mi><mi>D</mi><mi>E</mi></mrow>",
               "<mrow><mtext>&#x65E5;&#x672C;&#x8A9E;&#x65E5;&#x672C;&#x8A9E;</mtext><mo>+</mo><mi>A</mi><mo>&#x2062;</mo><mi>B</mi><mo>&#x2264;</mo><mn>12345</mn></mrow>",
               "<mrow><mi>&#x1F600;&#x1F600;</mi><mfrac><mi>A</mi><mi>B</mi></mfrac><msup><mi>Q</mi><mn>2</mn></msup><mi>x</mi></mrow>"]
    sessions, meta = [], []
    for b in bodies:
        for code in (CODES if res.tier != "quick" else [rng.choice(CODES[:5]), rng.choice(CODES)]):
            ops = [["set_rules_dir", C.RULES], ["set_preference", "BrailleCode", code], ["set_mathml", X.math(b)], ["get_braille", ""], ["v_route_dump", True],
                   ["get_navigation_node_from_braille_position", 0], ["v_take_route_dump"], ["v_route_dump", False]]
            sessions.append({"id": len(sessions), "ops": ops})
            meta.append((b, code))
    first = C.run_harness(sessions)
    sessions2, meta2 = [], []
    for (b, code), r in zip(meta, first):
        rs = r.get("res") or []
        if len(rs) != 8 or "ok" not in rs[3] or not isinstance(rs[6].get("ok"), dict):
            continue
        n = len(rs[3]["ok"])
        d = rs[6]["ok"]
        ops = [["set_rules_dir", C.RULES], ["set_preference", "BrailleCode", code], ["set_mathml", X.math(b)]]
        positions = list(range(0, n + 2))
        for p in positions:
            ops.append(["get_navigation_node_from_braille_position", p])
        sessions2.append({"id": len(sessions2), "ops": ops})
        meta2.append((b, code, d, positions))
    items, cases = [], []
    for (b, code, d, positions), r in zip(meta2, C.run_harness(sessions2)):
        rs = (r.get("res") or [])[3:]
        if len(rs) != len(positions):
            continue
        nodes = d["nodes"]
        idnum = {C.norm_ids(d["math"]): 0}
        for k, nd in enumerate(nodes):
            idnum.setdefault(C.norm_ids(nd[0]), k + 1)
        pos = [0]

        def term():
            i_, leaf, st, en, est, nk = nodes[pos[0]]
            k = pos[0] + 1
            pos[0] += 1
            kids = [term() for _ in range(nk)]
            return "(RT %d %s %d %d %d [%s])" % (k, "true" if leaf else "false", st, en, est, "; ".join(kids))
        t = term()
        answers = []
        for p, x in zip(positions, rs):
            if "ok" in x and C.norm_ids(x["ok"][0]) in idnum:
                answers.append("(%d, Some (%d, %d))" % (p, idnum[C.norm_ids(x["ok"][0])], x["ok"][1]))
            else:
                answers.append("(%d, None)" % p)
        items.append("(%s, %d, [%s])" % (t, d["blen"], "; ".join(answers)))
        cases.append((b, code, positions, rs))
    body = HEADER + "From MC Require Import Lib.Base Model.Route.\nDefinition route_obs : list (rtree * N * list (N * option (N * N))) := " + clist(items, per_line=1) + ".\n"
    C.write_if_changed(os.path.join(C.GEN, "RouteObs.v"), body)
    res.extra["route_tie"] = {"expressions_x_codes": len(items), "positions": sum(len(c[2]) for c in cases),
                              "errors": sum(1 for c in cases for x in c[3] if "ok" not in x)}
    for b, code, positions, rs in cases:
        res.add_case(("route-tie", code, b), nontrivial=len(positions) > 3)
    return cases


def with_ids(body, prefix):
    n = [0]

    def f(m):
        n[0] += 1
        return "<%s id='%s-%d'%s" % (m.group(1), prefix, n[0], m.group(2))
    return re.sub(r"<([A-Za-z][\w:-]*)((?:\s[^<>]*)?/?>)", f, body)


def history_oracle(res, rng):
    """routing after the expression changed: the same expression set twice with different author ids (its braille is the
    same), and a different expression in between; every id that routing returns belongs to the expression that is set now,
    and navigation can be put on it"""
    bodies = list(X.FIXED[:8]) + [X.gen(rng, 2) for _ in range(4 if res.tier == "quick" else 40)]
    sessions, meta = [], []
    for b in bodies:
        code = rng.choice(CODES[:5])
        style = rng.choice(STYLES)
        ops = [["set_rules_dir", C.RULES], ["set_preference", "BrailleCode", code], ["set_preference", "BrailleNavHighlight", style]]
        plan = []
        for prefix, body in (("first", b), ("second", b), ("third", rng.choice(bodies)), ("fourth", b)):
            ops += [["set_mathml", X.math(with_ids(body, prefix))], ["get_braille", ""]]
            for p in (0, 1, 2, 3, 5, 8):
                ops.append(["get_navigation_node_from_braille_position", p])
            plan.append(prefix)
        sessions.append({"id": len(sessions), "ops": ops})
        meta.append((b, code, style, plan))
    nv = 0
    for (b, code, style, plan), r in zip(meta, C.run_harness(sessions)):
        rs = (r.get("res") or [])[3:]
        if len(rs) != 8 * len(plan):
            continue
        for k, prefix in enumerate(plan):
            blk = rs[8 * k:8 * k + 8]
            if "ok" not in blk[0]:
                continue
            ids = set(re.findall(r"\bid='([^']*)'", blk[0]["ok"]))
            for p, x in zip((0, 1, 2, 3, 5, 8), blk[2:]):
                res.add_case(("route-after-change", code, style, b, k, p), nontrivial=k > 0)
                if "panic" in x:
                    res.violation("routing panics after the expression changed: %s" % x["panic"], {"kind": "history", "ops": sessions[0]["ops"][:0], "mathml": X.math(b)})
                    nv += 1
                elif "ok" in x and x["ok"][0] not in ids:
                    res.violation("routing from cell %d returns the id %r, which is not an id of the expression that is set now (it was set as the %s of four; braille %s, highlight %s)"
                                  % (p, x["ok"][0], prefix, code, style),
                                  {"kind": "history", "code": code, "style": style, "bodies": [with_ids(b, q) for q in plan[:k + 1]], "cell": p, "observed": x["ok"]})
                    nv += 1
                if nv >= 3:
                    return nv
    return nv


def run(res):
    res.rule = ("tie: seeded strings (0-14 chars) of plain / highlighted cells, boundary cells (U+283F, U+28FF, U+2840...) and passed-through "
                "characters of 1-4 bytes x {Nemeth, UEB, other} x fill, through the nested highlight_braille_chars; oracle: fixed + seeded "
                "expressions x 7 braille codes x 4 highlight styles: get_braille(id) for every id, unknown id, get_braille_position, routing from "
                "cell positions (all when <= 12 cells or thorough), then preferences / navigation id / braille / speech compared with before; "
                "non-trivial = distinct (code, style, operation, expression) with an Ok result")
    rng = random.Random(res.seed * 77 + 20)
    obs = generate(res)
    route_cases = route_observations(res, random.Random(res.seed * 131 + 7))
    for s, c, f, x in obs:
        res.add_case(("str", s, c, f), nontrivial=("ok" in x and x["ok"][0] != s))

    def on_broken(log):
        n = 0
        for s, c, f, x in obs:
            if "panic" in x:
                res.violation("highlight_braille_chars panics on %r (%s): %s" % (s, c, x["panic"]), {"kind": "string", "input": s, "code": c, "fill": f, "observed": x})
                n += 1
                if n >= 3:
                    break
        n += api_oracle(res, rng)
        n += history_oracle(res, rng)
        return n > 0
    proved = C.check_proofs(res, "C20", ["Props/C20.vo", "Tie/C20Tie.vo", "Tie/RouteTie.vo"], "Props/C20.v", search=on_broken)
    if proved:
        api_oracle(res, rng)
        history_oracle(res, rng)
    res.trusted += ["braille rules + clean-up produce the string that highlight_braille_chars receives (oracle)",
                    "what the braille rules produce (the cells of each element, the estimates) is data of the routing model, read from the library by a hook"]
    res.assumptions += ["purity of get_braille / get_braille_position / routing is checked on the library (preference dump, navigation id, outputs), not proved"]


def replay(path):
    rep = json.load(open(path, encoding="utf-8"))
    ok, log = C.build_harness()
    if not ok:
        print("harness build failed", log)
        return 2
    if rep.get("kind") == "history":
        ops = [["set_preference", "BrailleCode", rep["code"]], ["set_preference", "BrailleNavHighlight", rep["style"]]]
        for b in rep["bodies"]:
            ops += [["set_mathml", "<math>%s</math>" % b], ["get_braille", ""], ["get_navigation_node_from_braille_position", rep["cell"]]]
        r = C.one_session(ops)["res"]
        print(json.dumps(r[-3:], ensure_ascii=False)[:800])
        last = r[-1]
        return 1 if "panic" in last or ("ok" in last and ("id='%s'" % last["ok"][0]) not in r[-3].get("ok", "")) else 0
    if rep.get("kind") == "string":
        x = C.one_session([["v_highlight_chars", rep["input"], rep["code"], rep["fill"]]])["res"][0]
        print(x)
        return 1 if "panic" in x else 0
    if rep.get("kind") == "api":
        ops = [["set_preference", "BrailleCode", rep["code"]], ["set_preference", "BrailleNavHighlight", rep["style"]], ["set_mathml", rep["mathml"]], ["get_braille", ""]]
        op = rep.get("op")
        if op and op[0] == "hb":
            ops.append(["v_get_braille_norm", op[1]])
        elif op and op[0] == "route":
            ops.append(["get_navigation_node_from_braille_position", op[1]])
        elif op and op[0] == "set_navigation_node":
            ops += [["v_set_navigation_node_norm", op[1], op[2]], ["get_braille_position"], ["get_braille", ""]]
            r = C.one_session(ops)["res"]
            print(C.norm_ids(json.dumps(r[3:], ensure_ascii=False)))
            if any("panic" in x for x in r) or "ok" not in r[-2]:
                return 1
            s_, e_ = r[-2]["ok"]
            return 0 if 0 <= s_ <= e_ <= len(r[-1].get("ok") or "") else 1
        ops += [["get_braille_position"], ["get_preference", "BrailleNavHighlight"]]
        r = C.one_session(ops)["res"]
        print(C.norm_ids(json.dumps(r[3:], ensure_ascii=False)))
        return 1 if any("panic" in x for x in r) or r[-1].get("ok") != rep["style"] else 0
    print("replay names a broken obligation, not an input:", rep.get("what"))
    return 1
