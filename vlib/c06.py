"""C06 -- braille renders every operand of the expression.
Coq: a braille clean-up chain, read as delete / keep / insert actions over the pieces of each regex (gen/c06.py), leaves
the sub-sequence of digit cells (Nemeth) / of non-blank characters (LaTeX, ASCIIMath) unchanged for EVERY string and
whatever matches the regex engine picks (Props/C06.v); the final indicator substitution of every code with a table
neither deletes nor inserts a digit cell.  Tie: real rule output (hook: raw braille before clean-up) and seeded raw
strings through the real clean-up have equal projections (Tie/C06Tie.v, kernel-checked).
Oracle (search + support): distinct decimal literals planted at every operand position of textbook expressions; in
get_braille's output the cells of each literal occur as a contiguous run, as often as the literal occurs, for
Nemeth / UEB / CMU / Vietnam / Swedish / LaTeX / ASCIIMath and the code preferences."""
import json
import os
import random
import re
import sys

from . import common as C
from . import exprs as X

sys.path.insert(0, C.VERIF)
from gen import c06 as G
from gen.coqfmt import HEADER, clist, cstr, comment

RAW = "\uF8FFverif-raw"
PROOF_CODES = {"Nemeth": ("nemeth_cleanup", "NEMETH_INDICATOR_REPLACEMENTS"),
               "LaTeX": ("LaTeX_cleanup", None), "ASCIIMath": ("ASCIIMath_cleanup", None)}
TABLE_CODES = {"Nemeth": "NEMETH_INDICATOR_REPLACEMENTS", "UEB": "UEB_INDICATOR_REPLACEMENTS", "CMU": "CMU_INDICATOR_REPLACEMENTS",
               "Vietnam": "VIETNAM_INDICATOR_REPLACEMENTS", "Swedish": "SWEDISH_INDICATOR_REPLACEMENTS"}
CLEANUPS = {"Nemeth": "nemeth_cleanup", "UEB": "ueb_cleanup", "CMU": "cmu_cleanup", "Vietnam": "vietnam_cleanup", "Swedish": "swedish_cleanup"}
BLANKS = " \U0001D416\U0001D430"          # space, the hard-break mark, the protected blank


def digit_cells(code):
    """the cells of 0..9 as the code's unicode.yaml writes them (`- "7": [t: "N<cell>"]`)"""
    text = C.read(os.path.join(C.REPO, "Rules", "Braille", code, "unicode.yaml"))
    cells = {}
    for m in re.finditer(r'(?m)^\s*-\s*"([0-9])":\s*\[t:\s*"([^"]*)"\]', text):
        cells[m.group(1)] = m.group(2)[-1]
    if len(cells) != 10:
        raise RuntimeError("digits of %s not found in its unicode.yaml" % code)
    return cells


def gen_steps(res):
    src = C.read(os.path.join(C.REPO, "src", "braille.rs"))
    codes, info = {}, {}
    for code, (fn, tab) in PROOF_CODES.items():
        codes[code] = C.translate(res, "c06-" + code, "clean-up chain %s of braille.rs" % fn, lambda: G.steps_of(src, fn, tab))
        info[code] = {"steps": len(codes[code]), "opaque": [s[0] for s in codes[code] if s[1] is None]}
    body = G.render(codes)
    # the final substitution of every code with a table, and the digit cells
    for code, tab in TABLE_CODES.items():
        st = [s for s in C.translate(res, "c06-final-" + code, "final substitution of %s" % CLEANUPS[code], lambda: G.steps_of(src, CLEANUPS[code], tab))
              if s[0].startswith("REPLACE_INDICATORS")]
        if len(st) != 1:
            raise RuntimeError("REPLACE_INDICATORS step of %s not found" % code)
        alts = st[0][1]
        body += "Definition %s_final : step := SStep [%s].\n" % (code.lower(), "; ".join("[%s]" % "; ".join(G.action_term(a) for a in alt) for alt in alts))
        d = digit_cells(code)
        body += "Definition %s_digits : list N := [%s]. %s\n\n" % (code.lower(), "; ".join(str(ord(d[k])) for k in sorted(d)), comment("".join(d[k] for k in sorted(d))))
    body += "Definition text_blanks : list N := [%s].\n" % "; ".join(str(ord(c)) for c in BLANKS)
    C.write_if_changed(os.path.join(C.GEN, "BrailleSteps.v"), body)
    if res is not None:
        res.extra.setdefault("gen_sources", []).append({"file": "src/braille.rs", "chains": info})
    return codes


def keep_py(code):
    if code == "Nemeth":
        d = set(digit_cells("Nemeth").values())
        return lambda c: c in d
    return lambda c: c not in BLANKS


def observe(rng, n):
    """(code, raw, cleaned) from real rule output and from seeded raw strings"""
    exprs = X.fixed() + [e for e, _ in X.corpus(rng, n, depth=3, plant_mark=".")]
    sessions = []
    for i, code in enumerate(PROOF_CODES):
        ops = [["set_rules_dir", C.RULES], ["set_preference", "BrailleCode", code]]
        for e in exprs:
            ops += [["set_mathml", e], ["get_braille", RAW], ["get_braille", ""]]
        sessions.append({"id": i, "ops": ops})
    out = []
    for code, r in zip(PROOF_CODES, C.run_harness(sessions)):
        rr = r["res"][2:]
        for i in range(0, len(rr), 3):
            a, b = rr[i + 1], rr[i + 2]
            if "ok" in a and "ok" in b:
                out.append((code, a["ok"], b["ok"]))
    # seeded raw strings: pieces of real raw output shuffled together with indicator letters
    pool = {c: [o[1] for o in out if o[0] == c] for c in PROOF_CODES}
    extra = {"Nemeth": list("NnLlCPMmWw,bEe") + ["⠨", "⠤", "⠼", "⠷", "⠾", "𝑁", "↑", "↓"], "LaTeX": [" ", "𝐖", "^", "_", "{", "}", ",", ")"],
             "ASCIIMath": [" ", "𝐖", "𝐰", "^", "_", "(", ")", ",", "|", "\""]}
    ops = [["set_rules_dir", C.RULES]]
    rand = []
    for code in PROOF_CODES:
        for _ in range(n):
            parts = []
            for _ in range(rng.randint(1, 4)):
                s = rng.choice(pool[code]) if pool[code] else ""
                a = rng.randint(0, max(0, len(s) - 1))
                parts.append(s[a:a + rng.randint(1, 12)])
                if rng.random() < 0.6:
                    parts.append(rng.choice(extra[code]))
            raw = "".join(parts)
            if code != "LaTeX" and code != "ASCIIMath":
                raw = raw.replace(" ", "")
            rand.append((code, raw))
            ops.append(["v_braille_cleanup", code, raw])
    r = C.run_harness([{"id": 0, "ops": ops}])[0]["res"][1:]
    for (code, raw), o in zip(rand, r):
        if "ok" in o:
            out.append((code, raw.replace(" ", ""), o["ok"]))
        else:
            out.append((code, raw.replace(" ", ""), None))
    return out


def generate(res):
    gen_steps(res)
    ok, log = C.build_harness()
    if not ok:
        raise RuntimeError("harness build failed: " + log)
    seed = res.seed if res else 1
    tier = res.tier if res else "quick"
    rng = random.Random(seed * 977 + 6)
    obs = observe(rng, 60 if tier == "quick" else 600)
    body = HEADER
    for code in PROOF_CODES:
        items = ["(%s, %s)" % (cstr(raw), cstr(out)) for c, raw, out in obs if c == code and out is not None]
        body += "Definition %s_obs : list (list N * list N) := %s.\n" % (code.lower(), clist(items))
    C.write_if_changed(os.path.join(C.GEN, "C06Obs.v"), body)
    if res is not None:
        res.extra["tie_cases"] = len(obs)
        res.extra["tie_panics"] = sum(1 for o in obs if o[2] is None)
    return obs


# ---------------------------------------------------------------- the library oracle: planted literals
ORACLE_CODES = ["Nemeth", "UEB", "CMU", "Vietnam", "Swedish", "LaTeX", "ASCIIMath"]
CODE_PREFS = {"UEB": [("UEB_START_MODE", "Grade1"), ("UEB_START_MODE", "Grade2")],
              "LaTeX": [("LaTeX_UseShortName", "true"), ("LaTeX_UseShortName", "false")],
              "Nemeth": [("Nemeth_RequiredEmphasis", "true")] if False else []}


LOWER = str.maketrans("⠁⠃⠉⠙⠑⠋⠛⠓⠊⠚", "⠂⠆⠒⠲⠢⠖⠶⠦⠔⠴")


def encodings(code, lits):
    """admissible encodings of each literal: alone (number sign stripped), as numerator and as denominator of a fraction of two literals"""
    ops = [["set_rules_dir", C.RULES], ["set_preference", "BrailleCode", code]]
    for l in lits:
        ops += [["set_mathml", "<math><mn>%s</mn></math>" % l], ["get_braille", ""],
                ["set_mathml", "<math><mfrac><mn>%s</mn><mn>77.77</mn></mfrac></math>" % l], ["get_braille", ""],
                ["set_mathml", "<math><mfrac><mn>77.77</mn><mn>%s</mn></mfrac></math>" % l], ["get_braille", ""]]
    r = C.run_harness([{"id": 0, "ops": ops}])[0]["res"][2:]
    enc = {}
    for i, l in enumerate(lits):
        alone = r[6 * i + 1].get("ok")
        if alone is None:
            enc[l] = None
            continue
        e = alone.strip("⠀ ")
        if code not in ("LaTeX", "ASCIIMath") and e.startswith("⠼"):
            e = e[1:]
        enc[l] = {e}
        if code in ("CMU", "Vietnam", "Swedish", "UEB"):
            # positional variant: the digits of the denominator of a simple numeric fraction are lowered
            enc[l].add(e.translate(LOWER))
    return enc


def oracle(res, exprs):
    """exprs: [(mathml, literals)]; returns the number of violations"""
    found = 0
    all_lits = sorted({l for _, ls in exprs for l in ls})
    for code in ORACLE_CODES:
        enc = encodings(code, all_lits)
        for pref in (CODE_PREFS.get(code) or [None]):
            ops = [["set_rules_dir", C.RULES], ["set_preference", "BrailleCode", code]]
            if pref:
                ops.append(["set_preference", pref[0], pref[1]])
            for e, _ in exprs:
                ops += [["set_mathml", e], ["get_braille", ""]]
            r = C.run_harness([{"id": 0, "ops": ops}])[0]["res"]
            r = r[(3 if pref else 2):]
            for i, (e, lits) in enumerate(exprs):
                o = r[2 * i + 1]
                if "ok" not in o:
                    res.extra.setdefault("not_ok", []).append([code, e[:80], json.dumps(o)[:120]])
                    continue
                out = o["ok"]
                res.add_case((code, pref, e), len(lits) > 2, "%s: %s" % (code, out[:40]))
                for l in lits:
                    if enc.get(l) is None:
                        continue
                    want = e.count("<mn>%s</mn>" % l)
                    got = max(out.count(x) for x in enc[l])
                    if got < want:
                        found += 1
                        res.violation("%s%s: the literal %s (cells %s) occurs %d time(s) in the expression but %d time(s) in the braille %s"
                                      % (code, " " + "=".join(pref) if pref else "", l, "/".join(sorted(enc[l])), want, got, out),
                                      {"kind": "literal", "code": code, "pref": pref, "mathml": e, "literal": l, "cells": sorted(enc[l]), "want": want, "braille": out})
                        if found >= 3:
                            return found
    return found


def planted(res):
    rng = random.Random(res.seed * 131 + 61)
    n = 40 if res.tier == "quick" else 400
    ex = []
    for i in range(n):
        p = X.Planter(rng, "." if i % 3 else None, shapes=(i % 3 == 2))
        ex.append((X.math(X.gen(rng, 3, p, X.MORE_KINDS if i % 2 else None)), list(p.lits)))
    # every operand position once, by hand
    a, b, c, d = "41.17", "52.06", ".035", "7489"
    ex.append((X.math("<mrow><mo>(</mo><mrow><mn>%s</mn><mo>,</mo><mn>%s</mn><mo>,</mo><mn>%s</mn><mo>,</mo><mn>%s</mn></mrow><mo>)</mo></mrow>" % (a, b, c, d)), [a, b, c, d]))
    ex.append((X.math("<mrow><mn>%s</mn><mo>&#x2062;</mo><msubsup><mn>%s</mn><mn>%s</mn><mn>%s</mn></msubsup></mrow>" % (a, b, c, d)), [a, b, c, d]))
    ex.append((X.math("<munderover><mrow><mn>%s</mn><mo>+</mo><mn>%s</mn></mrow><mn>%s</mn><mn>%s</mn></munderover>" % (a, b, c, d)), [a, b, c, d]))
    ex.append((X.math("<mrow><msup><mn>%s</mn><mn>%s</mn></msup><mo>+</mo><msub><mi>x</mi><mn>%s</mn></msub><mo>+</mo><mroot><mi>y</mi><mn>%s</mn></mroot></mrow>" % (a, b, c, d)), [a, b, c, d]))
    ex.append((X.math("<mrow><munderover><mo>&#x2211;</mo><mrow><mi>i</mi><mo>=</mo><mn>%s</mn></mrow><mn>%s</mn></munderover><mfrac><mn>%s</mn><mn>%s</mn></mfrac></mrow>" % (a, b, c, d)), [a, b, c, d]))
    ex.append((X.math("<mrow><mn>%s</mn><mo>/</mo><mn>%s</mn><mo>/</mo><mn>%s</mn><mo>+</mo><mn>%s</mn></mrow>" % ("41", "52", "35", d)), ["41", "52", "35", d]))
    ex.append((X.math("<mrow><mn>%s</mn><mo>:</mo><mn>%s</mn><mo>:</mo><mn>%s</mn><mo>&#xF7;</mo><mn>%s</mn></mrow>" % ("41", "52", "35", d)), ["41", "52", "35", d]))
    ex.append((X.math("<mrow><mn>%s</mn><mfrac><mn>%s</mn><mn>%s</mn></mfrac><mo>-</mo><mfrac><mn>%s</mn><mn>10</mn></mfrac></mrow>" % ("41", "52", "35", d)), ["41", "52", "35", d]))
    ex.append((X.math("<mrow><mo>(</mo><mtable><mtr><mtd><mn>%s</mn></mtd><mtd><mn>%s</mn></mtd></mtr><mtr><mtd><mn>%s</mn></mtd><mtd><mn>%s</mn></mtd></mtr></mtable><mo>)</mo></mrow>" % (a, b, c, d)), [a, b, c, d]))
    ex.append((X.math("<mrow><mi>f</mi><mo>&#x2061;</mo><mrow><mo>(</mo><mn>%s</mn><mo>,</mo><mn>%s</mn><mo>)</mo></mrow><mo>=</mo><mfrac><mn>%s</mn><mn>%s</mn></mfrac></mrow>" % (a, b, c, d)), [a, b, c, d]))
    # the notations the intent / braille rules recognise, with decimal and with integer literals at their operand positions
    from . import notations as NT
    for integers in (False, True):
        for _, body, lits in NT.instances(".", integers):
            ex.append((X.math(body), lits))
    return ex


def run(res):
    res.rule = ("tie: real rule output (raw braille hook) of the fixed corpus + seeded textbook expressions with planted literals, and seeded raw "
                "strings spliced from it, through the real clean-up of Nemeth / LaTeX / ASCIIMath; oracle: planted decimal and integer literals "
                "(every operand position) x 7 codes x code preferences, contiguous run per occurrence; non-trivial = expressions with more "
                "than two literals")
    obs = generate(res)
    for c, raw, out in obs:
        if out is None:
            res.extra.setdefault("cleanup_panics", []).append([c, raw[:60]])

    def on_broken(log):
        return oracle(res, planted(res)) > 0
    proved = C.check_proofs(res, "C06", ["Props/C06.vo", "Tie/C06Tie.vo"], "Props/C06.v", search=on_broken)
    if proved:
        oracle(res, planted(res))
    res.trusted += ["gen/c06.py: reading of each (regex, template) pair as keep / drop / insert actions over the top-level pieces of the pattern "
                    "(the regex crate's match semantics is not modelled: the theorems quantify over every choice of matches)",
                    "the ADD_ENGLISH_LETTER_INDICATOR loop of nemeth_cleanup is read as: re-emit everything, insert 'E' (tied by the raw-string observations)"]
    res.assumptions += ["rule level (which raw string the braille rules and BrailleChars produce for an expression) is exercised by the planted-literal oracle, not proved",
                        "UEB / CMU / Vietnam / Swedish / Finnish clean-ups contain character machines (remove_unneeded_mode_changes, capitals_to_word_mode, "
                        "handle_contractions) that are not translated: for these codes only the final indicator substitution is proved; contiguity of a digit "
                        "run (no indicator left between two digits) is checked by the oracle only"]


def replay(path):
    rep = json.load(open(path, encoding="utf-8"))
    ok, log = C.build_harness()
    if not ok:
        print("harness build failed", log)
        return 2
    if rep.get("kind") == "literal":
        ops = [["set_preference", "BrailleCode", rep["code"]]]
        if rep.get("pref"):
            ops.append(["set_preference", rep["pref"][0], rep["pref"][1]])
        ops += [["set_mathml", rep["mathml"]], ["get_braille", ""]]
        o = C.one_session(ops)["res"][-1]
        print(rep["mathml"], "\n ->", json.dumps(o, ensure_ascii=False))
        if "ok" not in o:
            return 1
        return 1 if max(o["ok"].count(x) for x in rep["cells"]) < rep["want"] else 0
    print("replay names a broken obligation, not an input:", rep.get("what"))
    return 1
