"""./check --setup : generate everything, build the harness and the whole Coq development."""
import importlib
from . import common as C

PROPS = ["C18", "C17", "C13", "C12", "C11", "C20", "C09", "C07", "C16", "C19", "C03", "C06", "C05", "C04", "C01", "C02", "C10", "C14", "C15", "C08"]


def generate_all():
    for p in PROPS:
        mod = importlib.import_module("vlib." + p.lower())
        if hasattr(mod, "generate"):
            try:
                mod.generate(None)
            except Exception as ex:
                C.log("generate %s failed: %r" % (p, ex))


def run():
    ok, log = C.build_harness()
    if not ok:
        C.log("harness build failed:\n" + log)
        return 1
    generate_all()
    C.coq_makefile()
    ok, out = C.coq_make(["all"], timeout=3000)
    if not ok:
        C.log(out[-3000:])
        # a broken proof at setup time is reported by the individual checks; setup itself only fails on tooling
    return 0
