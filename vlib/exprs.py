"""Shared expression generators (G-textbook of DESIGN.md appendix A) and a fixed hand-written corpus.
All randomness comes from the `random.Random` instance passed in (seeded from VERIF_SEED by the caller)."""
import random

FIXED = [
    "<mrow><mi>x</mi><mo>+</mo><mn>1</mn></mrow>",
    "<mrow><msup><mi>x</mi><mn>2</mn></msup><mo>-</mo><mn>3</mn><mi>x</mi><mo>+</mo><mn>2</mn><mo>=</mo><mn>0</mn></mrow>",
    "<mfrac><mrow><mi>a</mi><mo>+</mo><mi>b</mi></mrow><mrow><mi>c</mi><mo>-</mo><mn>2</mn></mrow></mfrac>",
    "<mrow><msqrt><mrow><msup><mi>b</mi><mn>2</mn></msup><mo>-</mo><mn>4</mn><mi>a</mi><mi>c</mi></mrow></msqrt></mrow>",
    "<mrow><mroot><mi>x</mi><mn>3</mn></mroot><mo>+</mo><msub><mi>a</mi><mi>n</mi></msub></mrow>",
    "<mrow><munderover><mo>&#x2211;</mo><mrow><mi>i</mi><mo>=</mo><mn>1</mn></mrow><mi>n</mi></munderover><msub><mi>a</mi><mi>i</mi></msub></mrow>",
    "<mrow><msubsup><mo>&#x222B;</mo><mn>0</mn><mn>1</mn></msubsup><mi>f</mi><mo>(</mo><mi>x</mi><mo>)</mo><mi>d</mi><mi>x</mi></mrow>",
    "<mrow><mi>sin</mi><mo>&#x2061;</mo><mi>x</mi><mo>+</mo><mi>cos</mi><mo>&#x2061;</mo><mo>(</mo><mn>2</mn><mi>x</mi><mo>)</mo></mrow>",
    "<mrow><mo>|</mo><mi>x</mi><mo>-</mo><mn>1</mn><mo>|</mo><mo>&#x2264;</mo><mn>3</mn></mrow>",
    "<mrow><mo>(</mo><mtable><mtr><mtd><mn>1</mn></mtd><mtd><mn>2</mn></mtd></mtr><mtr><mtd><mn>3</mn></mtd><mtd><mn>4</mn></mtd></mtr></mtable><mo>)</mo></mrow>",
    "<mrow><munder><mi>lim</mi><mrow><mi>x</mi><mo>&#x2192;</mo><mn>0</mn></mrow></munder><mfrac><mrow><mi>sin</mi><mi>x</mi></mrow><mi>x</mi></mfrac><mo>=</mo><mn>1</mn></mrow>",
    "<mrow><mi>f</mi><mo>(</mo><mi>x</mi><mo>,</mo><mi>y</mi><mo>)</mo><mo>=</mo><mn>2</mn><mi>x</mi><mi>y</mi></mrow>",
    "<mrow><mn>3</mn><mo>!</mo><mo>+</mo><mo>-</mo><mn>2</mn></mrow>",
    "<mrow><mover><mi>x</mi><mo>&#xAF;</mo></mover><mo>+</mo><mover><mi>v</mi><mo>&#x2192;</mo></mover></mrow>",
    "<mrow><mi>A</mi><mo>=</mo><mi>&#x3C0;</mi><msup><mi>r</mi><mn>2</mn></msup></mrow>",
    "<mmultiscripts><mi>C</mi><mn>2</mn><none/><mprescripts/><mn>6</mn><mn>14</mn></mmultiscripts>",
    "<mrow><mtext>if&#xA0;</mtext><mi>x</mi><mo>&gt;</mo><mn>0</mn><mtext>&#xA0;then&#xA0;</mtext><mi>y</mi><mo>=</mo><mn>1</mn></mrow>",
    "<mrow><mfenced><mi>a</mi><mi>b</mi></mfenced><mo>+</mo><menclose notation='box'><mi>z</mi></menclose></mrow>",
    "<mrow><mstyle displaystyle='true'><mfrac><mn>1</mn><mn>2</mn></mfrac></mstyle><mo>&#x00D7;</mo><mpadded><mn>4</mn></mpadded></mrow>",
    "<mrow><msup><mi>e</mi><mrow><mo>-</mo><mfrac><msup><mi>x</mi><mn>2</mn></msup><mn>2</mn></mfrac></mrow></msup></mrow>",
    "<mrow><mi mathvariant='bold'>v</mi><mo>&#x22C5;</mo><mi mathvariant='double-struck'>R</mi><mo>&#x2208;</mo><mi>&#x211D;</mi></mrow>",
    "<mrow><msub><mi>H</mi><mn>2</mn></msub><mi>O</mi></mrow>",
    "<mrow><mi>x</mi><mo>=</mo><mfrac><mrow><mo>-</mo><mi>b</mi><mo>&#xB1;</mo><msqrt><mrow><msup><mi>b</mi><mn>2</mn></msup><mo>-</mo><mn>4</mn><mi>a</mi><mi>c</mi></mrow></msqrt></mrow><mrow><mn>2</mn><mi>a</mi></mrow></mfrac></mrow>",
    "<mrow><mo>{</mo><mtable><mtr><mtd><mi>x</mi></mtd><mtd><mtext>if&#xA0;</mtext><mi>x</mi><mo>&#x2265;</mo><mn>0</mn></mtd></mtr><mtr><mtd><mo>-</mo><mi>x</mi></mtd><mtd><mtext>otherwise</mtext></mtd></mtr></mtable></mrow>",
    "<mrow><mn>1,234.5</mn><mo>+</mo><mn>0.25</mn></mrow>",
]

IDENTS = list("abcxyzntk") + ["&#x3B1;", "&#x3B2;", "&#x3B8;"]
FUNCS = ["sin", "cos", "log", "f", "g"]
RELS = ["=", "&lt;", "&#x2264;", "&#x2260;"]


class Planter:
    """hands out distinct decimal literals (with the locale's decimal mark) and remembers them; with shapes=True the
    literals vary in shape (leading / trailing zeros after the mark, no integer part, integers)"""

    def __init__(self, rng, mark=".", shapes=False, integers=True):
        self.rng, self.mark, self.lits, self.shapes, self.integers = rng, mark, [], shapes, integers

    def lit(self):
        r = self.rng
        while True:
            if self.mark is None:
                s = "%d" % r.randint(1011, 9898)
            elif not self.shapes:
                s = "%d%s%02d" % (r.randint(11, 98), self.mark, r.randint(11, 98))
            else:
                k = r.randint(0, 5 if self.integers else 4)
                s = ["%d%s%02d" % (r.randint(11, 98), self.mark, r.randint(11, 98)),
                     "%d%s0%d" % (r.randint(11, 98), self.mark, r.randint(1, 9)),
                     "0%s0%d%d" % (self.mark, r.randint(1, 9), r.randint(1, 9)),
                     "%s0%d%d" % (self.mark, r.randint(1, 9), r.randint(1, 9)),
                     "%d%d0%s%d" % (r.randint(1, 9), r.randint(1, 9), self.mark, r.randint(1, 9)),
                     "%d" % r.randint(1011, 9898)][k]
            if s not in self.lits and not any(s in o or o in s for o in self.lits):
                self.lits.append(s)
                return s


def mn(s):
    return "<mn>%s</mn>" % s


def mi(s):
    return "<mi>%s</mi>" % s


def mo(s):
    return "<mo>%s</mo>" % s


def row(*kids):
    return "<mrow>" + "".join(kids) + "</mrow>"


def operand(rng, plant):
    if plant is not None:
        return mn(plant.lit())
    return mi(rng.choice(IDENTS)) if rng.random() < 0.6 else mn(str(rng.randint(0, 20)))


def gen(rng, depth=3, plant=None, kinds=None):
    """random textbook expression (MathML string, no <math> wrapper).  If `plant` is a Planter every operand is a
    distinct decimal literal."""
    if depth <= 0:
        return operand(rng, plant)
    k = rng.choice(kinds or ["sum", "prod", "frac", "pow", "sub", "sqrt", "root", "fn", "paren", "abs", "rel", "bigop",
                             "limit", "matrix", "leaf", "leaf", "neg", "subsup", "overbar", "fenced", "style"])
    g = lambda d=depth - 1: gen(rng, d, plant, kinds)
    if k == "leaf":
        return operand(rng, plant)
    if k == "sum":
        n = rng.randint(2, 4)
        parts = [g()]
        for _ in range(n - 1):
            parts += [mo(rng.choice(["+", "-", "&#x2212;"])), g()]
        return row(*parts)
    if k == "prod":
        a, b = g(), g()
        return row(a, mo(rng.choice(["&#xD7;", "&#x22C5;", "&#x2062;"])), b)
    if k == "frac":
        return "<mfrac>%s%s</mfrac>" % (g(), g())
    if k == "pow":
        return "<msup>%s%s</msup>" % (operand(rng, plant) if rng.random() < 0.7 else row(mo("("), g(), mo(")")), g(depth - 2))
    if k == "sub":
        return "<msub>%s%s</msub>" % (mi(rng.choice(IDENTS)), g(depth - 2))
    if k == "subsup":
        return "<msubsup>%s%s%s</msubsup>" % (mi(rng.choice(IDENTS)), g(depth - 2), g(depth - 2))
    if k == "sqrt":
        return "<msqrt>%s</msqrt>" % g()
    if k == "root":
        return "<mroot>%s%s</mroot>" % (g(), g(depth - 2))
    if k == "fn":
        f = rng.choice(FUNCS)
        return row(mi(f), mo("&#x2061;"), row(mo("("), g(), mo(")")))
    if k == "paren":
        o, c = rng.choice([("(", ")"), ("[", "]")])
        return row(mo(o), g(), mo(c))
    if k == "abs":
        return row(mo("|"), g(), mo("|"))
    if k == "rel":
        return row(g(), mo(rng.choice(RELS)), g())
    if k == "neg":
        return row(mo("-"), g())
    if k == "bigop":
        op = rng.choice(["&#x2211;", "&#x220F;", "&#x222B;"])
        return row("<munderover>%s%s%s</munderover>" % (mo(op), row(mi("i"), mo("="), g(depth - 2)), g(depth - 2)), g())
    if k == "limit":
        return row("<munder>%s%s</munder>" % (mi("lim"), row(mi("x"), mo("&#x2192;"), g(depth - 2))), g())
    if k == "matrix":
        r, c = rng.randint(1, 2), rng.randint(1, 3)
        rows = "".join("<mtr>" + "".join("<mtd>%s</mtd>" % g(depth - 2) for _ in range(c)) + "</mtr>" for _ in range(r + 1))
        return row(mo("("), "<mtable>%s</mtable>" % rows, mo(")"))
    if k == "overbar":
        return "<mover>%s<mo>&#xAF;</mo></mover>" % g(depth - 2)
    if k == "fenced":
        return "<mfenced>%s%s</mfenced>" % (g(depth - 2), g(depth - 2))
    if k == "style":
        return "<mstyle displaystyle='true'>%s</mstyle>" % g()
    # --- the kinds below are only drawn when asked for (MORE_KINDS): scripts on arbitrary bases, lists, juxtaposed numbers
    if k == "subsup_any":
        return "<msubsup>%s%s%s</msubsup>" % (g(depth - 2), g(depth - 2), g(depth - 2))
    if k == "underover_any":
        return "<munderover>%s%s%s</munderover>" % (g(depth - 2), g(depth - 2), g(depth - 2))
    if k == "script_any":
        return "<%s>%s%s</%s>" % ((t := rng.choice(["msub", "msup", "munder", "mover"])), g(depth - 2), g(depth - 2), t)
    if k == "list":
        o, c = rng.choice([("(", ")"), ("{", "}"), ("[", "]")])
        items = [g(depth - 2)]
        for _ in range(rng.randint(1, 3)):
            items += [mo(","), g(depth - 2)]
        return row(mo(o), row(*items), mo(c))
    if k == "juxta":
        return row(operand(rng, plant), mo("&#x2062;"), g(depth - 1))
    if k == "enclose":
        return "<menclose notation='%s'>%s</menclose>" % (rng.choice(["box", "circle", "updiagonalstrike", "actuarial", "top bottom", "longdiv", "roundedbox"]), g(depth - 1))
    if k == "multiscripts":
        base = mi(rng.choice(IDENTS))
        post = "".join(rng.choice([operand(rng, plant), "<none/>"]) for _ in range(2 * rng.randint(1, 2)))
        pre = "<mprescripts/>" + "".join(rng.choice([operand(rng, plant), "<none/>"]) for _ in range(2)) if rng.random() < 0.6 else ""
        return "<mmultiscripts>%s%s%s</mmultiscripts>" % (base, post, pre)
    if k == "cases":
        rows = "".join("<mtr><mtd>%s</mtd><mtd><mtext>if&#xA0;</mtext>%s</mtd></mtr>" % (g(depth - 2), row(mi("x"), mo(rng.choice(["&lt;", "&#x2265;", "="])), operand(rng, plant)))
                       for _ in range(rng.randint(2, 3)))
        return row(mi("f"), mo("="), row(mo("{"), "<mtable columnalign='left'>%s</mtable>" % rows))
    if k == "labeled":
        rows = "".join("<mlabeledtr><mtd><mtext>(%d)</mtext></mtd><mtd>%s</mtd><mtd>%s</mtd></mlabeledtr>" % (i + 1, g(depth - 2), row(mo("="), operand(rng, plant))) for i in range(2))
        return "<mtable>%s</mtable>" % rows
    if k == "chain":
        # a flat row of simple operands joined by one inline operator: a/b/c, a:b:c, a - b - c (no inner rows)
        op = rng.choice(["/", ":", "&#xF7;", "&#x2215;", "&#xD7;", "-", "&#x2218;", "/"])
        parts = [operand(rng, plant)]
        for _ in range(rng.randint(1, 3)):
            parts += [mo(op), operand(rng, plant)]
        return row(*parts)
    if k == "mixed":
        # whole number followed by a simple fraction, and a negative simple fraction
        fr = "<mfrac>%s%s</mfrac>" % (operand(rng, plant), operand(rng, plant))
        return row(operand(rng, plant), fr) if rng.random() < 0.6 else row(mo("-"), fr)
    return operand(rng, plant)


MORE_KINDS = ["sum", "prod", "frac", "pow", "sub", "sqrt", "root", "fn", "paren", "abs", "rel", "bigop", "limit", "matrix", "leaf", "leaf",
              "neg", "subsup", "overbar", "fenced", "style", "subsup_any", "underover_any", "script_any", "list", "list", "juxta", "chain", "chain", "mixed",
              "enclose", "multiscripts", "cases", "labeled"]


def math(body, attrs=""):
    return "<math%s>%s</math>" % (attrs, body)


def corpus(rng, n, depth=3, plant_mark=None):
    """n random expressions (wrapped in <math>); with plant_mark, returns (expr, literals) pairs"""
    out = []
    for _ in range(n):
        if plant_mark is not None:
            p = Planter(rng, plant_mark)
            out.append((math(gen(rng, depth, p)), list(p.lits)))
        else:
            out.append(math(gen(rng, depth)))
    return out


def fixed():
    return [math(b) for b in FIXED]
