"""C10 -- results depend only on the current expression and preferences.
Coq (Props/C10.v): every lazily refreshed cache of the library is a slot (recorded key + value); for ANY history of
checks, including failed loads, a guarded slot answers with what a fresh load of the key asked for gives; an unguarded
one does so while no load fails (refuted otherwise).  Tie: the library's own cache checks (hook log: which cache, key
asked for, reloaded or not) over seeded histories = the model's reload flags, kernel-checked.
Oracle (search + support): seeded histories of set_preference / set_mathml / getters / navigation in one session; the
final outputs equal those of a fresh session that is given the same preference calls and the final expression only;
getters are idempotent; two sessions in parallel threads do not disturb each other."""
import json
import os
import random
import re
import sys

from . import common as C
from . import exprs as X

sys.path.insert(0, C.VERIF)
from gen.coqfmt import HEADER, clist, cstr

LANGS = ["en", "es", "fi", "id", "sv", "vi", "zh-tw", "en-gb"]
PREFS = [("Language", LANGS), ("SpeechStyle", ["ClearSpeak", "SimpleSpeak"]), ("Verbosity", ["Terse", "Medium", "Verbose"]),
         ("BrailleCode", ["Nemeth", "UEB", "CMU", "Vietnam", "Swedish", "LaTeX", "ASCIIMath"]),
         ("DecimalSeparators", [".", ",", "Auto"]), ("BlockSeparators", [",  ", ".  ", "Auto", ",'"]),
         ("TTS", ["None", "SSML"]), ("CapitalLetters_UseWord", ["true", "false"]), ("BrailleNavHighlight", ["Off", "EndPoints"]),
         ("Impairment", ["Blindness", "LowVision"]), ("MathRate", ["100", "80"])]
RARE = ["<mrow><mi>a</mi><mo>&#x22C8;</mo><mi>b</mi></mrow>", "<mrow><mn>&#x2153;</mn><mo>+</mo><mi>x</mi></mrow>", "<mrow><mi>x</mi><mo>&#x2A0C;</mo><mi>y</mi></mrow>",
        "<mrow><mn>1</mn><mo>,</mo><mn>234</mn><mo>+</mo><mn>1</mn><mo>,</mo><mn>5</mn></mrow>", "<mrow><mn>1.234,5</mn><mo>+</mo><mn>3,5</mn></mrow>",
        "<mrow><mn>11.73</mn><mo>+</mo><mi>x</mi></mrow>", "<mrow><mi>sin</mi><mo>&#x2061;</mo><mi>x</mi><mo>+</mo><mfrac><mn>1</mn><mn>2</mn></mfrac></mrow>"]
GETTERS = [["get_spoken_text"], ["get_braille", ""], ["get_overview_text"]]
NAV = ["ZoomIn", "MoveNext", "MovePrevious", "ZoomOut", "ReadNext", "DescribeCurrent", "ToggleZoomLockUp", "MoveStart", "ZoomInAll", "WhereAmI"]


# an expression that ClearSpeak and SimpleSpeak (and Terse / Verbose) speak differently: fractions, powers, roots, functions
STYLE_SENSITIVE = ("<mrow><mfrac><mrow><mi>x</mi><mo>+</mo><mn>1</mn></mrow><mrow><mi>y</mi><mo>-</mo><mn>2</mn></mrow></mfrac><mo>+</mo><msup><mi>x</mi><mrow><mi>n</mi><mo>+</mo><mn>1</mn></mrow></msup>"
                   "<mo>+</mo><mroot><mi>z</mi><mn>5</mn></mroot><mo>+</mo><mi>f</mi><mo>&#x2061;</mo><mrow><mo>(</mo><mi>x</mi><mo>)</mo></mrow></mrow>")


def history(rng, bodies, n):
    ops = []
    for _ in range(n):
        r = rng.random()
        if r < 0.35:
            k, vs = rng.choice(PREFS)
            ops.append(["set_preference", k, rng.choice(vs)])
        elif r < 0.6:
            ops.append(["set_mathml", X.math(rng.choice(bodies))])
        elif r < 0.85:
            ops.append(rng.choice(GETTERS))
        else:
            ops.append(["do_navigate_command", rng.choice(NAV)])
    # switch-back patterns
    if rng.random() < 0.5:
        k, vs = rng.choice(PREFS[:4])
        a, b = rng.sample(vs, 2)
        ops += [["set_preference", k, a], rng.choice(GETTERS), ["set_preference", k, b], rng.choice(GETTERS), ["set_preference", k, a]]
    return ops


def final_queries(body):
    return [["set_mathml", X.math(body)], ["get_spoken_text"], ["get_braille", ""], ["get_overview_text"], ["get_spoken_text"], ["get_braille", ""]]


def sessions_for(res):
    seed = res.seed if res else 1
    tier = res.tier if res else "quick"
    rng = random.Random(seed * 271 + 10)
    bodies = list(X.FIXED) + RARE + [X.gen(rng, 3) for _ in range(20)]
    n = 24 if tier == "quick" else 240
    out = []
    for i in range(n):
        h = history(rng, bodies, rng.randint(5, 40))
        body = rng.choice(RARE) if rng.random() < 0.5 else rng.choice(bodies)
        out.append((h, body))
    # every single preference switch after the caches are warm, against every cache-sensitive expression
    for k, vs in PREFS:
        for v in vs:
            body = rng.choice(RARE)
            out.append(([["set_mathml", X.math(rng.choice(RARE))], ["get_spoken_text"], ["get_braille", ""], ["get_overview_text"], ["set_preference", k, v]], body))
    # number-valued preferences set after the first outputs, with an engine selected (their effect is markup / pauses): the
    # outputs that follow are those of a fresh session with the same values
    cap = "<mrow><mi>A</mi><mo>+</mo><mfrac><mi>B</mi><mn>2</mn></mfrac><mo>=</mo><mi>C</mi></mrow>"
    for k, vs in (("MathRate", ["80", "150"]), ("Pitch", ["10", "-5"]), ("Rate", ["250"]), ("Volume", ["80"]), ("CapitalLetters_Pitch", ["30", "0"]), ("PauseFactor", ["300", "0"])):
        for v in vs:
            for tts in ("SSML", "SAPI5"):
                out.append(([["set_preference", "TTS", tts], ["set_mathml", X.math(cap)], ["get_spoken_text"], ["get_braille", ""], ["set_preference", k, v]], cap))
                out.append(([["set_preference", "TTS", tts], ["set_preference", k, vs[0]], ["set_mathml", X.math(cap)], ["get_spoken_text"], ["do_navigate_command", "ZoomIn"],
                             ["set_preference", k, v], ["set_preference", k, "100" if k in ("MathRate", "PauseFactor") else "0"]], cap))
    # every ordered pair of languages (regional variants share rule files with their language and differ in the Unicode
    # table only): warm up in the first, switch, speak in the second
    paren = "<mrow><mo>(</mo><mi>x</mi><mo>+</mo><mn>1</mn><mo>)</mo><mo>[</mo><mi>y</mi><mo>]</mo><mo>&#x22C8;</mo><mn>3</mn><mtext>tim</mtext></mrow>"
    for l1 in LANGS:
        for l2 in LANGS:
            if l1 != l2:
                out.append(([["set_preference", "Language", l1], ["set_mathml", X.math(paren)], ["get_spoken_text"], ["do_navigate_command", "ZoomIn"],
                             ["set_preference", "Language", l2]], paren))
    # away and back: the language (and with it the style file that was found, the separators, the tables) is switched to
    # another one and back again; also with a style the other language does not have
    for l1 in LANGS:
        for l2 in LANGS:
            if l1 != l2:
                pre = [["set_preference", "SpeechStyle", rng.choice(["ClearSpeak", "SimpleSpeak"])]] if rng.random() < 0.5 else []
                out.append((pre + [["set_preference", "Language", l1], ["set_mathml", X.math(paren)], ["get_spoken_text"], ["set_preference", "Language", l2],
                                   ["set_mathml", X.math(rng.choice(RARE))], ["get_spoken_text"], ["get_braille", ""], ["set_preference", "Language", l1]],
                            rng.choice([STYLE_SENSITIVE, STYLE_SENSITIVE, paren] + RARE)))
    out += definition_probes(rng, tier)
    # the next expression reuses the author ids of the one before on a different structure (what an editor does): nothing
    # remembered under an id may carry over
    same_ids = [("<mfrac id='f'><mfrac id='g'><mi id='a'>a</mi><mi id='b'>b</mi></mfrac><mi id='c'>c</mi></mfrac>", "<mfrac id='f'><mi id='a'>x</mi><mi id='b'>y</mi></mfrac>"),
                ("<msqrt id='f'><msqrt id='g'><mi id='a'>a</mi></msqrt></msqrt>", "<msqrt id='f'><mi id='a'>x</mi></msqrt>"),
                ("<msup id='f'><mi id='a'>x</mi><msup id='g'><mi id='b'>y</mi><mn id='c'>2</mn></msup></msup>", "<msup id='f'><mi id='a'>x</mi><mn id='g'>2</mn></msup>"),
                ("<mrow id='r'><mi id='a'>sin</mi><mo id='o'>&#x2061;</mo><mi id='b'>x</mi></mrow>", "<mrow id='r'><mi id='a'>x</mi><mo id='o'>+</mo><mn id='b'>12</mn></mrow>"),
                ("<mtable id='f'><mtr id='g'><mtd id='a'><mn id='b'>1</mn></mtd><mtd id='c'><mn id='d'>2</mn></mtd></mtr></mtable>", "<mfrac id='f'><mn id='b'>1</mn><mn id='d'>2</mn></mfrac>")]
    for a, b in same_ids:
        for code in ("Nemeth", "UEB", "CMU"):
            for first, second in ((a, b), (b, a)):
                out.append(([["set_preference", "BrailleCode", code], ["set_mathml", X.math(first)], ["get_braille", ""], ["get_spoken_text"], ["do_navigate_command", "ZoomIn"],
                             ["get_navigation_braille"], ["get_overview_text"]], second))
    for body in RARE[3:6]:
        for k, vs in PREFS[4:6] + PREFS[:1]:
            for v in vs:
                out.append(([["set_mathml", X.math(body)], ["get_spoken_text"], ["get_braille", ""], ["set_preference", k, v]], body))
    return out


def definitions_of(path):
    """{name: set of quoted strings} of a definitions.yaml (a light reading: `- Name: [ ... ]` / `- Name: { ... }` blocks)"""
    try:
        text = C.read(path)
    except OSError:
        return {}
    out = {}
    for m in re.finditer(r"(?ms)^\s*-\s*([A-Za-z_]\w*)\s*:\s*([\[{].*?)(?=^\s*-\s*[A-Za-z_]\w*\s*:|\Z)", text):
        block = re.sub(r"(?m)#.*$", "", m.group(2))
        out.setdefault(m.group(1), set()).update(x for x in re.findall(r"\"([^\"\n]+)\"", block) if 0 < len(x) <= 12)
    return out


def definition_probes(rng, tier):
    """histories that would show a definition of one language (or braille code) surviving the switch to another: for every
    name and value that language A defines and language B does not, warm up in A with an expression built from the value
    (as one token, and spelled letter by letter), switch to B, compare with a fresh B session"""
    base = os.path.join(C.RULES, "Languages")
    langs = [l for l in LANGS if "-" not in l]
    defs = {l: definitions_of(os.path.join(base, l, "definitions.yaml")) for l in langs}
    out = []
    for a in langs:
        for b in langs:
            if a == b:
                continue
            cands = []
            for name, vals in sorted(defs[a].items()):
                only = sorted(vals - defs[b].get(name, set()))
                if only:
                    cands.append((name, only))
            rng.shuffle(cands)
            # names that the other language lacks altogether first
            cands.sort(key=lambda c: c[0] in defs[b])
            for name, only in cands[:3 if tier == "quick" else 12]:
                v = rng.choice(only)
                esc = "".join("&#x%X;" % ord(c) for c in v)
                spelled = "".join("<mi>&#x%X;</mi>" % ord(c) for c in v if not c.isspace())
                bodies = ["<mrow><mn>3</mn><mi>%s</mi><mo>+</mo><mi>%s</mi><mo>&#x2061;</mo><mi>x</mi></mrow>" % (esc, esc),
                          "<mrow>%s<mo>=</mo><mn>2</mn></mrow>" % spelled]
                for body in bodies:
                    out.append(([["set_preference", "Language", a], ["set_mathml", X.math(body)], ["get_spoken_text"], ["get_braille", ""],
                                 ["set_preference", "Language", b]], body))
    return out


def generate(res):
    ok, log = C.build_harness()
    if not ok:
        raise RuntimeError("harness build failed: " + log)
    hs = sessions_for(res)
    sessions = [{"id": i, "ops": [["set_rules_dir", C.RULES], ["v_take_load_log"]] + h + final_queries(b) + [["v_take_load_log"]]} for i, (h, b) in enumerate(hs)]
    out = C.run_harness(sessions)
    items = []
    kinds = {}
    for r in out:
        if "res" not in r or not r["res"] or "ok" not in r["res"][-1]:
            continue
        log = r["res"][-1]["ok"]
        per = {}
        for kind, key, reload in log:
            per.setdefault(kind, []).append((key, reload))
        for kind, seq in per.items():
            guard = not kind.endswith(":unicode") and kind != "patterns"
            silent = kind == "patterns"
            kinds[kind] = kinds.get(kind, 0) + len(seq)
            items.append("(%s, %s, [%s], [%s])" % ("true" if guard else "false", "true" if silent else "false",
                                                   "; ".join(cstr(k) for k, _ in seq), "; ".join("true" if b else "false" for _, b in seq)))
    body = HEADER + "Definition cache_obs : list (bool * bool * list (list N) * list bool) := " + clist(items) + ".\n"
    C.write_if_changed(os.path.join(C.GEN, "C10Obs.v"), body)
    if res is not None:
        res.extra["tie_cases"] = len(items)
        res.extra["tie_checks_per_cache"] = kinds
    return hs, out


def norm(o):
    if "ok" in o and isinstance(o["ok"], str):
        return {"ok": C.norm_ids(o["ok"])}
    if "err" in o:
        return {"err": True}
    return o


def final_prefs(h):
    """the preferences in force at the end of a history: each name once, with the value set last, in the order of these
    last calls (a fresh session that replayed every call would go through the same intermediate states and hide what they
    leave behind)"""
    calls = [op for op in h if op[0] == "set_preference"]
    last = {}
    for i, op in enumerate(calls):
        last[op[1]] = i
    return [op for i, op in enumerate(calls) if last[op[1]] == i]


def oracle(res, hs, out):
    found = 0
    # fresh sessions: the same preference calls, then the final expression and queries
    fresh = [{"id": i, "ops": [["set_rules_dir", C.RULES]] + final_prefs(h) + final_queries(b)} for i, (h, b) in enumerate(hs)]
    fout = C.run_harness(fresh)
    names = ["set_mathml", "speech", "braille", "overview", "speech again", "braille again"]
    for (h, b), r, f in zip(hs, out, fout):
        if "res" not in r or "res" not in f or len(r["res"]) < 8 or len(f["res"]) < 7:
            res.extra["crashed_sessions"] = res.extra.get("crashed_sessions", 0) + 1
            continue
        a = [norm(x) for x in r["res"][-7:-1]]
        c = [norm(x) for x in f["res"][-6:]]
        res.add_case(json.dumps(h, ensure_ascii=False), len(h) > 15, "%d steps, %s" % (len(h), b[:40]))
        for nm, x, y in zip(names, a, c):
            if x != y:
                found += 1
                res.violation("%s after a %d-step history differs from a fresh session with the same preferences: %r vs %r (expression %s)"
                              % (nm, len(h), str(x)[:150], str(y)[:150], b[:100]),
                              {"kind": "history", "history": h, "body": b, "what": nm, "got": x, "fresh": y})
                break
        else:
            if a[1] != a[4] or a[2] != a[5]:
                found += 1
                res.violation("a getter called twice gives different results: %r / %r" % (a[1], a[4]), {"kind": "history", "history": h, "body": b, "what": "idempotence"})
        if found >= 3:
            return found
    # two sessions in parallel threads vs the same sessions alone (the harness runs every session in its own thread)
    alone = C.run_harness([{"id": 0, "ops": fresh[0]["ops"]}], threads=1) if fresh else []
    if alone and "res" in alone[0] and "res" in fout[0] and [norm(x) for x in alone[0]["res"][-6:]] != [norm(x) for x in fout[0]["res"][-6:]]:
        found += 1
        res.violation("a session gives different results when other sessions run in parallel threads", {"kind": "threads", "ops": fresh[0]["ops"]})
    return found


def run(res):
    res.rule = ("24 (quick) / 240 seeded histories of 5-45 steps over set_preference (Language incl. regional, style, verbosity, braille code, separators, TTS, "
                "highlighting, ...), set_mathml (fixed + seeded + characters only in the full Unicode table + split numbers), getters, navigation, with "
                "switch-back patterns; final outputs vs a fresh session given the same preference calls; sessions run in 16 parallel threads; "
                "non-trivial = histories longer than 15 steps")
    hs, out = generate(res)

    def on_broken(log):
        return oracle(res, hs, out) > 0
    proved = C.check_proofs(res, "C10", ["Props/C10.vo", "Tie/C10Tie.vo"], "Props/C10.v", search=on_broken)
    if proved:
        oracle(res, hs, out)
    res.trusted += ["hook speech::verif::log_load (cache checks of read_files, replace_single_char and the number-pattern cache)"]
    res.assumptions += ["the file system is constant and healthy during a history (C14 covers faults); time stamps are not modelled (CheckRuleFiles=Prefs ignores them)",
                        "the compiled-XPath memo and the per-tree attribute caches (data-nemeth-frac-level) are covered by the differential oracle only",
                        "thread interleavings: all session state is thread_local; exercised by running the sessions in parallel threads, not proved"]


def replay(path):
    rep = json.load(open(path, encoding="utf-8"))
    ok, log = C.build_harness()
    if not ok:
        print("harness build failed", log)
        return 2
    if rep.get("kind") == "history":
        h, b = rep["history"], rep["body"]
        a = C.one_session(h + final_queries(b))["res"][-6:]
        f = C.one_session([op for op in h if op[0] == "set_preference"] + final_queries(b))["res"][-6:]
        a, f = [norm(x) for x in a], [norm(x) for x in f]
        for x, y in zip(a, f):
            print("same" if x == y else "DIFF", str(x)[:120], "|", str(y)[:120])
        return 1 if a != f or a[1] != a[4] or a[2] != a[5] else 0
    print("replay names a broken obligation, not an input:", rep.get("what"))
    return 1
