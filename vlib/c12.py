"""C12 -- preferences read back as set, persist, and bad settings are rejected.
Coq: theorems about a model of set_preference / set_string_pref / set_separators / pref_to_string for every state,
name and value (Props/C12.v); tie: random API histories, the library's outcome + read-back after every step and both
preference maps at the end vs. the model (Tie/C12Tie.v, kernel-checked).
Library oracle (search + support): rejected calls leave all outputs unchanged; accepted values read back and
persist across set_mathml."""
import json
import os
import random
import re
import sys

from . import common as C

sys.path.insert(0, C.VERIF)
from gen import c12 as G
from gen.coqfmt import HEADER, clist, cstr

LANG_VALUES = ["en", "es", "fi", "sv", "id", "vi", "xx", "en-gb", "es-419", "zh-tw", "Auto", "eng", "e", "-en", "en-", "EN",
               "en-us-nyc", "de-ch", "zz", "zz-aa", "é", "",
               # regional tags as they are usually written (upper-case region): the separator table is keyed in lower case
               "es-MX", "de-CH", "de-LI", "el-CY", "ES-mx", "es-Mx", "tr-CY", "es-PA"]
STYLE_VALUES = ["ClearSpeak", "SimpleSpeak", "Bogus", "clearspeak", ""]
CODE_VALUES = ["Nemeth", "UEB", "CMU", "Vietnam", "LaTeX", "ASCIIMath", "Swedish", "Bogus", "nemeth"]
BOOL_VALUES = ["true", "false", "True", "FALSE", "tRuE", "maybe", "1", "", "yes", " true"]
FLOAT_VALUES = ["1.5", "30", "abc", "1e3", "-2", "0", "100.0", "250", " 3", "", "0.1", "-0", "1_0", "+5", "2.50"]
STRING_VALUES = ["Auto", "Verbose", "Terse", "Medium", "x", "", "true", "False", "Error", "IgnoreIntent", "SSML", "None", "sapi5",
                 ",", ".", "Custom", "Off", "All", "Enhanced", "Simple", "Character", "Grade1", "  spaced  ", "ünï", "1.0"]
UNKNOWN_NAMES = ["NoSuch", "language", "Pitch ", "", "speechstyle", "Bookmark2", "ClearSpeak", "UEB", "Overview_", "TTS "]


def probe_tables(names):
    """file-lookup and float-formatting oracles, probed on the library in fresh sessions"""
    sessions, keys = [], []
    for key, vals in (("Language", LANG_VALUES), ("SpeechStyle", STYLE_VALUES), ("BrailleCode", CODE_VALUES)):
        for v in vals:
            sessions.append({"id": len(sessions), "ops": [["set_rules_dir", C.RULES], ["set_preference", key, v]]})
            keys.append(("load", key, v))
    # every value a history can pair with a number-valued name (the generator draws from all pools)
    all_values = sorted(set(FLOAT_VALUES + BOOL_VALUES + STRING_VALUES + LANG_VALUES + STYLE_VALUES + CODE_VALUES))
    for v in [x for x in all_values if x.lower() not in ("true", "false")]:
        sessions.append({"id": len(sessions), "ops": [["set_rules_dir", C.RULES], ["set_preference", "Pitch", v], ["get_preference", "Pitch"]]})
        keys.append(("fmt", "Pitch", v))
    out = C.run_harness(sessions)
    loadable, fmt = {}, {}
    for k, r in zip(keys, out):
        rs = r.get("res", [])
        if k[0] == "load":
            # the value the model passes to the lookup is the cleaned-up language tag
            v = k[2]
            if k[1] == "Language":
                if v != "Auto":
                    parts = v.split("-")
                    if len(parts[0].encode("utf-8")) != 2:
                        continue
                    v = parts[0] + ("-" + parts[1] if len(parts) > 1 and parts[1] else "")
                else:
                    continue
            loadable[(k[1], v)] = len(rs) > 1 and "ok" in rs[1]
        else:
            fmt[k[2]] = rs[2]["ok"] if len(rs) > 2 and "ok" in rs[1] and "ok" in rs[2] else None
    return loadable, fmt


OTHER_EXPR = "<math><mrow><mi>x</mi><mo>=</mo><mfrac><mn>1</mn><mn>2</mn></mfrac></mrow></math>"


def other_calls(rng=None):
    """every call of the interface that is not a setter of preferences (what it returns does not matter here); the navigation
    commands ToggleZoomLockUp / ToggleZoomLockDown / ToggleSpeakMode are setters: changing NavMode / Overview is what they are for"""
    calls = [["get_spoken_text"], ["get_braille", ""], ["v_get_braille_norm", "ID-2"], ["get_overview_text"], ["get_navigation_mathml"], ["get_navigation_mathml_id"],
             ["get_navigation_braille"], ["get_braille_position"], ["get_version"], ["get_preference", "Language"], ["get_preference", "NoSuch"]]
    calls += [["do_navigate_command", c] for c in ("ZoomIn", "MoveNext", "ReadCurrent", "DescribeCurrent", "WhereAmI", "SetPlacemarker1", "MoveTo1", "MoveLastLocation", "Junk")]
    calls += [["do_navigate_keypress", k, sh, ct, False, False] for k in (39, 40, 13, 49, 200) for sh, ct in ((False, False), (True, True))]
    calls += [["get_navigation_node_from_braille_position", p] for p in (0, 1, 2, 5, 6, 7, 9, 20, 200, 10 ** 6)]
    calls += [["v_set_navigation_node_norm", "ID-3", 0], ["set_navigation_node", "nope", 0], ["set_mathml", "<math><mi>y</mi></math>"], ["set_mathml", "<math><mi>"]]
    return calls if rng is None else rng.choice(calls)


def untouched_oracle(res, dump):
    """a call that is not set_preference / set_rules_dir leaves every preference as it is: for every documented value of
    every preference with documented values (and a few values of the others) both maps are dumped before and after each
    other call of the interface"""
    opts = C.pref_options()
    pairs = [(k, v) for k, vs in sorted(opts.items()) for v in vs]
    pairs += [("BrailleNavHighlight", v) for v in ("Off", "FirstChar", "EndPoints", "All")] + [("MathRate", "80"), ("PauseFactor", "150"), ("Bookmark", "true"), ("TTS", "SSML"),
                                                                                               ("BrailleCode", "UEB"), ("BrailleCode", "LaTeX"), ("Language", "sv"), ("DecimalSeparator", ",")]
    if res.tier == "quick":
        rng = random.Random(res.seed * 31 + 12)
        keep = [p for p in pairs if p[0] in ("BrailleNavHighlight", "BrailleCode", "TTS", "Language")]
        pairs = keep + rng.sample([p for p in pairs if p not in keep], min(20, len(pairs) - len(keep)))
    calls = other_calls()
    sessions = []
    for i, (k, v) in enumerate(pairs):
        ops = [["set_rules_dir", C.RULES], ["set_preference", k, v], ["set_mathml", OTHER_EXPR], ["v_prefs_dump"]]
        for c in calls:
            ops += [c, ["v_prefs_dump"]]
        sessions.append({"id": i, "ops": ops})
    out = C.run_harness(sessions)
    nv = 0
    for (k, v), s, r in zip(pairs, sessions, out):
        rs = r.get("res", [])
        if len(rs) != len(s["ops"]) or "ok" not in rs[1] or "ok" not in rs[3]:
            continue
        before = rs[3]["ok"]
        for j, c in enumerate(calls):
            after = rs[5 + 2 * j]
            res.add_case(("untouched", k, v, json.dumps(c)), nontrivial=True)
            if "ok" not in after:
                continue
            if after["ok"] != before:
                diff = [(a, b) for a, b in zip(before, after["ok"]) if a != b][:3]
                res.violation("with %s=%s, the call %s changes preferences: %r" % (k, v, json.dumps(c), diff),
                              {"kind": "untouched", "ops": s["ops"][:5 + 2 * j + 1], "pref": [k, v], "call": c, "before": before})
                nv += 1
                break
        if nv >= 3:
            break
    return nv


def gen_history(rng, dump, float_names, length):
    names = [k for _, k, _, _ in dump]
    kinds = {}
    for m, k, kind, v in dump:
        if m == "api" or k not in kinds:
            kinds[k] = kind
    steps = []
    api_strings = [k for m, k, kind, v in dump if m == "api" and kind == "string"]
    for _ in range(length):
        r = rng.random()
        if r < 0.12:
            steps.append(("other", other_calls(rng)))
            continue
        prev = [s for s in steps if s[0] == "set"][-3:]
        if prev and rng.random() < 0.35:
            # repeat patterns: same name again (same value half of the time) -- keys present in both maps, no-op sets
            p = rng.choice(prev)
            if rng.random() < 0.5:
                steps.append(p)
                continue
            n = p[1]
        elif r < 0.22:
            n = rng.choice(UNKNOWN_NAMES)
        elif r < 0.45:
            n = rng.choice(["Language", "LanguageAuto", "SpeechStyle", "BrailleCode", "DecimalSeparator", "DecimalSeparators",
                            "BlockSeparators", "TTS", "Verbosity"] + api_strings)
        else:
            n = rng.choice(names)
        if n in ("Language", "LanguageAuto"):
            pool = LANG_VALUES
        elif n == "SpeechStyle":
            pool = STYLE_VALUES
        elif n == "BrailleCode":
            pool = CODE_VALUES
        elif n in float_names:
            pool = FLOAT_VALUES
        elif kinds.get(n) == "boolean":
            pool = BOOL_VALUES
        else:
            pool = STRING_VALUES
        if rng.random() < 0.2:
            pool = rng.choice([BOOL_VALUES, FLOAT_VALUES, STRING_VALUES, LANG_VALUES])
        steps.append(("set", n, rng.choice(pool)))
    return steps


def run_histories(histories):
    sessions = []
    for i, h in enumerate(histories):
        ops = [["set_rules_dir", C.RULES]]
        for s in h:
            if s[0] == "set":
                ops.append(["set_preference", s[1], s[2]])
                ops.append(["get_preference", s[1]])
            else:
                ops.append(["set_mathml", OTHER_EXPR])
                ops.append(s[1] if len(s) > 1 else ["get_spoken_text"])
        ops.append(["v_prefs_dump"])
        sessions.append({"id": i, "ops": ops})
    return C.run_harness(sessions)


def ocode(x):
    return 0 if "ok" in x else 1 if "err" in x else 2


def generate(res):
    isrc = C.read(os.path.join(C.REPO, "src", "interface.rs"))
    psrc = C.read(os.path.join(C.REPO, "src", "prefs.rs"))
    float_names = C.translate(res, "c12-float", "float-valued preference names of interface.rs", lambda: G.parse_float_names(isrc))
    use_decimal = C.translate(res, "c12-decimal", "USE_DECIMAL_SEPARATOR of prefs.rs", lambda: G.parse_use_decimal(psrc))
    ok, log = C.build_harness()
    if not ok:
        raise RuntimeError("harness build failed: " + log)
    dump = C.one_session([["v_prefs_dump"]])["res"][0]["ok"]
    loadable, fmt = probe_tables([k for _, k, _, _ in dump])
    C.write_if_changed(os.path.join(C.GEN, "PrefsTabs.v"), G.render(float_names, use_decimal, dump, loadable, fmt))
    seed = res.seed if res else 1
    tier = res.tier if res else "quick"
    rng = random.Random(seed * 2741 + 12)
    nh = 120 if tier == "quick" else 1200
    histories = [gen_history(rng, dump, float_names, rng.randint(2, 18)) for _ in range(nh)]
    # the derived separator preferences: every explicit DecimalSeparator in every language state (the shipped Language is
    # Auto), followed by language changes
    for lang0 in [None, "en", "sv", "de-ch", "Auto"]:
        for ds in [",", ".", "Auto", "Custom", ";"]:
            for lang1 in [None, "en", "fi", "es-mx", "Auto"]:
                h = ([("set", "Language", lang0)] if lang0 else []) + [("set", "DecimalSeparator", ds)] + ([("set", "Language", lang1)] if lang1 else []) + \
                    [("other",), ("set", "DecimalSeparator", rng.choice([",", ".", "Auto"]))]
                histories.append(h)
    out = run_histories(histories)
    items, skipped = [], 0
    obs = []
    for h, r in zip(histories, out):
        rs = r.get("res", [])[1:]
        if len(rs) != 2 * len(h) + 1 or "ok" not in rs[-1]:
            skipped += 1
            obs.append((h, None))
            continue
        steps = []
        for i, s in enumerate(h):
            a, b = rs[2 * i], rs[2 * i + 1]
            if s[0] == "set":
                steps.append("(true, %s, %s, %d, %s)" % (cstr(s[1]), cstr(s[2]), ocode(a), "Some " + cstr(b["ok"]) if "ok" in b else "None"))
            else:
                steps.append("(false, [], [], 0, None)")
        d = rs[-1]["ok"]
        du = "[" + "; ".join("(%s, %s)" % (cstr(k), G.yaml_term(kind, v)) for m, k, kind, v in d if m == "user") + "]"
        da = "[" + "; ".join("(%s, %s)" % (cstr(k), G.yaml_term(kind, v)) for m, k, kind, v in d if m == "api") + "]"
        items.append("([%s], %s, %s)" % ("; ".join(steps), du, da))
        obs.append((h, rs))
    body = HEADER + "From MC Require Import Model.Prefs.\n"
    body += "Definition histories : list (list (bool * list N * list N * N * option (list N)) * pmap * pmap) := " + clist(items) + ".\n"
    C.write_if_changed(os.path.join(C.GEN, "C12Obs.v"), body)
    if res is not None:
        res.extra["gen_sources"] = [{"file": "src/interface.rs", "float_names": float_names},
                                    {"file": "src/prefs.rs", "use_decimal_point": len(use_decimal)},
                                    {"runtime_dump": "verif::prefs::dump", "entries": len(dump)}]
        res.extra["tie_histories"] = len(items)
        res.extra["tie_histories_skipped"] = skipped
    return dump, float_names, obs


# --------------------------------------------------------------------------------------------------------------
EXPR = "<math><mrow><mn>1,234.5</mn><mo>+</mo><mfrac><mi>A</mi><mn>2</mn></mfrac></mrow></math>"


def in_force_oracle(res, float_names):
    """a number-valued preference that is accepted after outputs were already produced is in force from then on: the next
    speech is the speech of a session that had the value from the start (their effect is markup, so an engine is selected)"""
    cap = "<math><mrow><mi>A</mi><mo>+</mo><mfrac><mi>B</mi><mn>2</mn></mfrac><mo>=</mo><mi>C</mi></mrow></math>"
    vals = {"MathRate": ["80", "150"], "PauseFactor": ["300", "0"], "CapitalLetters_Pitch": ["30"], "Pitch": ["10"], "Rate": ["250"], "Volume": ["80"]}
    sessions, meta = [], []
    for name in float_names:
        for v in vals.get(name, ["50"]):
            for tts in ("SSML", "SAPI5"):
                late = [["set_preference", "TTS", tts], ["set_mathml", cap], ["get_spoken_text"], ["get_braille", ""], ["set_preference", name, v], ["set_mathml", cap], ["get_spoken_text"]]
                early = [["set_preference", "TTS", tts], ["set_preference", name, v], ["set_mathml", cap], ["get_spoken_text"]]
                sessions += [{"id": len(sessions), "ops": [["set_rules_dir", C.RULES]] + late}, {"id": len(sessions) + 1, "ops": [["set_rules_dir", C.RULES]] + early}]
                meta.append((name, v, tts, late))
    out = C.run_harness(sessions)
    nv = 0
    for i, (name, v, tts, late) in enumerate(meta):
        a, b = (out[2 * i].get("res") or [{}])[-1], (out[2 * i + 1].get("res") or [{}])[-1]
        res.add_case(("in-force", name, v, tts), nontrivial=True)
        if "ok" in b and a != b:
            res.violation("preference %s=%s set after the first outputs is not in force: speech %r, a session that had it from the start says %r" % (name, v, str(a)[:120], str(b)[:120]),
                          {"kind": "history", "history": late, "expected": b, "observed": a, "what": "in force"})
            nv += 1
            if nv >= 3:
                break
    return nv


def property_oracle(res, dump, float_names, obs):
    """direct check of the property on the observed histories + targeted probes (search for a failing input)"""
    nv = 0
    kinds = {}
    for m, k, kind, v in dump:
        if m == "api" or k not in kinds:
            kinds[k] = kind
    known = set(kinds)
    for h, rs in obs:
        if rs is None:
            res.violation("a history of preference calls crashes the session", {"kind": "history", "history": h})
            nv += 1
            continue
        for i, s in enumerate(h):
            if s[0] != "set":
                continue
            a, b = rs[2 * i], rs[2 * i + 1]
            res.add_case(("set", s[1], s[2]), nontrivial=("ok" in a))
            if "panic" in a or "panic" in b:
                res.violation("set_preference(%r, %r) panics: %s" % (s[1], s[2], a.get("panic") or b.get("panic")),
                              {"kind": "history", "history": h[:i + 1], "observed": [a, b]})
                nv += 1
            elif "ok" in a:
                if s[1] not in known:
                    res.violation("unknown preference %r accepted (value %r)" % (s[1], s[2]), {"kind": "history", "history": h[:i + 1]})
                    nv += 1
                elif "ok" not in b:
                    res.violation("accepted preference %r does not read back" % s[1], {"kind": "history", "history": h[:i + 1]})
                    nv += 1
                else:
                    got, v = b["ok"], s[2]
                    want = v
                    if s[1] in ("Language", "LanguageAuto") and v != "Auto":      # documented tag clean-up: first two subtags
                        parts = v.split("-")
                        want = parts[0] + ("-" + parts[1] if len(parts) > 1 and parts[1] else "")
                    if want.lower() in ("true", "false"):
                        want = want.lower()
                    okv = got == want
                    if s[1] in float_names and not okv:
                        try:
                            okv = float(got) == float(v)
                        except ValueError:
                            okv = False
                    if not okv:
                        res.violation("preference %r set to %r reads back as %r" % (s[1], v, got), {"kind": "history", "history": h[:i + 1]})
                        nv += 1
            if nv >= 5:
                return nv
    # rejected calls leave every preference and every output exactly as before; accepted ones persist
    bad_calls = [("NoSuch", "true"), ("NoSuch", "x"), ("SpeechStyle", "true"), ("Bookmark", "maybe"), ("Overview", "x"),
                 ("Pitch", "abc"), ("Language", "eng"), ("LanguageAuto", "Auto"),
                 ("Verbosity", "False"), ("Blind", "x"), ("TTS", "true"), ("language", "en")]
    # values of the right kind that name nothing that exists: the property does not require an error (the file lookup
    # falls back to the default), but IF the call is rejected everything must be as before
    may_reject = [("SpeechStyle", "Bogus"), ("BrailleCode", "Bogus"), ("Language", "zh"), ("Language", "xx")]
    bad_calls = bad_calls + may_reject
    sessions = []
    for n, v in bad_calls:
        ops = [["set_rules_dir", C.RULES], ["set_preference", "Language", "en"], ["set_mathml", EXPR], ["get_spoken_text"], ["get_braille", ""],
               ["v_prefs_dump"], ["set_preference", n, v], ["v_prefs_dump"], ["get_spoken_text"], ["get_braille", ""],
               ["set_mathml", EXPR], ["get_spoken_text"], ["get_braille", ""]]
        sessions.append({"id": len(sessions), "ops": ops})
    out = C.run_harness(sessions)
    for (n, v), r in zip(bad_calls, out):
        rs = r.get("res", [])
        res.add_case(("bad", n, v), nontrivial=True, sample={"rejected_call": [n, v]} if len(res.samples) < 4 else None)
        rep = {"kind": "bad_call", "name": n, "value": v, "results": rs}
        if len(rs) < 13:
            res.violation("session crashes on set_preference(%r, %r)" % (n, v), rep)
            nv += 1
            continue
        call = rs[6]
        if "panic" in call:
            res.violation("set_preference(%r, %r) panics: %s" % (n, v, call["panic"]), rep)
            nv += 1
        elif "ok" in call and (n, v) in may_reject:
            pass
        elif "ok" in call:
            res.violation("bad setting set_preference(%r, %r) is accepted" % (n, v), rep)
            nv += 1
        elif rs[5] != rs[7] or rs[3] != rs[8] or rs[4] != rs[9] or C.norm_ids(json.dumps(rs[3:5])) != C.norm_ids(json.dumps(rs[11:13])):
            res.violation("rejected set_preference(%r, %r) changes preferences or outputs" % (n, v), rep)
            nv += 1
    # an explicit decimal mark takes effect whatever the language preference is (the shipped value is Auto): the derived
    # preference reads back as the mark and a number written with it is one number
    for lang in (None, "Auto", "en", "sv"):
        for mark, num, other in ((",", "3,14", "."), (".", "3.14", ",")):
            ops = ([["set_preference", "Language", lang]] if lang else []) + [["set_preference", "DecimalSeparator", mark], ["get_preference", "DecimalSeparators"],
                                                                            ["set_mathml", "<math><mn>%s</mn><mo>+</mo><mn>1</mn></math>" % num], ["get_spoken_text"]]
            rs = C.one_session(ops)["res"]
            res.add_case(("decimal-mark", lang, mark), nontrivial=True)
            got = rs[-3].get("ok")
            if "ok" in rs[-4] and got != mark:
                res.violation("DecimalSeparator=%r (Language %s) is accepted but the derived DecimalSeparators reads back %r" % (mark, lang or "as shipped", got),
                              {"kind": "decimal_mark", "ops": ops, "results": rs})
                nv += 1
    return nv


def run(res):
    res.rule = ("seeded histories (2-18 steps) of set_preference over all known names + near-miss names x value pools by kind "
                "(boolean spellings, floats, language tags, styles, codes, strings, wrong-kind), interleaved with set_mathml/getters; "
                "non-trivial = distinct (name, value) pairs that were accepted; plus 14 rejected-call probes comparing dumps and outputs")
    dump, float_names, obs = generate(res)

    def on_broken(log):
        return property_oracle(res, dump, float_names, obs) + in_force_oracle(res, float_names) + untouched_oracle(res, dump) > 0
    proved = C.check_proofs(res, "C12", ["Props/C12.vo", "Tie/C12Tie.vo"], "Props/C12.v", search=on_broken)
    if proved:
        property_oracle(res, dump, float_names, obs)
        in_force_oracle(res, float_names)
        untouched_oracle(res, dump)
    res.trusted += ["Rust f64 parse/Display (oracle fmt_float, probed on the library for the values used)",
                    "rule-file lookup (oracle can_load, probed on the library); partial updates of file paths when a lookup fails half-way are not modelled"]
    res.assumptions += ["'affects only the outputs it is documented to affect' is not modelled (needs the rule files); exercised only through the rejected-call probes"]


def replay(path):
    rep = json.load(open(path, encoding="utf-8"))
    if rep.get("kind") == "untouched":
        C.build_harness()
        after = C.one_session(rep["ops"][1:] + [["v_prefs_dump"]])["res"][-1].get("ok")
        diff = [(a, b) for a, b in zip(rep["before"], after or []) if a != b]
        print("preferences changed by %s: %r" % (rep["call"], diff[:5]))
        return 1 if diff else 0
    ok, log = C.build_harness()
    if not ok:
        print("harness build failed", log)
        return 2
    if rep.get("kind") == "history" and rep.get("what") == "in force":
        r = C.one_session(rep["history"])["res"][-1]
        print(r, rep["expected"])
        return 0 if r == rep["expected"] else 1
    if rep.get("kind") == "history":
        out = run_histories([[tuple(s) for s in rep["history"]]])[0]
        print(json.dumps(out, ensure_ascii=False)[:2000])
        rs = out.get("res", [])
        return 1 if any("panic" in x for x in rs) or not rs else 1
    if rep.get("kind") == "bad_call":
        r = C.one_session([["set_preference", rep["name"], rep["value"]]])["res"][0]
        print(r)
        return 0 if "err" in r else 1
    if rep.get("kind") == "decimal_mark":
        rs = C.one_session(rep["ops"])["res"]
        mark = [o for o in rep["ops"] if o[1] == "DecimalSeparator"][0][2]
        print(rs[-3], rs[-1])
        return 0 if rs[-3].get("ok") == mark else 1
    print("replay names a broken obligation, not an input:", rep.get("what"))
    return 1
