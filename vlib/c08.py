"""C08 -- no API call crashes the host; errors are reported and recoverable.
Coq (Props/C08.v): PROGRESS of the shift/reduce machine (with the invariant of C03, every well-formed decision sequence
runs to the end: no panic site of the machine is reachable, the fuel of reduce suffices), the operator-version table
never panics, and the session model (preferences of C12 + expression slot + navigation state of C11): whatever the
history -- errors included -- a successful set_mathml leaves a state that depends only on the preference calls made
and the new expression; calls that return an error for a string leave the expression untouched; no step of the model
panics under the invariants of its parts.
Oracle (search + support): seeded API histories over EVERY public entry point with valid, degenerate, non-MathML and
non-XML strings, every preference name x values of every kind, meaningful and meaningless navigation commands and
key codes, valid and invalid node ids / offsets / braille positions, before and after set_rules_dir / set_mathml:
every call returns a value or an error within the time limit (no panic, no process death); after the history a valid
expression gives exactly what a fresh session with the same accepted preference calls gives; deeply nested input."""
import json
import os
import random
import sys

from . import common as C
from . import exprs as X
from . import c01, c12

sys.path.insert(0, C.VERIF)

GARBAGE = ["", " ", "<", "<math", "<math>", "</math>", "<math></math>", "<math/>", "hello", "<math><mi>x</mi>", "<math><mi>x</mn></math>",
           "<?xml version='1.0'?><math><mi>x</mi></math>", "<!DOCTYPE x><math><mi>x</mi></math>", "<math><mi>&bogus;</mi></math>",
           "<math><mi>&#xD800;</mi></math>", "<math><mi>&#0;</mi></math>", "<math>\x00</math>", "<svg><circle r='1'/></svg>", "<html><body>x</body></html>",
           "<math xmlns='http://www.w3.org/1998/Math/MathML'><mi>x</mi></math>", "<m:math xmlns:m='http://www.w3.org/1998/Math/MathML'><m:mi>x</m:mi></m:math>",
           "<math><foo>x</foo></math>", "<math><mi><mi>x</mi></mi></math>", "<math>text</math>", "<math><mrow>text<mi>x</mi></mrow></math>",
           "<math><mfrac><mi>x</mi></mfrac></math>", "<math><msqrt/></math>", "<math><mroot><mi>x</mi></mroot></math>", "<math><msub><mi>x</mi></msub></math>",
           "<math><mtable><mi>x</mi></mtable></math>", "<math><mtr><mtd><mi>x</mi></mtd></mtr></math>", "<math><mtd><mi>x</mi></mtd></math>",
           "<math><mmultiscripts/></math>", "<math><mmultiscripts><mi>x</mi><mprescripts/><mprescripts/></mmultiscripts></math>",
           "<math><none/></math>", "<math><mprescripts/></math>", "<math><mo></mo></math>", "<math><mn></mn><mn></mn></math>",
           "<math><mi intent='(((('>x</mi></math>", "<math><mrow intent='=приблизительноравно($a,$b)'><mi arg='a'>x</mi><mo>+</mo><mi arg='b'>y</mi></mrow></math>",
           "<math><mrow intent='ab ) ΩΩΩΩΩΩΩΩΩΩΩΩΩΩΩΩΩΩΩΩΩΩΩΩΩΩΩΩΩΩΩΩΩΩΩΩ'><mi arg='a'>x</mi><mo>+</mo><mi arg='b'>y</mi></mrow></math>", "<math><mrow intent='mi($a)($b)'><mi arg='a'>x</mi><mo>+</mo><mi arg='b'>y</mi></mrow></math>",
           "<math><mrow intent='mtext($a)($b)($a)'><mi arg='a'>x</mi><mo>+</mo><mi arg='b'>y</mi></mrow></math>", "<math><mrow intent='f($a'><mi arg='a'>x</mi></mrow></math>", "<math><mi id=''>x</mi></math>",
           "<math><mi id='a'>x</mi><mi id='a'>y</mi></math>", "<math><mi data-maybe-chemistry='x'>H</mi></math>", "<math><mi data-changed='empty_content'/><mi>x</mi></math>",
           "<math><mi>x</mi><mi data-changed='empty_content'/><mi>y</mi></math>", "<math display='block' alttext='&lt;'><mi>x</mi></math>",
           "<math><semantics><annotation>x</annotation></semantics></math>", "<math><semantics/></math>", "<math><mtext>&#xF8FD;</mtext></math>",
           "<math><mtext>[[</mtext></math>", "<math><mo>|</mo><mo>)</mo></math>", "<math><mo>(</mo></math>", "<math><mo>)</mo><mo>(</mo></math>",
           "<math><semantics><annotation-xml encoding='MathML-Presentation'/></semantics></math>",
           "<math><semantics><annotation-xml encoding='MathML-Presentation'><mi>x</mi><mi>y</mi></annotation-xml></semantics></math>",
           "<math><semantics><annotation-xml encoding='MathML-Presentation'>text</annotation-xml></semantics></math>",
           "<math><semantics><annotation-xml encoding='MathML-Content'><ci>x</ci></annotation-xml></semantics></math>",
           "<math><semantics><annotation-xml encoding='MathML-Presentation'><mi>x</mi></annotation-xml><mi>y</mi></semantics></math>",
           "<math><semantics><annotation encoding='application/x-tex'>x</annotation><annotation-xml encoding='MathML-Presentation'/></semantics></math>",
           "<math><semantics><mi>x</mi><annotation-xml encoding='MathML-Presentation'/></semantics></math>",
           "<math><semantics><annotation-xml/></semantics></math>", "<math><annotation-xml encoding='MathML-Presentation'><mi>x</mi></annotation-xml></math>",
           "<math><annotation>x</annotation></math>",
           "<math><mn>1</mn><mo>,</mo></math>", "<math><mo>,</mo><mo>,</mo><mo>,</mo></math>", "﻿<math><mi>x</mi></math>", "<math><mi>" + "x" * 5000 + "</mi></math>",
           "<math>" + "<mi>x</mi>" * 800 + "</math>", "<math><mi>x</mi></math><math><mi>y</mi></math>", "<math><mi>x</mi></math>trailing"]
NAV_JUNK = ["", "zoomin", "ZoomIn ", "MoveTo", "MoveTo10", "MoveTo-1", "SetPlacemarker", "SetPlacemarker99", "Read", "⁡", "ZoomIn\x00", "Exit", "MoveNextNext",
            "DescribeCurrent1", "ToggleSpeakMode", "ToggleZoomLockUp", "ToggleZoomLockDown", "WhereAmI", "WhereAmIAll", "MoveCellUp", "MoveCellDown",
            "MoveColumnStart", "MoveColumnEnd", "MoveLineStart", "MoveLineEnd", "ReadCellCurrent", "MoveLastLocation", "MovePreviousZoom", "MoveNextZoom"]
IDS_JUNK = ["", "nope", "!not set", "M0000000-0", "ID-999", " ", "⁡", "a b", "ID--1", "x" * 300]
DIRS = ["", "/nonexistent/Rules", "/repo/Cargo.toml", "/repo", "/", "/repo/Rules/Languages", "relative/Rules", "/repo/Rules/../Rules"]


BIG = "1234567890" * 4
EXTREME = ["<mfrac><mn>1</mn><mn>%s</mn></mfrac>" % BIG[:21], "<mfrac><mn>%s</mn><mn>%s</mn></mfrac>" % (BIG[:25], BIG[:33]), "<msup><mi>x</mi><mn>%s</mn></msup>" % BIG,
           "<mroot><mi>x</mi><mn>%s</mn></mroot>" % BIG[:22], "<mrow><mn>%s.%s</mn><mo>+</mo><mn>0.%s</mn></mrow>" % (BIG, BIG, BIG), "<mn>%s</mn>" % ("9" * 400),
           "<mrow><mn>1,234,567,890,123,456,789,012,345</mn><mo>&#x2212;</mo><mn>1e400</mn></mrow>", "<msub><mi>a</mi><mn>%s</mn></msub>" % BIG[:30],
           "<mi>%s</mi>" % ("x" * 300), "<mrow><mi>sin</mi><mo>&#x2061;</mo><mn>%s</mn></mrow>" % BIG, "<mfrac><mn>%s</mn><mn>2</mn></mfrac>" % BIG[:20],
           "<mfrac><mn>0</mn><mn>0</mn></mfrac>", "<msup><mn>2</mn><mn>-%s</mn></msup>" % BIG[:25], "<mmultiscripts><mi>C</mi><mn>%s</mn><none/><mprescripts/><mn>%s</mn><mn>%s</mn></mmultiscripts>" % (BIG[:21], BIG[:22], BIG[:23])]


def nav_commands():
    import re
    src = open(os.path.join(C.REPO, "src", "navigate.rs"), encoding="utf-8").read()
    m = re.search(r"static ref NAV_COMMANDS.*?\{(.*?)\};", src, re.S) or re.search(r"NAV_COMMANDS[^=]*=\s*phf_set!\s*\{(.*?)\}", src, re.S)
    names = re.findall(r'"([A-Za-z0-9]+)"', m.group(1)) if m else []
    return sorted(set(names)) or ["ZoomIn", "ZoomOut", "MoveNext", "MovePrevious", "ReadNext", "ReadCurrent", "DescribeCurrent", "MoveStart", "MoveEnd"]


def pref_names():
    r = C.one_session([["v_prefs_dump"]])["res"][0].get("ok") or []
    return sorted(set(k for _, k, _, _ in r)), {k: kind for _, k, kind, _ in r}


OPTIONS = {}


def gen_history(rng, names, kinds, cmds, bodies, length):
    if not OPTIONS:
        OPTIONS.update({k: v for k, v in C.pref_options().items() if len(v) > 1})
    ops = []
    if rng.random() < 0.85:
        ops.append(["set_rules_dir", C.RULES])
    for _ in range(length):
        r = rng.random()
        if r < 0.04:
            ops.append(["set_rules_dir", rng.choice(DIRS + [C.RULES, C.RULES])])
        elif r < 0.22:
            q = rng.random()
            s = X.math(rng.choice(bodies)) if q < 0.45 else (X.math(c01.degenerate(rng, rng.randint(1, 4))) if q < 0.75 else rng.choice(GARBAGE))
            ops.append(["set_mathml", s])
        elif r < 0.29:
            # a documented value of a documented preference (the options the rules branch on)
            n = rng.choice(sorted(OPTIONS))
            ops.append(["set_preference", n, rng.choice(OPTIONS[n])])
        elif r < 0.40:
            n = rng.choice(names + c12.UNKNOWN_NAMES)
            k = kinds.get(n)
            pool = rng.choice([c12.BOOL_VALUES, c12.FLOAT_VALUES, c12.STRING_VALUES, c12.LANG_VALUES, c12.STYLE_VALUES, c12.CODE_VALUES]) if rng.random() < 0.4 else \
                (c12.BOOL_VALUES if k == "boolean" else c12.LANG_VALUES if n.startswith("Language") else c12.CODE_VALUES if n == "BrailleCode" else
                 c12.STYLE_VALUES if n == "SpeechStyle" else c12.FLOAT_VALUES if k in ("real", "integer") else c12.STRING_VALUES)
            ops.append(["set_preference", n, rng.choice(pool)])
        elif r < 0.45:
            ops.append(["get_preference", rng.choice(names + c12.UNKNOWN_NAMES)])
        elif r < 0.62:
            ops.append(rng.choice([["get_spoken_text"], ["get_braille", ""], ["get_braille", rng.choice(IDS_JUNK)], ["v_get_braille_norm", "ID-%d" % rng.randint(0, 12)],
                                   ["get_overview_text"], ["get_navigation_braille"], ["get_navigation_mathml"], ["get_navigation_mathml_id"],
                                   ["get_braille_position"], ["get_version"]]))
        elif r < 0.82:
            ops.append(["do_navigate_command", rng.choice(cmds) if rng.random() < 0.8 else rng.choice(NAV_JUNK)])
        elif r < 0.88:
            ops.append(["do_navigate_keypress", rng.choice([37, 38, 39, 40, 13, 32, 36, 35, 8, 9, 27, 48, 49, 57, 65, 90, 0, 255, 1000, 99999]) if rng.random() < 0.5 else rng.randint(0, 255),
                        rng.random() < 0.3, rng.random() < 0.3, rng.random() < 0.2, rng.random() < 0.1])
        elif r < 0.94:
            ops.append(["set_navigation_node", rng.choice(IDS_JUNK), rng.choice([0, 1, 5, 10 ** 6])] if rng.random() < 0.5 else
                       ["v_set_navigation_node_norm", "ID-%d" % rng.randint(0, 12), rng.choice([0, 0, 1, 2, 77])])
        else:
            ops.append(["get_navigation_node_from_braille_position", rng.choice([0, 1, 2, 5, 17, 200, 10 ** 9])])
    return ops


FINAL = ["<mrow><mi>x</mi><mo>=</mo><mfrac><mrow><mo>-</mo><mi>b</mi><mo>&#xB1;</mo><msqrt><mrow><msup><mi>b</mi><mn>2</mn></msup><mo>-</mo><mn>4</mn><mi>a</mi><mi>c</mi></mrow></msqrt></mrow>"
         "<mrow><mn>2</mn><mi>a</mi></mrow></mfrac></mrow>", "<mrow><mn>1,234.5</mn><mo>+</mo><mi>sin</mi><mo>&#x2061;</mo><mi>x</mi></mrow>"]


def final_queries(body):
    return [["set_mathml", X.math(body)], ["get_spoken_text"], ["get_braille", ""], ["get_overview_text"], ["do_navigate_command", "ZoomIn"],
            ["do_navigate_command", "MoveNext"], ["get_navigation_braille"], ["get_braille_position"]]


def norm(o):
    if "ok" in o:
        return {"ok": C.norm_ids_deep(o["ok"])}
    if "err" in o:
        return {"err": True}
    return o


def deep(n, tag="mrow"):
    return "<math>" + ("<%s>" % tag) * n + "<mi>x</mi>" + ("</%s>" % tag) * n + "</math>"


KF_DEEP = "deep-nesting-overflows-the-stack"


def depth_probe(res):
    """nesting depth: errors or results up to the limit the harness thread's stack allows; a process death is the
    recorded finding (recursive descent without a depth limit)"""
    kf = {k["id"] for k in C.known_findings("C08")}
    worst = None
    ladder = [("mrow", 1000), ("msqrt", 200), ("mrow", 20000)] if res.tier == "quick" else \
        [("mrow", 1000), ("mstyle", 5000), ("msqrt", 200), ("msqrt", 1000), ("mrow", 20000), ("msqrt", 5000)]
    for tag, n in ladder:
        r = C.run_harness([{"id": 0, "stack_mb": 8, "ops": [["set_rules_dir", C.RULES], ["set_mathml", deep(n, tag)], ["get_spoken_text"], ["get_braille", ""]]}], threads=1)[0]
        if "crash" in r or "timeout" in r:
            worst = (n, tag, r.get("crash", "timeout"))
            break
        pan = [x for x in r.get("res", []) if "panic" in x]
        if pan:
            res.violation("nesting depth %d of <%s>: panic %s" % (n, tag, pan[0]["panic"][:150]), {"kind": "deep", "depth": n, "tag": tag})
            return 1
    res.extra["deepest_nesting_survived_8MB_stack"] = None if worst is None else "below %d" % worst[0]
    if worst:
        if KF_DEEP in kf:
            res.known("%s: <%s> nested %d deep on an 8 MB stack: the process dies (%s)" % (KF_DEEP, worst[1], worst[0], worst[2]))
        else:
            res.violation("<%s> nested %d deep: the process dies (%s)" % (worst[1], worst[0], worst[2]), {"kind": "deep", "depth": worst[0], "tag": worst[1]})
            return 1
    return 0


def arity_sweep(tier):
    """every element whose children are counted, with every small list of children it must refuse or accept: fixed-arity
    elements with 0-4 children, mmultiscripts with every arrangement of scripts, <none/> and <mprescripts/> up to 5 (6)
    children, table parts outside / inside tables"""
    import itertools
    out = []
    atoms = ["<mi>x</mi>", "<mn>1</mn>", "<mrow/>", "<none/>"]
    for tag in ("mfrac", "mroot", "msub", "msup", "msubsup", "munder", "mover", "munderover", "msqrt", "menclose", "mpadded", "mstyle", "mphantom",
                "merror", "mtable", "mtr", "mlabeledtr", "mtd", "semantics", "mfenced", "maction"):
        for n in range(0, 5):
            kids = "".join(atoms[(n + i) % len(atoms)] for i in range(n))
            out.append("<math><%s>%s</%s></math>" % (tag, kids, tag))
            out.append("<math><mrow><mi>a</mi><mo>+</mo><%s>%s</%s></mrow></math>" % (tag, kids, tag))
    ms = ["<mi>x</mi>", "<none/>", "<mprescripts/>"]
    for n in range(0, 6 if tier == "quick" else 7):
        for combo in itertools.product(ms, repeat=n):
            out.append("<math><mmultiscripts>%s</mmultiscripts></math>" % "".join(combo))
    return out


def histories(res):
    tier = res.tier if res else "quick"
    rng = random.Random((res.seed if res else 1) * 4099 + 8)
    names, kinds = pref_names()
    cmds = nav_commands()
    bodies = list(X.FIXED) + EXTREME + [X.gen(rng, 3, kinds=X.MORE_KINDS) for _ in range(30)]
    n = 160 if tier == "quick" else 2400
    hs = []
    for i in range(n):
        h = gen_history(rng, names, kinds, cmds, bodies, rng.randint(3, 40))
        hs.append((h, rng.choice(FINAL)))
    # numbers that are turned into words (ordinals, fractions) at the edges of every language's number tables: powers of a
    # thousand, with and without leading digits, as exponent, root index, numerator and denominator
    from . import speechtexts as ST
    edge = []
    for k in range(3, 28, 3):
        for lead in ("1", "12", "345", "1001"):
            edge.append(lead + "0" * k)
    edge += ["1" + "0" * 15, "999999999999999999", "1000000000000000000000", "20", "100", "101", "1000", "1001", "2000000", "0", "00", "007"]
    for lang in ST.languages():
        for style in ("ClearSpeak", "SimpleSpeak"):
            h = [["set_rules_dir", C.RULES], ["set_preference", "Language", lang], ["set_preference", "SpeechStyle", style]]
            for nme in (edge if tier != "quick" else edge[::3] + edge[-12:]):
                for t in ("<msup><mi>x</mi><mn>%s</mn></msup>", "<mroot><mi>x</mi><mn>%s</mn></mroot>", "<mfrac><mn>1</mn><mn>%s</mn></mfrac>", "<mfrac><mn>%s</mn><mn>3</mn></mfrac>"):
                    h += [["set_mathml", X.math(t % nme)], ["get_spoken_text"]]
            hs.append((h, rng.choice(FINAL)))
    # before the first set_rules_dir: every preference set to the value it already has, to each documented value and to
    # junk, every query, every navigation call
    defaults = [(k, v) for _, k, _, v in (C.one_session([["v_prefs_dump"]])["res"][0].get("ok") or [])]
    opts = {k: v for k, v in C.pref_options().items()}
    for k, v in defaults:
        vals = [str(v), str(v)] + list(opts.get(k, []))[:6] + ["", "junk"]
        for val in (vals if tier != "quick" else vals[:3]):
            hs.append(([["set_preference", k, val], ["get_preference", k], ["set_preference", k, val]], rng.choice(FINAL)))
    hs.append(([["set_preference", k, str(v)] for k, v in defaults], rng.choice(FINAL)))
    for q in (["get_spoken_text"], ["get_braille", ""], ["get_overview_text"], ["get_navigation_braille"], ["get_navigation_mathml"], ["get_navigation_mathml_id"],
              ["get_braille_position"], ["do_navigate_command", "ZoomIn"], ["do_navigate_keypress", 39, False, False, False, False], ["set_navigation_node", "x", 0],
              ["get_navigation_node_from_braille_position", 0], ["set_mathml", "<math><mi>x</mi></math>"]):
        hs.append(([q, q], rng.choice(FINAL)))
    # number-valued preferences at the ends of what set_preference accepts, with and without a speech engine, on an
    # expression whose speech has pauses next to each other
    nested = X.math("<mrow><mfrac><mrow><mi>x</mi><mo>+</mo><mn>1</mn></mrow><mi>y</mi></mfrac><mo>+</mo><mfrac><mfrac><mi>a</mi><mi>b</mi></mfrac><mi>c</mi></mfrac><mo>=</mo><mi>A</mi></mrow>")
    for k in ("Rate", "PauseFactor", "MathRate", "Pitch", "Volume", "CapitalLetters_Pitch"):
        for v in ("0.000000000000001", "1e-30", "1e-300", "0", "-1", "-1e30", "1e30", "1e300", "100000000000000000000", "NaN", "inf", "-inf"):
            for tts in (("SSML", "SAPI5", "none") if tier != "quick" else (rng.choice(["SSML", "SAPI5"]),)):
                hs.append(([["set_rules_dir", C.RULES], ["set_preference", "TTS", tts], ["set_preference", k, v], ["set_mathml", nested], ["get_spoken_text"], ["get_overview_text"],
                            ["do_navigate_command", "ZoomIn"], ["do_navigate_command", "ReadNext"], ["get_braille", ""]], rng.choice(FINAL)))
    # every fixed intent value of the C19 pool (illegal, odd, long, with characters of several bytes), spoken, overviewed and
    # navigated in both recovery modes
    from . import c19
    for mode in ("IgnoreIntent", "Error"):
        h = [["set_rules_dir", C.RULES], ["set_preference", "IntentErrorRecovery", mode]]
        for v in c19.FIXED:
            h += [["set_mathml", c19.expr(v)], ["get_spoken_text"], ["do_navigate_command", "ZoomIn"], ["get_overview_text"]]
        hs.append((h, rng.choice(FINAL)))
    # every key code with every modifier combination, on an expression with a table
    tab = X.math("<mrow><mi>x</mi><mo>=</mo><mtable><mtr><mtd><mn>1</mn></mtd><mtd><mn>2</mn></mtd></mtr><mtr><mtd><mn>3</mn></mtd><mtd><mfrac><mn>1</mn><mn>2</mn></mfrac></mtd></mtr></mtable></mrow>")
    for mods in range(16 if tier != "quick" else 4):
        h = [["set_rules_dir", C.RULES], ["set_mathml", tab]]
        for key in range(0, 256):
            h.append(["do_navigate_keypress", key, bool(mods & 1), bool(mods & 2), bool(mods & 4), bool(mods & 8)])
        hs.append((h, rng.choice(FINAL)))
    # the arity sweep: ill-formed and borderline elements one after the other in one session, a query after each
    sweep = arity_sweep(tier)
    for i in range(0, len(sweep), 40):
        h = [["set_rules_dir", C.RULES]]
        for m in sweep[i:i + 40]:
            h += [["set_mathml", m], rng.choice([["get_spoken_text"], ["get_braille", ""], ["do_navigate_command", "ZoomIn"], ["get_overview_text"]])]
        hs.append((h, rng.choice(FINAL)))
    return hs, {"preference_names": len(names), "navigation_commands": len(cmds), "arity_sweep_inputs": len(sweep)}


def oracle(res):
    hs, info = histories(res)
    res.extra.update(info)
    sessions = [{"id": i, "ops": h + [["set_rules_dir", C.RULES]] + final_queries(b)} for i, (h, b) in enumerate(hs)]
    out = C.run_harness_isolating(sessions, timeout=1800)
    found = 0
    kinds = {}
    fresh_in = []
    for (h, b), s, r in zip(hs, sessions, out):
        rr = r.get("res") or []
        ops = s["ops"]
        res.add_case(json.dumps(h, ensure_ascii=False)[:4000], len(h) > 10, "%d calls" % len(h))
        for op in h:
            kinds[op[0]] = kinds.get(op[0], 0) + 1
        if len(rr) != len(ops):
            found += 1
            res.violation("a %d-call history kills the process or does not return (%s)" % (len(h), r.get("crash", "timeout")),
                          {"kind": "history", "ops": ops, "what": "process death"})
            continue
        pan = [(i, x) for i, x in enumerate(rr) if "panic" in x]
        kf_sites = [k.get("site") for k in C.known_findings("C08") if k.get("site")]
        if pan and all(any(s in x["panic"] for s in kf_sites) for _, x in pan):
            i, x = pan[0]
            res.known("operand-after-whitespace-operator-assert: %s of %s" % (ops[i][0], json.dumps(ops[i][1:], ensure_ascii=False)[:160]))
            continue
        pan = [(i, x) for i, x in pan if not any(s in x["panic"] for s in kf_sites)]
        if pan:
            i, x = pan[0]
            found += 1
            res.violation("%s panics after %d earlier calls: %s (argument %s)" % (ops[i][0], i, x["panic"][:160], json.dumps(ops[i][1:], ensure_ascii=False)[:200]),
                          {"kind": "history", "ops": ops[:i + 1], "what": "panic", "step": i})
            if found >= 5:
                break
            continue
        # the fresh session: the configuration calls of the history (every set_rules_dir, every set_preference, accepted or
        # not), in order, then the final expression
        accepted = [op for op in ops[:len(h)] if op[0] in ("set_rules_dir", "set_preference")]
        fresh_in.append((len(fresh_in), h, b, accepted, [norm(x) for x in rr[-len(final_queries(b)):]]))
    fresh = C.run_harness_isolating([{"id": i, "ops": acc + [["set_rules_dir", C.RULES]] + final_queries(b)} for i, h, b, acc, _ in fresh_in], timeout=1800)
    names = ["set_mathml", "speech", "braille", "overview", "ZoomIn", "MoveNext", "navigation braille", "braille position"]
    for (i, h, b, acc, got), f in zip(fresh_in, fresh):
        if found >= 5:
            break
        fr = [norm(x) for x in (f.get("res") or [])[-len(got):]]
        if len(fr) != len(got):
            continue
        # preferences that toggle navigation state (modes) are part of the state a fresh session does not share
        for nm, x, y in zip(names, got, fr):
            if x != y:
                found += 1
                res.violation("after a %d-call history %s of a valid expression differs from a fresh session given the same configuration calls: %s vs %s"
                              % (len(h), nm, str(x)[:150], str(y)[:150]),
                              {"kind": "recovery", "history": h, "body": b, "accepted": acc, "what": nm})
                break
    res.extra["calls_by_entry_point"] = kinds
    return found


def run(res):
    res.rule = ("160 (quick) / 2400 seeded histories of 3-40 calls over every public entry point: set_rules_dir (valid and 8 invalid), set_mathml (textbook, seeded, "
                "degenerate trees, 60 malformed / non-MathML / non-XML strings), set_preference / get_preference (every name of the dump + unknown names x values of "
                "every kind, and the documented options of Rules/prefs.yaml), all getters incl. junk navigation ids, every navigation command of NAV_COMMANDS + 29 junk names, key codes with modifier "
                "combinations, set_navigation_node with valid / invalid ids and offsets, braille positions up to 10^9; with and without set_rules_dir first; "
                "then set_rules_dir + a valid expression compared with a fresh session given the accepted preference calls; nesting depth probe on an 8 MB stack; "
                "non-trivial = histories longer than 10 calls")
    from . import c03, c11, c12
    c03.generate(res)          # the observations the ties of the composed models are checked against are regenerated here
    c11.generate(res)
    c12.generate(res)

    def on_broken(log):
        return c11.key_press_search(res, getattr(res, "key_press_rows", []), "C08") + oracle(res) > 0
    proved = C.check_proofs(res, "C08", ["Props/C08.vo", "Tie/C03Tie.vo", "Tie/C11Tie.vo", "Tie/C12Tie.vo", "Tie/KeyPressTie.vo"], "Props/C08.v", search=on_broken)
    if proved:
        oracle(res)
        depth_probe(res)
    res.trusted += ["harness: catch_unwind + panic hook around every call, one fresh thread per session, process-death isolation (a session that kills the "
                    "process is re-run alone)", "the ties of C03 (parser model), C11 (navigation model) and C12 (preference model), which the session model is composed of"]
    res.assumptions += ["proved: progress and safety of the shift/reduce machine for well-formed decision sequences, totality of the operator-version table, the session "
                        "model's recovery / atomicity statements; NOT proved: that every input yields well-formed decisions (plain rows: C03 tie), the clean-up passes, "
                        "chemistry, intent inference, XPath evaluation, braille back ends -- for those 'never panics' is decided by the history oracle only",
                        "non-termination is detected by the per-run time limit only", "memory safety is Rust's; unsafe blocks of dependencies are not examined"]


def replay(path):
    rep = json.load(open(path, encoding="utf-8"))
    ok, log = C.build_harness()
    if not ok:
        print("harness build failed", log)
        return 2
    if rep.get("kind") == "history":
        r = C.run_harness_isolating([{"id": 0, "ops": rep["ops"]}])[0]
        rr = r.get("res") or []
        if len(rr) != len(rep["ops"]):
            print("FAILS: the process dies / does not return")
            return 1
        pan = [x for x in rr if "panic" in x]
        print("FAILS: " + pan[0]["panic"][:200] if pan else "every call of the recorded history returns")
        return 1 if pan else 0
    if rep.get("kind") == "recovery":
        h, b, acc = rep["history"], rep["body"], rep["accepted"]
        a = C.run_harness_isolating([{"id": 0, "ops": h + [["set_rules_dir", C.RULES]] + final_queries(b)}, {"id": 1, "ops": acc + [["set_rules_dir", C.RULES]] + final_queries(b)}])
        n = len(final_queries(b))
        x = [norm(v) for v in (a[0].get("res") or [])[-n:]]
        y = [norm(v) for v in (a[1].get("res") or [])[-n:]]
        for p, q in zip(x, y):
            print("same" if p == q else "DIFF", str(p)[:100], "|", str(q)[:100])
        return 1 if x != y else 0
    if rep.get("kind") == "deep":
        r = C.run_harness([{"id": 0, "stack_mb": 8, "ops": [["set_rules_dir", C.RULES], ["set_mathml", deep(rep["depth"], rep["tag"])]]}], threads=1)[0]
        print("FAILS" if "crash" in r else "returns")
        return 1 if "crash" in r else 0
    print("replay names a broken obligation, not an input:", rep.get("what"))
    return 1
