"""C11 -- navigation always rests on a node of the current expression.
Coq: state-machine theorems for every expression, command, rule behaviour and history (Props/C11.v);
tie: seeded navigation histories; the model, fed the logged rule outcomes, predicts status + stacks + markers
after every command (Tie/C11Tie.v, kernel-checked).
Library oracle (search + support): position retrievable and inside the current expression after every command,
read-only commands do not move, place-marker round trip, undo, reset on set_mathml."""
import json
import os
import random
import re
import sys

from . import common as C
from . import exprs as X

sys.path.insert(0, C.VERIF)
from gen.coqfmt import HEADER, clist, cstr


class GenError(Exception):
    pass


def parse_commands(src):
    m = re.search(r"pub static NAV_COMMANDS: phf::Set<&str> = phf_set! \{(.*?)\};", src, re.S)
    if not m:
        raise GenError("NAV_COMMANDS not found")
    cmds = re.findall(r'"([A-Za-z0-9]+)"', m.group(1))
    mm = re.search(r"const MAX_PLACE_MARKERS: usize = (\d+);", src)
    if not mm:
        raise GenError("MAX_PLACE_MARKERS not found")
    return cmds, int(mm.group(1))


NAV_EXPRS = [
    "<mrow><mn>2</mn><mo>&#x2062;</mo><mi>a</mi><mo>&#x2062;</mo><mi>x</mi><mo>+</mo><mi>b</mi></mrow>",
    "<mrow><mfrac><mrow><mi>a</mi><mo>+</mo><mn>1</mn></mrow><mi>b</mi></mfrac><mo>=</mo><msup><mi>x</mi><mn>2</mn></msup></mrow>",
    "<mrow><mo>(</mo><mtable><mtr><mtd><mn>1</mn></mtd><mtd><mn>2</mn></mtd></mtr><mtr><mtd><mn>3</mn></mtd><mtd><mn>4</mn></mtd></mtr></mtable><mo>)</mo></mrow>",
    "<mrow><mi>sin</mi><mo>&#x2061;</mo><mi>x</mi><mo>+</mo><msqrt><mrow><mi>y</mi><mo>-</mo><mn>12</mn></mrow></msqrt></mrow>",
    "<mi>x</mi>",
    "<mrow><mi>f</mi><mo>&#x2061;</mo><mrow><mo>(</mo><mi>x</mi><mo>)</mo></mrow></mrow>",
    "<mrow><munderover><mo>&#x2211;</mo><mrow><mi>i</mi><mo>=</mo><mn>1</mn></mrow><mi>n</mi></munderover><msub><mi>a</mi><mi>i</mi></msub></mrow>",
    "<mo>&#x2062;</mo>",
    "<mrow><mn>3</mn><mo>&#x2062;</mo><mi>y</mi></mrow>",
]


def ids_of(mathml):
    return re.findall(r"\bid='([^']*)'", mathml)


def leaves_of(mathml):
    return re.findall(r"<(?:mi|mn|mo|mtext|ms|mspace|mglyph)\b[^>]*\bid='([^']*)'", mathml)


RETRY_EXPRS = [
    "<mrow><mn>2</mn><mo>&#x2062;</mo><mi>a</mi><mo>&#x2062;</mo><mi>x</mi><mo>+</mo><mi>b</mi></mrow>",
    "<mrow><mn>3</mn><mo>&#x2062;</mo><mi>y</mi></mrow>",
    "<mrow><mi>sin</mi><mo>&#x2061;</mo><mi>x</mi><mo>+</mo><mn>2</mn><mo>&#x2062;</mo><msqrt><mi>y</mi></msqrt></mrow>",
    "<mrow><mi>a</mi><mo>&#x2062;</mo><mi>b</mi><mo>&#x2062;</mo><mi>c</mi><mo>&#x2062;</mo><mi>d</mi></mrow>",
    "<mrow><mn>1</mn><mo>&#x2064;</mo><mfrac><mn>2</mn><mn>3</mn></mfrac><mo>-</mo><mi>f</mi><mo>&#x2061;</mo><mrow><mo>(</mo><mi>x</mi><mo>)</mo></mrow></mrow>",
]


def gen_retry_session(rng):
    """sessions aimed at the retry loop: stepping across invisible operators (no speech -> the rules are applied
    again), then undoing, in every mode"""
    steps = [("pref", "NavMode", rng.choice(["Enhanced", "Enhanced", "Simple", "Character"]))]
    steps.append(("expr", X.math(rng.choice(RETRY_EXPRS))))
    steps.append(("cmd", rng.choice(["ZoomInAll", "ZoomIn", "MoveStart"])))
    for _ in range(rng.randint(3, 12)):
        steps.append(("cmd", rng.choice(["MoveNext", "MoveNext", "MoveNext", "MovePrevious", "MoveLastLocation", "ZoomIn", "ZoomOut",
                                         "ReadNext", "ReadCurrent", "DescribeNext", "SetPlacemarker1", "MoveTo1", "MoveEnd"])))
    return steps


def gen_session(rng, cmds, tier):
    """a session script: list of abstract steps; ids are resolved while running (two-phase: run set_mathml first)"""
    if rng.random() < 0.3:
        return gen_retry_session(rng)
    steps = [("pref", "NavMode", rng.choice(["Enhanced", "Simple", "Character"]))]
    if rng.random() < 0.3:
        steps.append(("pref", "Language", rng.choice(NAV_LANGS)))
    if rng.random() < 0.4:
        steps.append(("pref", "NavVerbosity", rng.choice(["Terse", "Medium", "Verbose"])))
    if rng.random() < 0.3:
        steps.append(("pref", "Overview", rng.choice(["true", "false"])))
    if rng.random() < 0.3:
        steps.append(("pref", "AutoZoomOut", rng.choice(["true", "false"])))
    n_expr = rng.choice([1, 1, 2, 3])
    weights = []
    for c in cmds:
        w = 4 if c.startswith(("Move", "Zoom")) else 1
        if c in ("MoveLastLocation",):
            w = 8
        if c.startswith(("MoveTo", "SetPlacemarker")):
            w = 2
        weights.append(w)
    body = None
    for e in range(n_expr):
        # the same expression set again (byte for byte) is a new expression like any other: new ids, navigation state forgotten
        if body is None or rng.random() > 0.35:
            body = rng.choice(NAV_EXPRS) if rng.random() < 0.6 else X.gen(rng, 2)
        steps.append(("expr", X.math(body)))
        for _ in range(rng.randint(1, 14 if tier == "quick" else 40)):
            r = rng.random()
            if r < 0.08:
                steps.append(("setnode", rng.random(), rng.choice([0, 0, 0, 1, 2])))
            elif r < 0.12:
                steps.append(("setnode_bad", rng.choice(["nope", "", "!not set"]), rng.choice([0, 1])))
            else:
                steps.append(("cmd", rng.choices(cmds, weights)[0]))
    return steps


NAV_LANGS = ["en", "es", "fi", "id", "sv", "vi", "zh-tw"]


def placemarker_sessions(rng, tier):
    """every language's navigation rules x NavVerbosity x NavMode: mark a node, move away, come back, read and describe the
    mark, undo (the rule files are per language: a rule that computes the node to go to can differ in one of them only)"""
    out = []
    for lang in NAV_LANGS:
        for verb in ("Terse", "Medium", "Verbose"):
            modes = ["Enhanced", "Simple", "Character"] if tier != "quick" else [rng.choice(["Enhanced", "Simple", "Character"])]
            for mode in modes:
                k = rng.randint(0, 9)
                e0 = X.math(rng.choice(NAV_EXPRS))
                steps = [("pref", "Language", lang), ("pref", "NavVerbosity", verb), ("pref", "NavMode", mode),
                         ("expr", e0), ("cmd", "ZoomIn"), ("cmd", "SetPlacemarker%d" % k), ("cmd", "MoveNext"),
                         ("cmd", rng.choice(["MoveNext", "ZoomIn", "MoveEnd"])), ("cmd", "MoveTo%d" % k), ("cmd", "MoveLastLocation"),
                         ("cmd", "Read%d" % k), ("cmd", "Describe%d" % k), ("cmd", "MoveTo%d" % k), ("cmd", "MovePrevious"), ("cmd", "MoveLastLocation"),
                         # the same expression set again: its marks are gone like those of any other expression
                         ("expr", e0), ("cmd", "ZoomIn"), ("cmd", "MoveTo%d" % k), ("cmd", "Read%d" % k), ("cmd", "MoveNext")]
                out.append(steps)
    # every way back to an empty history (undo more often than there were moves, undo right after the node was set, undo as
    # the first command), with a marker set, then another expression: its markers are gone
    for mode in ("Enhanced", "Simple", "Character"):
        k = rng.randint(0, 9)
        e0, e1 = X.math(NAV_EXPRS[0]), X.math(NAV_EXPRS[1 % len(NAV_EXPRS)])
        for middle in ([("cmd", "ZoomIn"), ("cmd", "MoveNext"), ("cmd", "SetPlacemarker%d" % k)] + [("cmd", "MoveLastLocation")] * 4,
                       [("setnode", 0.5, 0), ("cmd", "SetPlacemarker%d" % k), ("cmd", "MoveLastLocation"), ("cmd", "MoveLastLocation")],
                       [("cmd", "MoveLastLocation"), ("cmd", "ZoomIn"), ("cmd", "SetPlacemarker%d" % k), ("cmd", "MoveLastLocation"), ("cmd", "MoveLastLocation")]):
            out.append([("pref", "NavMode", mode), ("expr", e0)] + middle + [("expr", e1), ("cmd", "MoveTo%d" % k), ("cmd", "Read%d" % k), ("cmd", "MoveNext"),
                                                                          ("expr", e0), ("cmd", "Describe%d" % k), ("cmd", "MoveTo%d" % k)])
    return out


def long_walks(rng, tier):
    """walks longer than any bound the undo history may have: back and forth over a row (a period that shares nothing with
    powers of two); around every size at which a bounded history could be cut (powers of two, round numbers) each move is
    undone at once and made again, so that 'undo returns to where the move started' is asked at every history length"""
    out = []
    for mode, n, zones in ([("Simple", 275, [(120, 135), (245, 275)])] if tier == "quick" else
                           [("Simple", 275, [(0, 275)]), ("Enhanced", 530, [(60, 70), (120, 135), (250, 262), (505, 530)]), ("Character", 1040, [(995, 1040)]),
                            ("Simple", 2060, [(2040, 2060)])]):
        steps = [("pref", "NavMode", mode), ("expr", X.math("<mrow><mi>a</mi><mo>+</mo><mi>b</mi><mo>+</mo><mi>c</mi><mo>+</mo><mi>d</mi></mrow>")), ("cmd", "ZoomIn")]
        k = 0
        while k < n:
            for c in ["MoveNext"] * 6 + ["MovePrevious"] * 6:
                steps.append(("cmd", c))
                if any(lo <= k < hi for lo, hi in zones):
                    steps += [("cmd", "MoveLastLocation"), ("cmd", c)]
                k += 1
        steps += [("cmd", "MoveNext"), ("cmd", "MoveLastLocation"), ("cmd", "MoveLastLocation"), ("cmd", "MoveLastLocation"), ("cmd", "MoveNext"), ("cmd", "MoveLastLocation")]
        out.append(steps)
    return out


def run_sessions(scripts):
    """two passes: first learn the ids (set_mathml only, ids are random per call but we only need their structure:
    the harness session resolves 'setnode' fractions against the ids returned by the preceding set_mathml)."""
    # Because ids carry a random prefix, the session is run in ONE harness call where setnode picks by index: we
    # pre-run each expression in a scratch session to learn how many ids / which are leaves (positions are stable).
    exprs = sorted(set(s[1] for sc in scripts for s in sc if s[0] == "expr"))
    pre = C.one_session([["set_mathml", e] for e in exprs])["res"]
    shape = {}
    for e, x in zip(exprs, pre):
        m = x.get("ok", "")
        shape[e] = (ids_of(C.norm_ids(m)), set(leaves_of(C.norm_ids(m))))
    sessions = []
    plans = []
    for i, sc in enumerate(scripts):
        ops, plan = [["set_rules_dir", C.RULES]], []
        cur = None
        for s in sc:
            if s[0] == "pref":
                ops.append(["set_preference", s[1], s[2]])
                plan.append(("pref",))
            elif s[0] == "expr":
                cur = s[1]
                ops.append(["set_mathml", s[1]])
                ops.append(["v_nav_state"])
                plan.append(("expr", s[1]))
            elif s[0] == "cmd":
                ops.append(["do_navigate_command", s[1]])
                ops.append(["v_nav_state"])
                ops.append(["get_navigation_mathml"])
                plan.append(("cmd", s[1]))
            elif s[0] in ("setnode", "setnode_bad"):
                ids, leaves = shape.get(cur, ([], set()))
                if s[0] == "setnode" and ids:
                    nid = ids[int(s[1] * len(ids)) % len(ids)]
                    plan.append(("setnode", nid, s[2], (nid in leaves) or s[2] == 0))
                    ops.append(["v_set_navigation_node_norm", nid, s[2]])
                else:
                    nid = s[1] if s[0] == "setnode_bad" else "nope"
                    plan.append(("setnode", nid, s[2], True))
                    ops.append(["v_set_navigation_node_norm", nid, s[2]])
                ops.append(["v_nav_state"])
                ops.append(["get_navigation_mathml"])
        sessions.append({"id": i, "ops": ops})
        plans.append(plan)
    out = C.run_harness(sessions)
    return plans, out, shape


def parse_log(log, status_err):
    """log lines of one command -> list of rule_out tuples (err,node,off,mode,overview,speak,speech_err,speech_empty)"""
    outs, i = [], 0
    while i < len(log):
        parts = log[i].split("\t")
        if parts[0] != "R":
            i += 1
            continue
        node, off, mode, ov = parts[1], int(parts[2]), parts[3], parts[4] == "true"
        if i + 1 < len(log) and log[i + 1].startswith("S\t"):
            sp = log[i + 1].split("\t")
            if sp[1] == "spoken":
                outs.append((False, node, off, mode, ov, True, False, sp[2] == "true"))
            else:
                outs.append((False, node, off, mode, ov, False, False, False))
            i += 2
        else:
            outs.append((False, node, off, mode, ov, True, True, False))     # speaking the landing node failed
            i += 1
    if status_err and (not outs or not outs[-1][6]) and not (len(outs) == 3 and all(o[7] for o in outs)):
        # the command failed before (or while) the rules produced an outcome
        outs.append((True, None, 0, "", False, False, False, False))
    return outs


def b(x):
    return "true" if x else "false"


def out_term(o):
    err, node, off, mode, ov, speak, sperr, spempty = o
    return "mkout %s %s %d %s %s %s %s %s" % (b(err), "None" if node is None else "(Some %s)" % cstr(node), off, cstr(mode), b(ov), b(speak), b(sperr), b(spempty))


def poslist(l):
    return "[" + "; ".join("(%s, %d)" % (cstr(n), o) for n, o in l) + "]"


def strlist(l):
    return "[" + "; ".join(cstr(x) for x in l) + "]"


def norm_state(x):
    s = x.get("ok")
    if not s:
        return None
    return C.norm_ids_deep(s)


def key_press_generate(res):
    """the key-press table translated from the source (Gen/KeyTab.v) and what the library says a key press stands for, for
    every key code 0-255 (and a few beyond) with every modifier combination (Gen/KeyPressObs.v)"""
    from gen import keys as GK
    from gen.coqfmt import HEADER, clist, cstr
    from . import c08
    src = C.read(os.path.join(C.REPO, "src", "navigate.rs"))
    tab, names = C.translate(res, "c11-keys", "key_press_to_command_and_param and navigation_command_string of navigate.rs",
                             lambda: (GK.key_table(src), c08.nav_commands()))
    C.write_if_changed(os.path.join(C.GEN, "KeyTab.v"), GK.render(tab, names))
    keys = list(range(256)) + [256, 0x3039, 65535, 10 ** 9]
    ops = [["v_key_command", k, bool(m & 1), bool(m & 2), bool(m & 4), bool(m & 8)] for k in keys for m in range(16)]
    rr = C.one_session(ops)["res"]
    rows = []
    for op, o in zip(ops, rr):
        out = "OCommand %s" % cstr(o["ok"]) if "ok" in o else ("OPanic" if "panic" in o else "OErr")
        rows.append((op[1:], o))
    body = HEADER + "Inductive kobs := OErr | OPanic | OCommand (s : list N).\nDefinition key_press_obs : list (N * bool * bool * bool * bool * kobs) := " + \
        clist(("(%d, %s, %s, %s, %s, %s)" % (a[0], *(str(x).lower() for x in a[1:]),
                                              "OCommand %s" % cstr(o["ok"]) if "ok" in o else ("OPanic" if "panic" in o else "OErr")) for a, o in rows), per_line=4) + ".\n"
    C.write_if_changed(os.path.join(C.GEN, "KeyPressObs.v"), body)
    if res is not None:
        res.extra["key_press_tie_cases"] = len(rows)
        res.extra["key_press_tie_commands"] = sum(1 for _, o in rows if "ok" in o)
    return rows


def key_press_search(res, rows, pid):
    """a key press that panics, or that stands for a command the navigation does not know"""
    from . import c08
    names = set(c08.nav_commands()) | {"Error"}
    n = 0
    for a, o in rows:
        what = None
        if "panic" in o:
            what = "panics: %s" % o["panic"][:160]
        elif "ok" in o and o["ok"] not in names:
            what = "stands for %r, which is not a navigation command" % o["ok"]
        if what and (pid == "C08" or "panic" not in o):
            res.violation("do_navigate_keypress(%d, shift=%s, control=%s, alt=%s, meta=%s) %s" % (a[0], a[1], a[2], a[3], a[4], what),
                          {"kind": "keypress", "key": a, "what": what, "ops": [["set_rules_dir", C.RULES], ["set_mathml", X.math("<mi>x</mi>")], ["do_navigate_keypress"] + list(a)]})
            n += 1
            if n >= 3:
                break
    return n


def generate(res):
    src = C.read(os.path.join(C.REPO, "src", "navigate.rs"))
    cmds, maxm = parse_commands(src)
    ok, log = C.build_harness()
    if not ok:
        raise RuntimeError("harness build failed: " + log)
    res_rows = key_press_generate(res)
    if res is not None:
        res.key_press_rows = res_rows
    seed = res.seed if res else 1
    tier = res.tier if res else "quick"
    rng = random.Random(seed * 9176 + 11)
    ns = 80 if tier == "quick" else 300
    scripts = [gen_session(rng, cmds, tier) for _ in range(ns)]
    scripts += placemarker_sessions(rng, tier)
    scripts += long_walks(rng, tier)
    plans, out, shape = run_sessions(scripts)
    items, traces = [], []
    for plan, r in zip(plans, out):
        rs = r.get("res", [])[1:]
        i, ops, trace, ok_session = 0, [], [], True
        for st in plan:
            if st[0] == "pref":
                i += 1
                continue
            if st[0] == "expr":
                m, ns_ = rs[i] if i < len(rs) else {}, rs[i + 1] if i + 1 < len(rs) else {}
                i += 2
                mm = C.norm_ids(m.get("ok", ""))
                ids = ids_of(mm)
                if "ok" not in m or not ids:
                    ok_session = False
                    break
                ops.append("NewExpr %s %s" % (strlist(ids), cstr(ids[0])))
                trace.append({"op": "expr", "mathml": st[1], "ids": ids, "state": norm_state(ns_)})
                continue
            x, nsx, gm = (rs[i] if i < len(rs) else {}), (rs[i + 1] if i + 1 < len(rs) else {}), (rs[i + 2] if i + 2 < len(rs) else {})
            i += 3
            stt = norm_state(nsx)
            if stt is None:
                ok_session = False
                break
            code = 0 if "ok" in x else 1 if "err" in x else 2
            if st[0] == "cmd":
                outs = parse_log(stt["log"], code == 1)
                ops.append("Cmd %s [%s] %d %s %s %s" % (cstr(st[1]), "; ".join(out_term(o) for o in outs), code,
                                                         poslist(stt["ps"]), strlist(stt["cs"]), poslist(stt["marks"])))
                trace.append({"op": "cmd", "cmd": st[1], "result": C.outcome(x), "state": stt, "nav_mathml": C.outcome(gm)})
            else:
                ops.append("SetNode %s %d %s %d %s %s %s" % (cstr(st[1]), st[2], b(st[3]), code, poslist(stt["ps"]), strlist(stt["cs"]), poslist(stt["marks"])))
                trace.append({"op": "setnode", "id": st[1], "offset": st[2], "result": C.outcome(x), "state": stt, "nav_mathml": C.outcome(gm)})
        # a very long walk writes its whole history at every step: such a session is left to the oracle (the tie takes
        # sessions up to 150 000 stack entries)
        weight = sum(len(s_["state"]["ps"]) for s_ in trace if s_.get("state"))
        if ok_session and weight <= 150000:
            items.append("[" + ";\n    ".join(ops) + "]")
        elif ok_session and res is not None:
            res.extra["sessions_for_the_oracle_only"] = res.extra.get("sessions_for_the_oracle_only", 0) + 1
        traces.append(trace)
    body = HEADER + "From MC Require Import Model.Nav.\n"
    body += ("Inductive nav_op :=\n| NewExpr (ids : list (list N)) (root : list N)\n"
             "| SetNode (id : list N) (o : N) (leaf_ok : bool) (code : N) (ops : list (list N * N)) (ocs : list (list N)) (om : list (list N * N))\n"
             "| Cmd (c : list N) (outs : list rule_out) (code : N) (ops : list (list N * N)) (ocs : list (list N)) (om : list (list N * N)).\n")
    body += "Definition sessions : list (list nav_op) := " + clist(items) + ".\n"
    C.write_if_changed(os.path.join(C.GEN, "C11Obs.v"), body)
    if res is not None:
        res.extra["gen_sources"] = [{"file": "src/navigate.rs", "nav_commands": len(cmds), "max_place_markers": maxm}]
        res.extra["tie_sessions"] = len(items)
        res.extra["commands_with_retry"] = sum(1 for t in traces for s_ in t if s_["op"] == "cmd" and sum(1 for l in s_["state"]["log"] if l.startswith("R")) > 1)
    return cmds, traces


def property_oracle(res, traces):
    nv = 0
    for trace in traces:
        ids, root, prev_pos, markers, hist, undo_target = [], None, None, {}, [], None
        for step in trace:
            if step["op"] == "expr":
                ids = step["ids"]
                root = ids[0]
                st = step["state"]
                res.add_case(("expr", step["mathml"]), nontrivial=True)
                if st and (st["ps"] or any(m[0] != "!not set" for m in st["marks"])):
                    res.violation("setting a new expression does not forget the old navigation state: %r" % {k: st[k] for k in ("ps", "marks")},
                                  {"kind": "trace", "trace": trace[:trace.index(step) + 1]})
                    nv += 1
                prev_pos, markers, hist, undo_target = (root, 0), {}, [], None
                continue
            st = step["state"]
            pos = tuple(st["ps"][-1]) if st["ps"] else (root, 0)
            k, payload = step["result"][0], step["result"][1]
            rep = {"kind": "trace", "trace": trace[:trace.index(step) + 1]}
            key = (step.get("cmd") or "setnode", tuple(st["cs"][-3:]), pos[0] == prev_pos[0] if prev_pos else None)
            res.add_case(key, nontrivial=(k == "ok"), sample={"cmd": step.get("cmd"), "speech": payload} if len(res.samples) < 5 and k == "ok" else None)
            if k == "panic":
                res.violation("navigation call panics: %s" % payload, rep)
                nv += 1
            if pos[0] not in ids:
                res.violation("navigation position %r is not a node of the current expression" % (pos,), rep)
                nv += 1
            elif step["nav_mathml"][0] != "ok":
                res.violation("the MathML of the navigation position cannot be retrieved: %r" % (step["nav_mathml"],), rep)
                nv += 1
            if step["op"] == "cmd" and k == "ok":
                c = step["cmd"]
                is_move = (c.startswith("Move") or c.startswith("Zoom"))
                if not is_move and pos != prev_pos:
                    res.violation("command %s only reads/describes but moved the position %r -> %r" % (c, prev_pos, pos), rep)
                    nv += 1
                if c == "MoveLastLocation":
                    if undo_target is not None and pos != undo_target:
                        res.violation("MoveLastLocation after a move from %r does not return there (now at %r)" % (undo_target, pos), rep)
                        nv += 1
                    undo_target = None
                elif is_move:
                    undo_target = prev_pos if pos[0] != prev_pos[0] else None
                if c.startswith("SetPlacemarker"):
                    markers[c[-1]] = prev_pos
                if c.startswith("MoveTo") and c[-1] in markers and pos[0] != markers[c[-1]][0]:
                    res.violation("%s after SetPlacemarker%s does not return to the marked node %r (at %r)" % (c, c[-1], markers[c[-1]], pos), rep)
                    nv += 1
            if step["op"] != "cmd" or k != "ok":
                undo_target = None
            prev_pos = pos
            if nv >= 5:
                return nv
    return nv


KEYS = [37, 38, 39, 40, 13, 32, 36, 35, 8] + list(range(48, 58))
KEY_CMDS = ["MovePrevious", "MoveCellPrevious", "ReadPrevious", "DescribePrevious", "MoveNext", "MoveCellNext", "ReadNext", "DescribeNext", "ZoomOut", "MoveCellUp",
            "ToggleZoomLockUp", "ZoomOutAll", "ZoomIn", "MoveCellDown", "ToggleZoomLockDown", "ZoomInAll", "WhereAmI", "WhereAmIAll", "ReadCurrent", "ReadCellCurrent",
            "ToggleSpeakMode", "DescribeCurrent", "MoveStart", "MoveLineStart", "MoveColumnStart", "MoveEnd", "MoveLineEnd", "MoveColumnEnd", "MoveLastLocation"] + \
           [c + str(d) for d in range(10) for c in ("MoveTo", "SetPlacemarker", "Read", "Describe")]
KEY_SCENARIOS = [
    ("<mrow><mi>a</mi><mo>+</mo><mi>b</mi><mo>+</mo><mfrac><mi>c</mi><mi>d</mi></mfrac><mo>=</mo><mn>7</mn></mrow>", ["ZoomIn", "SetPlacemarker3", "MoveNext", "MoveNext"]),
    ("<mrow><mo>(</mo><mtable><mtr><mtd><mn>1</mn></mtd><mtd><mn>2</mn></mtd></mtr><mtr><mtd><mn>3</mn></mtd><mtd><mn>4</mn></mtd></mtr></mtable><mo>)</mo></mrow>",
     ["ZoomIn", "ZoomIn", "ZoomIn", "SetPlacemarker3", "MoveNext"]),
]


def key_observations(res):
    """Gen/C11KeyObs.v: what each key press (every key of the table x Ctrl x Shift) and each navigation command does after
    the same prelude: outcome, speech, position, position after a following MoveTo3"""
    def session(sc, op):
        body, prelude = KEY_SCENARIOS[sc]
        return [["set_rules_dir", C.RULES], ["set_mathml", X.math(body)]] + [["do_navigate_command", c] for c in prelude] + \
               [op, ["v_nav_state"], ["do_navigate_command", "MoveTo3"], ["v_nav_state"]]
    ss, meta = [], []
    for sc in range(len(KEY_SCENARIOS)):
        for k in KEYS:
            for ctrl in (False, True):
                for shift in (False, True):
                    ss.append({"id": len(ss), "ops": session(sc, ["do_navigate_keypress", k, shift, ctrl, False, False])})
                    meta.append(("key", sc, k, ctrl, shift))
        for c in KEY_CMDS:
            ss.append({"id": len(ss), "ops": session(sc, ["do_navigate_command", c])})
            meta.append(("cmd", sc, c))
    out = C.run_harness(ss)

    def result(r, sc):
        rs = r.get("res") or []
        n = 2 + len(KEY_SCENARIOS[sc][1])
        if len(rs) < n + 4:
            return (3, "", 0, 0)
        ids = ids_of(C.norm_ids(rs[1].get("ok", "")))
        x = rs[n]

        def pos(st):
            ps = (st.get("ok") or {}).get("ps") or []
            i = C.norm_ids(ps[-1][0]) if ps else None
            return (ids.index(i) + 1) if i in ids else 0
        status = 0 if "ok" in x else 2 if "panic" in x else 1
        return (status, x.get("ok", "") if status == 0 else "", pos(rs[n + 1]), pos(rs[n + 3]))
    key_items, cmd_items, rows = [], [], []
    for m, r in zip(meta, out):
        st, sp, p1, p2 = result(r, m[1])
        t = "(%d, %s, %d, %d)" % (st, cstr(sp), p1, p2)
        if m[0] == "key":
            key_items.append("(%d, %d, %s, %s, %s)" % (m[1], m[2], "true" if m[3] else "false", "true" if m[4] else "false", t))
        else:
            cmd_items.append("(%d, %s, %s)" % (m[1], cstr(m[2]), t))
        rows.append((m, (st, sp, p1, p2)))
    body = HEADER + "Definition key_obs : list (N * N * bool * bool * (N * list N * N * N)) := " + clist(key_items) + ".\n" + \
        "Definition cmd_obs : list (N * list N * (N * list N * N * N)) := " + clist(cmd_items) + ".\n"
    C.write_if_changed(os.path.join(C.GEN, "C11KeyObs.v"), body)
    res.extra["key_tie"] = {"key_presses": len(key_items), "commands": len(cmd_items), "scenarios": len(KEY_SCENARIOS)}
    for m, r in rows:
        res.add_case(("key-tie",) + tuple(m), nontrivial=(r[0] == 0))
    return rows


def key_search(res, rows):
    """when the key tie breaks: the documented cell whose key press does something else than its command"""
    doc = {}
    for k, cells in ((37, ["MovePrevious", "MoveCellPrevious", "ReadPrevious", "DescribePrevious"]), (39, ["MoveNext", "MoveCellNext", "ReadNext", "DescribeNext"]),
                     (38, ["ZoomOut", "MoveCellUp", "ToggleZoomLockUp", "ZoomOutAll"]), (40, ["ZoomIn", "MoveCellDown", "ToggleZoomLockDown", "ZoomInAll"]),
                     (13, ["WhereAmI", "WhereAmIAll", None, None]), (32, ["ReadCurrent", "ReadCellCurrent", "ToggleSpeakMode", "DescribeCurrent"]),
                     (36, ["MoveStart", "MoveLineStart", "MoveColumnStart", None]), (35, ["MoveEnd", "MoveLineEnd", "MoveColumnEnd", None]), (8, ["MoveLastLocation", None, None, None])):
        for (ctrl, shift), c in zip(((False, False), (True, False), (False, True), (True, True)), cells):
            if c:
                doc[(k, ctrl, shift)] = c
    for d in range(10):
        for (ctrl, shift), c in zip(((False, False), (True, False), (False, True), (True, True)), ("MoveTo", "SetPlacemarker", "Read", "Describe")):
            doc[(48 + d, ctrl, shift)] = c + str(d)
    cmd = {(m[1], m[2]): r for m, r in rows if m[0] == "cmd"}
    n = 0
    for m, r in rows:
        if m[0] != "key" or (m[2], m[3], m[4]) not in doc:
            continue
        c = doc[(m[2], m[3], m[4])]
        if cmd.get((m[1], c)) != r:
            body, prelude = KEY_SCENARIOS[m[1]]
            res.violation("key %d%s%s is documented as %s but after %r it gives %r where the command gives %r (outcome, speech, position, position after MoveTo3)"
                          % (m[2], " + Ctrl" if m[3] else "", " + Shift" if m[4] else "", c, prelude, r, cmd.get((m[1], c))),
                          {"kind": "key", "mathml": X.math(body), "prelude": prelude, "key": [m[2], m[4], m[3]], "command": c})
            n += 1
            if n >= 3:
                break
    return n


def run(res):
    res.rule = ("seeded sessions: NavMode/Overview/AutoZoomOut prefs, 1-3 expressions (fixed navigation corpus + textbook generator), "
                "1-14 (thorough 1-40) steps each drawn from all NAV_COMMANDS (weighted towards Move/Zoom/MoveLastLocation/markers), "
                "set_navigation_node with valid/invalid ids and offsets; non-trivial = distinct (command, last three history commands, moved?) with an Ok result")
    cmds, traces = generate(res)
    key_rows = key_observations(res)

    def on_broken(log):
        return property_oracle(res, traces) + (key_search(res, key_rows) if "KeyMapTie" in log else 0) + key_press_search(res, getattr(res, "key_press_rows", []), "C11") > 0
    proved = C.check_proofs(res, "C11", ["Props/C11.vo", "Tie/C11Tie.vo", "Tie/KeyMapTie.vo", "Tie/KeyPressTie.vo"], "Props/C11.v", search=on_broken)
    if proved:
        property_oracle(res, traces)
    res.trusted += ["navigation rules (navigate.yaml + XPath): an oracle in the model; their outcomes are taken from the hook log in the tie"]
    res.assumptions += ["[out_ok]: the rules name a node of the expression or the 'not set' id (checked on every logged outcome by the tie through the predicted stacks)",
                        "key-press decoding: the documented key table (Model/KeyMap.v, written from docs/nav-commands.md) is tied cell by cell: a key press does what its command does (Tie/KeyMapTie.v)"]


def replay(path):
    rep = json.load(open(path, encoding="utf-8"))
    if rep.get("kind") == "key":
        C.build_harness()
        pre = [["set_mathml", rep["mathml"]]] + [["do_navigate_command", c] for c in rep["prelude"]]
        k = rep["key"]
        a = C.one_session(pre + [["do_navigate_keypress", k[0], k[1], k[2], False, False], ["v_nav_state"], ["do_navigate_command", "MoveTo3"], ["v_nav_state"]])["res"]
        b = C.one_session(pre + [["do_navigate_command", rep["command"]], ["v_nav_state"], ["do_navigate_command", "MoveTo3"], ["v_nav_state"]])["res"]
        na, nb = C.norm_ids_deep(a[len(pre):]), C.norm_ids_deep(b[len(pre):])
        for x in na[-4:]:
            x.get("ok", {}).pop("log", None) if isinstance(x.get("ok"), dict) else None
        for x in nb[-4:]:
            x.get("ok", {}).pop("log", None) if isinstance(x.get("ok"), dict) else None
        print(json.dumps(na, ensure_ascii=False)[:500])
        print(json.dumps(nb, ensure_ascii=False)[:500])
        return 0 if na == nb else 1
    ok, log = C.build_harness()
    if not ok:
        print("harness build failed", log)
        return 2
    if rep.get("kind") == "trace":
        ops = []
        for s in rep["trace"]:
            if s["op"] == "expr":
                ops.append(["set_mathml", s["mathml"]])
            elif s["op"] == "cmd":
                ops.append(["do_navigate_command", s["cmd"]])
            else:
                ops.append(["v_set_navigation_node_norm", s["id"], s["offset"]])
        ops += [["get_navigation_mathml"], ["v_nav_state"]]
        r = C.one_session(ops)["res"]
        print(C.norm_ids(json.dumps(r[-3:], ensure_ascii=False))[:1500])
        return 1 if any("panic" in x for x in r) or "ok" not in r[-2] else 0
    print("replay names a broken obligation, not an input:", rep.get("what"))
    return 1
