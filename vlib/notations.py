"""A corpus of textbook notations that the intent rules recognise (binomials, evaluated-at, inverse functions, limits,
logarithms with a base, norms, determinants, transposes, units, intervals, sets, geometry, primes and stars, number
sets, real / imaginary part, roots written with an index, mixed numbers, piecewise definitions ...), each with slots
{a} {b} {c} {d} for planted numeric literals at its operand positions.  Used by C04 (speech) and C06 (braille): a
literal that stands at an operand position must be in the output whatever the notation is recognised as.

The trace of the rule engine (hook speech::verif::ev) showed that the seeded textbook generator reached only a fifth of
the speech rules and almost none of the intent rules; these templates are written against the match conditions of
Rules/intent.yaml and Rules/Intent/*.yaml so that each inference rule is reached by at least one of them."""

MN = "<mn>%s</mn>"


def mn(x):
    return MN % x


# (name, template).  Slots are replaced by <mn>literal</mn>.
TEMPLATES = [
    ("binomial-frac", "<mrow><mo>(</mo><mfrac linethickness='0'>{a}{b}</mfrac><mo>)</mo></mrow>"),
    ("binomial-frac-px", "<mrow><mo>(</mo><mfrac linethickness='0px'>{a}{b}</mfrac><mo>)</mo><mo>+</mo>{c}</mrow>"),
    ("binomial-C-scripts", "<mmultiscripts><mi>C</mi>{b}<none/><mprescripts/>{a}<none/></mmultiscripts>"),
    ("binomial-C-msubsup", "<msubsup><mi>C</mi>{b}{a}</msubsup>"),
    ("binomial-msub", "<msub><mi>C</mi><mrow>{a}<mo>,</mo>{b}</mrow></msub>"),
    ("permutation-scripts", "<mmultiscripts><mi>P</mi>{b}<none/><mprescripts/>{a}<none/></mmultiscripts>"),
    ("permutation-msubsup", "<msubsup><mi>P</mi>{b}{a}</msubsup>"),
    ("evaluated-at-msub", "<mrow><mrow><msup><mi>x</mi>{c}</msup><mo>+</mo>{d}</mrow><msub><mo>|</mo>{a}</msub></mrow>"),
    ("evaluated-at-msubsup", "<mrow><mrow><mi>x</mi><mo>+</mo>{c}</mrow><msubsup><mo>|</mo>{a}{b}</msubsup></mrow>"),
    ("bracketed-evaluated-at", "<msubsup><mrow><mo>[</mo><mrow><mi>x</mi><mo>+</mo>{c}</mrow><mo>]</mo></mrow>{a}{b}</msubsup>"),
    ("function-inverse", "<mrow><msup><mi>sin</mi><mrow><mo>-</mo><mn>1</mn></mrow></msup><mo>&#x2061;</mo>{a}</mrow>"),
    ("function-inverse-f", "<mrow><msup><mi>f</mi><mrow><mo>-</mo><mn>1</mn></mrow></msup><mo>&#x2061;</mo><mrow><mo>(</mo>{a}<mo>)</mo></mrow></mrow>"),
    ("function-power", "<mrow><msup><mi>sin</mi>{a}</msup><mo>&#x2061;</mo>{b}</mrow>"),
    ("function-squared", "<mrow><msup><mi>cos</mi><mn>2</mn></msup><mo>&#x2061;</mo>{a}</mrow>"),
    ("limit-munder", "<mrow><munder><mi>lim</mi><mrow><mi>x</mi><mo>&#x2192;</mo>{a}</mrow></munder><mrow><mi>x</mi><mo>+</mo>{b}</mrow></mrow>"),
    ("limit-msub", "<mrow><msub><mi>lim</mi><mrow><mi>x</mi><mo>&#x2192;</mo>{a}</mrow></msub><mo>&#x2061;</mo><mrow><mo>(</mo><mrow><mi>x</mi><mo>-</mo>{b}</mrow><mo>)</mo></mrow></mrow>"),
    ("limsup", "<mrow><munder><mi>limsup</mi><mrow><mi>n</mi><mo>&#x2192;</mo>{a}</mrow></munder><msub><mi>a</mi><mi>n</mi></msub><mo>=</mo>{b}</mrow>"),
    ("log-base", "<mrow><msub><mi>log</mi>{a}</msub><mo>&#x2061;</mo>{b}</mrow>"),
    ("log-base-power", "<mrow><msubsup><mi>log</mi>{a}{c}</msubsup><mo>&#x2061;</mo>{b}</mrow>"),
    ("log-plain", "<mrow><mi>log</mi><mo>&#x2061;</mo>{a}<mo>+</mo><mi>ln</mi><mo>&#x2061;</mo>{b}</mrow>"),
    ("norm", "<mrow><mo>&#x2225;</mo><mrow><mi>x</mi><mo>+</mo>{a}</mrow><mo>&#x2225;</mo></mrow>"),
    ("norm-double-bar", "<mrow><mo>&#x2016;</mo><mrow><mi>v</mi><mo>-</mo>{a}</mrow><mo>&#x2016;</mo><mo>=</mo>{b}</mrow>"),
    ("subscripted-norm", "<msub><mrow><mo>&#x2225;</mo><mrow><mi>x</mi><mo>-</mo>{a}</mrow><mo>&#x2225;</mo></mrow>{b}</msub>"),
    ("absolute-value", "<mrow><mo>|</mo><mrow><mi>x</mi><mo>-</mo>{a}</mrow><mo>|</mo><mo>&#x2264;</mo>{b}</mrow>"),
    ("determinant", "<mrow><mo>|</mo><mtable><mtr><mtd>{a}</mtd><mtd>{b}</mtd></mtr><mtr><mtd>{c}</mtd><mtd>{d}</mtd></mtr></mtable><mo>|</mo></mrow>"),
    ("matrix-paren", "<mrow><mo>(</mo><mtable><mtr><mtd>{a}</mtd><mtd>{b}</mtd></mtr><mtr><mtd>{c}</mtd><mtd>{d}</mtd></mtr></mtable><mo>)</mo></mrow>"),
    ("matrix-bracket-row", "<mrow><mo>[</mo><mtable><mtr><mtd>{a}</mtd><mtd>{b}</mtd><mtd>{c}</mtd></mtr></mtable><mo>]</mo></mrow>"),
    ("matrix-column", "<mrow><mo>(</mo><mtable><mtr><mtd>{a}</mtd></mtr><mtr><mtd>{b}</mtd></mtr><mtr><mtd>{c}</mtd></mtr></mtable><mo>)</mo></mrow>"),
    ("matrix-1x1", "<mrow><mo>[</mo><mtable><mtr><mtd>{a}</mtd></mtr></mtable><mo>]</mo></mrow>"),
    ("matrix-4x2", "<mrow><mo>(</mo><mtable><mtr><mtd>{a}</mtd><mtd><mi>p</mi></mtd></mtr><mtr><mtd>{b}</mtd><mtd><mi>q</mi></mtd></mtr><mtr><mtd>{c}</mtd><mtd><mi>r</mi></mtd></mtr>"
                   "<mtr><mtd>{d}</mtd><mtd><mi>s</mi></mtd></mtr></mtable><mo>)</mo></mrow>"),
    ("transpose", "<mrow><msup><mi>A</mi><mi>T</mi></msup><mo>+</mo>{a}</mrow>"),
    ("trace", "<mrow><mi>tr</mi><mo>&#x2061;</mo><mrow><mo>(</mo><mrow><mi>A</mi><mo>+</mo>{a}</mrow><mo>)</mo></mrow></mrow>"),
    ("kernel", "<mrow><mi>ker</mi><mo>&#x2061;</mo>{a}</mrow>"),
    ("dimension", "<mrow><mi>dim</mi><mo>&#x2061;</mo>{a}<mo>=</mo>{b}</mrow>"),
    ("homomorphism", "<mrow><mi>Hom</mi><mo>&#x2061;</mo>{a}</mrow>"),
    ("real-part", "<mrow><mi>Re</mi><mo>&#x2061;</mo><mrow><mo>(</mo><mrow>{a}<mo>+</mo>{b}<mo>&#x2062;</mo><mi>i</mi></mrow><mo>)</mo></mrow></mrow>"),
    ("imaginary-part", "<mrow><mi>Im</mi><mo>&#x2061;</mo><mrow><mo>(</mo><mrow>{a}<mo>+</mo>{b}<mo>&#x2062;</mo><mi>i</mi></mrow><mo>)</mo></mrow></mrow>"),
    ("number-set-power", "<mrow><mi>x</mi><mo>&#x2208;</mo><msup><mi>&#x211D;</mi>{a}</msup></mrow>"),
    ("number-set-plus", "<mrow><msup><mi>&#x211D;</mi><mo>+</mo></msup><mo>&#x220B;</mo>{a}</mrow>"),
    ("vector-arrow", "<mrow><mover><mi>v</mi><mo>&#x2192;</mo></mover><mo>=</mo>{a}</mrow>"),
    ("modified-var-hat", "<mrow><mover><mi>x</mi><mo>^</mo></mover><mo>+</mo><mover><mi>y</mi><mo>&#xAF;</mo></mover><mo>=</mo>{a}</mrow>"),
    ("modified-var-dot", "<mrow><mover><mi>x</mi><mo>.</mo></mover><mo>+</mo><mover><mi>y</mi><mo>&#xA8;</mo></mover><mo>=</mo>{a}</mrow>"),
    ("line-segment", "<mrow><mover><mrow><mi>A</mi><mo>&#x2062;</mo><mi>B</mi></mrow><mo>&#xAF;</mo></mover><mo>=</mo>{a}</mrow>"),
    ("ray", "<mrow><mover><mrow><mi>A</mi><mo>&#x2062;</mo><mi>B</mi></mrow><mo>&#x2192;</mo></mover><mo>+</mo>{a}</mrow>"),
    ("arc", "<mrow><mover><mrow><mi>A</mi><mo>&#x2062;</mo><mi>B</mi></mrow><mo>&#x2312;</mo></mover><mo>=</mo>{a}</mrow>"),
    ("angle-measure", "<mrow><mi>m</mi><mo>&#x2220;</mo><mi>A</mi><mi>B</mi><mi>C</mi><mo>=</mo>{a}<mo>&#xB0;</mo></mrow>"),
    ("prime", "<mrow><msup><mi>f</mi><mo>&#x2032;</mo></msup><mo>&#x2061;</mo><mrow><mo>(</mo>{a}<mo>)</mo></mrow><mo>+</mo><msup><mi>g</mi><mo>&#x2033;</mo></msup></mrow>"),
    ("star-and-degree", "<mrow><msup><mi>z</mi><mo>*</mo></msup><mo>+</mo><msup>{a}<mo>&#xB0;</mo></msup></mrow>"),
    ("sub-with-prime", "<mrow><msubsup><mi>x</mi>{a}<mo>&#x2032;</mo></msubsup><mo>+</mo><msubsup><mi>y</mi>{b}<mo>*</mo></msubsup></mrow>"),
    ("mo-super", "<mrow><msup><mi>A</mi><mo>+</mo></msup><mo>=</mo>{a}</mrow>"),
    ("sqrt-as-mroot", "<mroot><mrow><mi>x</mi><mo>+</mo>{a}</mrow><mn>2</mn></mroot>"),
    ("cube-root", "<mroot><mrow><mi>x</mi><mo>+</mo>{a}</mrow><mn>3</mn></mroot>"),
    ("root-n", "<mroot>{a}<mi>n</mi></mroot>"),
    ("unit-mtext", "<mrow>{a}<mo>&#x2062;</mo><mtext>km</mtext><mo>+</mo>{b}<mo>&#x2062;</mo><mtext>s</mtext></mrow>"),
    ("unit-class", "<mrow>{a}<mo>&#x2062;</mo><mi class='MathML-unit'>cm</mi><mo>&#xD7;</mo>{b}<mo>&#x2062;</mo><mi class='MathML-unit'>kg</mi></mrow>"),
    ("unit-intent", "<mrow>{a}<mo>&#x2062;</mo><mi intent=':unit'>m</mi><mo>/</mo><mi intent=':unit'>s</mi></mrow>"),
    ("roman", "<mrow><mi>XIV</mi><mo>+</mo>{a}</mrow>"),
    ("open-interval", "<mrow><mi>x</mi><mo>&#x2208;</mo><mrow><mo>(</mo><mrow>{a}<mo>,</mo>{b}</mrow><mo>)</mo></mrow></mrow>"),
    ("half-open-interval", "<mrow><mi>x</mi><mo>&#x2208;</mo><mrow><mo>(</mo><mrow>{a}<mo>,</mo>{b}</mrow><mo>]</mo></mrow></mrow>"),
    ("closed-open-interval", "<mrow><mrow><mo>[</mo><mrow>{a}<mo>,</mo>{b}</mrow><mo>)</mo></mrow><mo>&#x222A;</mo><mrow><mo>[</mo><mrow>{c}<mo>,</mo>{d}</mrow><mo>]</mo></mrow></mrow>"),
    ("point", "<mrow><mi>P</mi><mo>=</mo><mrow><mo>(</mo><mrow>{a}<mo>,</mo>{b}</mrow><mo>)</mo></mrow></mrow>"),
    ("set-list", "<mrow><mo>{</mo><mrow>{a}<mo>,</mo>{b}<mo>,</mo>{c}</mrow><mo>}</mo></mrow>"),
    ("set-builder", "<mrow><mo>{</mo><mrow><mi>x</mi><mo>|</mo><mrow><mi>x</mi><mo>&gt;</mo>{a}</mrow></mrow><mo>}</mo></mrow>"),
    ("set-builder-colon", "<mrow><mo>{</mo><mrow><mi>x</mi><mo>:</mo><mrow><mi>x</mi><mo>&lt;</mo>{a}</mrow></mrow><mo>}</mo></mrow>"),
    ("empty-set-and-singleton", "<mrow><mrow><mo>{</mo><mo>}</mo></mrow><mo>&#x2282;</mo><mrow><mo>{</mo>{a}<mo>}</mo></mrow></mrow>"),
    ("mixed-number", "<mrow><mn>3</mn><mo>&#x2064;</mo><mfrac><mn>1</mn><mn>2</mn></mfrac><mo>+</mo>{a}</mrow>"),
    ("common-fraction", "<mrow><mfrac><mn>2</mn><mn>3</mn></mfrac><mo>+</mo><mfrac><mn>1</mn><mn>2</mn></mfrac><mo>+</mo><mfrac>{a}<mn>7</mn></mfrac></mrow>"),
    ("fraction-of-units", "<mfrac><mrow>{a}<mo>&#x2062;</mo><mtext>km</mtext></mrow><mrow>{b}<mo>&#x2062;</mo><mtext>h</mtext></mrow></mfrac>"),
    ("nested-fraction", "<mfrac><mrow><mfrac>{a}{b}</mfrac><mo>+</mo>{c}</mrow><mrow><mi>x</mi><mo>-</mo>{d}</mrow></mfrac>"),
    ("power-of-power", "<msup><mi>x</mi><msup>{a}{b}</msup></msup>"),
    ("power-negative", "<mrow><msup><mi>x</mi><mrow><mo>-</mo>{a}</mrow></msup><mo>+</mo><msup><mi>y</mi><mrow><mo>-</mo><mn>2</mn></mrow></msup><mo>+</mo><msup>{b}<mn>2</mn></msup><mo>+</mo><msup>{c}<mn>3</mn></msup></mrow>"),
    ("power-fraction", "<msup><mrow><mo>(</mo><mrow><mi>x</mi><mo>+</mo>{a}</mrow><mo>)</mo></mrow><mfrac>{b}{c}</mfrac></msup>"),
    ("power-var-squared", "<mrow><msup><mi>e</mi><msup><mi>x</mi><mn>2</mn></msup></msup><mo>+</mo><msup><mi>e</mi><mrow><mo>-</mo><msup><mi>x</mi><mn>2</mn></msup></mrow></msup><mo>+</mo>{a}</mrow>"),
    ("sum-limits", "<mrow><munderover><mo>&#x2211;</mo><mrow><mi>i</mi><mo>=</mo>{a}</mrow>{b}</munderover><msub><mi>a</mi><mi>i</mi></msub></mrow>"),
    ("sum-under", "<mrow><munder><mo>&#x2211;</mo><mrow><mi>i</mi><mo>&gt;</mo>{a}</mrow></munder><mrow><mi>i</mi><mo>+</mo>{b}</mrow></mrow>"),
    ("integral-limits", "<mrow><msubsup><mo>&#x222B;</mo>{a}{b}</msubsup><mrow><msup><mi>x</mi>{c}</msup><mo>&#x2062;</mo><mi>d</mi><mi>x</mi></mrow></mrow>"),
    ("integral-sub", "<mrow><msub><mo>&#x222B;</mo><mi>C</mi></msub><mrow><mi>f</mi><mo>&#x2062;</mo><mi>d</mi><mi>s</mi></mrow><mo>=</mo>{a}</mrow>"),
    ("derivative-frac", "<mrow><mfrac><mrow><mi>d</mi><mi>y</mi></mrow><mrow><mi>d</mi><mi>x</mi></mrow></mfrac><mo>=</mo>{a}</mrow>"),
    ("partial-derivative", "<mrow><mfrac><mrow><msup><mo>&#x2202;</mo><mn>2</mn></msup><mi>f</mi></mrow><mrow><mo>&#x2202;</mo><msup><mi>x</mi><mn>2</mn></msup></mrow></mfrac><mo>+</mo>{a}</mrow>"),
    ("gradient-div-curl", "<mrow><mo>&#x2207;</mo><mi>f</mi><mo>+</mo><mo>&#x2207;</mo><mo>&#x22C5;</mo><mi>F</mi><mo>+</mo><mo>&#x2207;</mo><mo>&#xD7;</mo><mi>F</mi><mo>=</mo>{a}</mrow>"),
    ("piecewise", "<mrow><mi>f</mi><mo>=</mo><mrow><mo>{</mo><mtable><mtr><mtd>{a}</mtd><mtd><mtext>if&#xA0;</mtext><mrow><mi>x</mi><mo>&lt;</mo>{b}</mrow></mtd></mtr>"
                  "<mtr><mtd>{c}</mtd><mtd><mtext>otherwise</mtext></mtd></mtr></mtable></mrow></mrow>"),
    ("system-of-equations", "<mrow><mo>{</mo><mtable><mtr><mtd><mrow><mi>x</mi><mo>+</mo><mi>y</mi></mrow></mtd><mtd><mo>=</mo></mtd><mtd>{a}</mtd></mtr>"
                            "<mtr><mtd><mrow><mi>x</mi><mo>-</mo><mi>y</mi></mrow></mtd><mtd><mo>=</mo></mtd><mtd>{b}</mtd></mtr></mtable></mrow>"),
    ("aligned-lines", "<mtable><mtr><mtd><mi>x</mi></mtd><mtd><mo>=</mo></mtd><mtd>{a}</mtd></mtr><mtr><mtd/><mtd><mo>=</mo></mtd><mtd>{b}</mtd></mtr></mtable>"),
    ("labeled-row", "<mtable><mlabeledtr><mtd><mtext>(1)</mtext></mtd><mtd><mrow><mi>x</mi><mo>=</mo>{a}</mrow></mtd></mlabeledtr></mtable>"),
    ("menclose-box", "<mrow><menclose notation='box'>{a}</menclose><mo>+</mo><menclose notation='updiagonalstrike'>{b}</menclose><mo>+</mo><menclose notation='circle'>{c}</menclose></mrow>"),
    ("mstyle-mpadded", "<mrow><mstyle mathcolor='red'>{a}</mstyle><mo>+</mo><mpadded width='+1em'>{b}</mpadded></mrow>"),
    ("semantics", "<semantics><mrow><mi>x</mi><mo>+</mo>{a}</mrow><annotation encoding='application/x-tex'>x+1</annotation></semantics>"),
    ("prescripts-general", "<mmultiscripts><mi>X</mi>{a}{b}<mprescripts/>{c}{d}</mmultiscripts>"),
    ("tensor-indices", "<mmultiscripts><mi>R</mi><mi>i</mi><none/><none/><mi>j</mi>{a}<none/></mmultiscripts>"),
    ("chemistry-formula", "<mrow><msub><mi mathvariant='normal'>H</mi><mn>2</mn></msub><mi mathvariant='normal'>O</mi><mo>+</mo>{a}</mrow>"),
    ("chemistry-equation", "<mrow><mn>2</mn><msub><mi>H</mi><mn>2</mn></msub><mo>+</mo><msub><mi>O</mi><mn>2</mn></msub><mo>&#x2192;</mo><mn>2</mn><msub><mi>H</mi><mn>2</mn></msub><mi>O</mi></mrow>"),
    ("negative-positive", "<mrow><mo>-</mo>{a}<mo>+</mo><mrow><mo>(</mo><mrow><mo>+</mo>{b}</mrow><mo>)</mo></mrow><mo>-</mo><mrow><mo>(</mo><mrow><mo>-</mo>{c}</mrow><mo>)</mo></mrow></mrow>"),
    ("factorial-percent", "<mrow>{a}<mo>!</mo><mo>+</mo>{b}<mo>%</mo></mrow>"),
    ("function-of-two", "<mrow><mi>f</mi><mo>&#x2061;</mo><mrow><mo>(</mo><mrow>{a}<mo>,</mo>{b}</mrow><mo>)</mo></mrow><mo>=</mo><mi>g</mi><mo>&#x2061;</mo><mrow><mo>(</mo>{c}<mo>)</mo></mrow></mrow>"),
    ("trig-no-parens", "<mrow><mi>sin</mi><mo>&#x2061;</mo>{a}<mo>+</mo><mi>tan</mi><mo>&#x2061;</mo>{b}<mo>+</mo><mi>sinh</mi><mo>&#x2061;</mo>{c}<mo>+</mo><mi>exp</mi><mo>&#x2061;</mo>{d}</mrow>"),
    ("times-forms", "<mrow>{a}<mo>&#xD7;</mo>{b}<mo>&#x22C5;</mo>{c}<mo>&#x2062;</mo><mi>x</mi><mo>&#x2062;</mo><mrow><mo>(</mo>{d}<mo>)</mo></mrow></mrow>"),
    ("ratio-proportion", "<mrow>{a}<mo>:</mo>{b}<mo>::</mo>{c}<mo>:</mo>{d}</mrow>"),
    ("dimension-product", "<mrow>{a}<mo>&#xD7;</mo>{b}<mtext>&#xA0;matrix</mtext></mrow>"),
    ("overbrace-underbrace", "<mrow><mover><mover><mrow><mi>x</mi><mo>+</mo>{a}</mrow><mo>&#x23DE;</mo></mover>{b}</mover><mo>+</mo><munder><munder><mrow><mi>y</mi><mo>+</mo>{c}</mrow><mo>&#x23DF;</mo></munder>{d}</munder></mrow>"),
    ("text-and-numbers", "<mrow><mtext>if&#xA0;</mtext><mi>x</mi><mo>=</mo>{a}<mtext>&#xA0;then&#xA0;</mtext><mi>y</mi><mo>=</mo>{b}</mrow>"),
    ("ms-string", "<mrow><ms>abc</ms><mo>+</mo>{a}</mrow>"),
    # notations the braille rules single out
    ("binomial-table", "<mrow><mo>(</mo><mtable><mtr><mtd>{a}</mtd></mtr><mtr><mtd>{b}</mtd></mtr></mtable><mo>)</mo></mrow>"),
    ("mod-mi", "<mrow>{a}<mi>mod</mi>{b}</mrow>"),
    ("mod-mo", "<mrow>{a}<mo>mod</mo>{b}<mo>=</mo>{c}<mtext>rem</mtext>{d}</mrow>"),
    ("repeating-decimal", "<mrow><mn>0.</mn><mover><mn>3</mn><mo>.</mo></mover><mo>+</mo>{a}</mrow>"),
    ("linear-mixed-number", "<mrow><mn>3</mn><mo>&#x2064;</mo><mrow><mn>1</mn><mo>/</mo><mn>2</mn></mrow><mo>+</mo>{a}</mrow>"),
    ("prefix-tilde", "<mrow><mo>&#x223C;</mo>{a}</mrow>"),
    ("omission", "<mrow>{a}<mo>+</mo><mo>?</mo><mo>=</mo>{b}</mrow>"),
    ("underbar", "<mrow><munder><mi>x</mi><mo>&#xAF;</mo></munder><mo>+</mo><munder><mrow><mi>x</mi><mo>+</mo>{a}</mrow><mo>_</mo></munder></mrow>"),
    ("trailing-bar", "<mrow><mi>f</mi><mo>|</mo><mo>=</mo>{a}</mrow>"),
    ("wide-space", "<mrow>{a}<mspace width='2em'/>{b}<mtext>&#x2003;&#x2003;</mtext>{c}</mrow>"),
    ("long-division", "<menclose notation='longdiv'>{a}</menclose>"),
    ("actuarial-and-radical", "<mrow><menclose notation='actuarial'>{a}</menclose><mo>+</mo><menclose notation='radical'>{b}</menclose><mo>+</mo><menclose notation='top bottom'>{c}</menclose></mrow>"),
]

SLOT_LITS = {"a": "41_17", "b": "52_06", "c": "63_35", "d": "74_89"}
SLOT_INTS = {"a": "4117", "b": "5206", "c": "6335", "d": "7489"}


def instances(mark=".", integers=False):
    """[(name, MathML body, literals planted)]: decimal literals with the given decimal mark, or integers"""
    out = []
    table = SLOT_INTS if integers else SLOT_LITS
    for name, t in TEMPLATES:
        lits = []
        body = t
        for slot, lit in table.items():
            if "{%s}" % slot in body:
                v = lit.replace("_", mark)
                body = body.replace("{%s}" % slot, mn(v))
                lits.append(v)
        out.append((name, body, lits))
    return out
