"""C04 -- speech voices every operand of the expression.
Coq (Props/C04.v): how replace_array_string assembles the strings of a rule's replacements: removing a repetitive
optional word loses no digit as long as the text before the optional indicator carries none (all strings, any number
of them), joining keeps every digit; the unguarded statement is REFUTED by a witness -- the text before the indicator
is dropped (known finding); every optional word of every language's rule files is digit free (generated obligation).
Tie: the library's own calls of replace_array_string (hook: strings before / after the removal of optional text) on the
corpus vs the model, kernel-checked.
Oracle (search + support): distinct literals (with the locale's decimal mark) planted at every operand position x
language x {ClearSpeak, SimpleSpeak} x {Terse, Medium, Verbose}: each literal occurs in the speech as often as in the
expression."""
import json
import os
import random
import re
import sys

from . import common as C
from . import ruleeval as RE
from . import notations as NT
from . import exprs as X
from . import speechtexts as ST
from . import c05

sys.path.insert(0, C.VERIF)
from gen.coqfmt import HEADER, clist, cstr, comment

COMMA_LANGS = {"es", "fi", "sv", "id", "vi"}          # decimal comma
OPT = "\uF8FD"
KF_PREFIX = "optional-text-drops-what-precedes-it"
KF_ROOT = "root-index-not-spoken"


def mark(lang):
    return "," if lang.split("-")[0] in COMMA_LANGS else "."


def generate(res):
    c05.generate(res)                     # Gen/SpeechTexts.v (optional words per language)
    seed = res.seed if res else 1
    tier = res.tier if res else "quick"
    rng = random.Random(seed * 419 + 4)
    bodies = list(X.FIXED) + [X.gen(rng, 3, X.Planter(rng)) for _ in range(25 if tier == "quick" else 250)]
    frac = "<mfrac><mrow><mn>3.5</mn><mo>+</mo><mi>x</mi></mrow><mrow><mn>2.5</mn><mo>-</mo><mi>y</mi></mrow></mfrac>"
    bodies += ["<msqrt><mrow><mn>1.5</mn><mo>+</mo>%s</mrow></msqrt>" % frac, "<mrow><mo>|</mo><mrow><mn>1.5</mn><mo>-</mo>%s</mrow><mo>|</mo></mrow>" % frac,
               "<mfrac><mrow><mn>1.5</mn><mo>+</mo>%s</mrow><mn>4.5</mn></mfrac>" % frac,
               "<mrow><mi>sin</mi><mo>&#x2061;</mo><mrow><mo>(</mo><mrow><mn>1.5</mn><mo>+</mo>%s</mrow><mo>)</mo></mrow></mrow>" % frac]
    sessions = []
    for i, (lang, style, verb) in enumerate([("en", "ClearSpeak", "Verbose"), ("en", "SimpleSpeak", "Medium"), ("es", "ClearSpeak", "Verbose"),
                                             ("fi", "ClearSpeak", "Verbose"), ("en", "ClearSpeak", "Terse")]):
        ops = [["set_rules_dir", C.RULES], ["set_preference", "Language", lang], ["set_preference", "SpeechStyle", style], ["set_preference", "Verbosity", verb]]
        for b in bodies:
            ops += [["set_mathml", X.math(b)], ["get_spoken_text"]]
        ops.append(["v_take_array_log"])
        sessions.append({"id": i, "ops": ops})
    pairs = []
    for r in C.run_harness(sessions):
        log = r["res"][-1].get("ok") or []
        for before, after in log:
            pairs.append((before, after))
    # keep the interesting ones (an optional indicator somewhere) and a sample of the rest
    opt = [p for p in pairs if any(OPT in s for s in p[0])]
    rest = [p for p in pairs if not any(OPT in s for s in p[0])]
    rng.shuffle(rest)
    seen, keep = set(), []
    for p in opt + rest[:400]:
        k = json.dumps(p, ensure_ascii=False)
        if k not in seen:
            seen.add(k)
            keep.append(p)
    keep = keep[:1500 if tier == "quick" else 15000]
    items = ["([%s], [%s])" % ("; ".join(cstr(s) for s in b), "; ".join(cstr(s) for s in a)) for b, a in keep]
    body = HEADER + "Definition array_obs : list (list (list N) * list (list N)) := " + clist(items) + ".\n"
    C.write_if_changed(os.path.join(C.GEN, "C04Obs.v"), body)
    if res is not None:
        res.extra["tie_cases"] = len(keep)
        res.extra["tie_cases_with_optional_text"] = sum(1 for b, _ in keep if any(OPT in s for s in b))
        res.extra["tie_cases_changed"] = sum(1 for b, a in keep if b != a)
    return keep


def configs(tier, rng):
    out = [(l, s, v) for l in ST.languages() for s in ("ClearSpeak", "SimpleSpeak") for v in ("Terse", "Medium", "Verbose")]
    if tier == "quick":
        keep = [c for c in out if (c[2] == "Verbose" and c[1] == "ClearSpeak") or (c[0] == "en" and c[2] == "Terse")]
        out = keep + rng.sample([c for c in out if c not in keep], 8)
    return out


def oracle(res):
    rng = random.Random(res.seed * 733 + 44)
    n = 25 if res.tier == "quick" else 300
    found = 0
    cfgs = configs(res.tier, rng)
    kf = {k["id"] for k in C.known_findings("C04")}
    sessions, metas = [], []
    for i, (lang, style, verb) in enumerate(cfgs):
        exprs = []
        for j in range(n):
            p = X.Planter(rng, mark(lang), shapes=(j % 3 == 2), integers=False)
            exprs.append((X.math(X.gen(rng, 3, p, X.MORE_KINDS if j % 2 else None)), list(p.lits)))
        a, b, c, d = ("41%s17" % mark(lang), "52%s06" % mark(lang), "63%s35" % mark(lang), "74%s89" % mark(lang))
        exprs.append((X.math("<msup><mi>x</mi><mrow><mn>%s</mn><mo>+</mo><mfrac><mrow><mi>a</mi><mo>+</mo><mn>%s</mn></mrow><mn>%s</mn></mfrac></mrow></msup>" % (a, b, c)), [a, b, c]))
        m = mark(lang)
        deep = "<mn>10%s5</mn>" % m
        for lvl in range(9, 0, -1):
            deep = "<mrow><mn>%d%s5</mn><mo>+</mo><mfrac><mn>1</mn>%s</mfrac></mrow>" % (lvl, m, deep)
        exprs.append((X.math(deep), ["%d%s5" % (lvl, m) for lvl in range(1, 11)]))
        rad = "<mn>9%s5</mn>" % m
        for lvl in range(8, 0, -1):
            rad = "<msqrt><mrow><mn>%d%s5</mn><mo>+</mo>%s</mrow></msqrt>" % (lvl, m, rad)
        exprs.append((X.math(rad), ["%d%s5" % (lvl, m) for lvl in range(1, 10)]))
        exprs.append((X.math("<msqrt><mrow><mn>1%s5</mn><mo>+</mo><mfrac><mrow><mn>3%s5</mn><mo>+</mo><mi>x</mi></mrow><mrow><mn>2%s5</mn><mo>-</mo><mi>y</mi></mrow></mfrac></mrow></msqrt>" % (m, m, m)),
                      ["1%s5" % m, "3%s5" % m, "2%s5" % m]))
        exprs.append((X.math("<mrow><mroot><mi>x</mi><mn>%s</mn></mroot><mo>+</mo><munder><mi>lim</mi><mrow><mi>x</mi><mo>&#x2192;</mo><mn>%s</mn></mrow></munder><mfrac><mn>%s</mn><mn>%s</mn></mfrac></mrow>" % (a, b, c, d)), [a, b, c, d]))
        # the notations the intent rules recognise (binomials, limits, norms, intervals, units, ...), literals at their operand positions
        for _, body, lits in NT.instances(mark(lang)):
            exprs.append((X.math(body), lits))
        ops = [["set_rules_dir", C.RULES], ["set_preference", "TTS", "None"], ["set_preference", "Language", lang], ["set_preference", "SpeechStyle", style],
               ["set_preference", "Verbosity", verb]]
        for e, _ in exprs:
            ops += [["set_mathml", e], ["get_spoken_text"]]
        sessions.append({"id": i, "ops": ops})
        metas.append(exprs)
    for (lang, style, verb), exprs, r in zip(cfgs, metas, C.run_harness(sessions)):
        if "res" not in r or len(r["res"]) < 5:
            res.extra.setdefault("crashed_sessions", []).append([lang, style, verb])
            continue
        rr = r["res"][5:]
        for j, (e, lits) in enumerate(exprs):
            sm, sp = rr[2 * j], rr[2 * j + 1]
            if "ok" not in sm or "ok" not in sp:
                if "ok" in sm:
                    res.extra.setdefault("speech_errors", []).append([lang, style, e[:80], json.dumps(sp)[:100]])
                continue
            s = sp["ok"]
            res.add_case((lang, style, verb, e), len(lits) > 2, "%s/%s/%s: %s" % (lang, style, verb, s[:40]))
            for l in lits:
                want, got = e.count("<mn>%s</mn>" % l), s.count(l)
                if got >= want:
                    continue
                # the two recorded findings
                if KF_ROOT in kf and lang in ("fi", "sv", "vi") and "<mroot>" in e and ("</mi><mn>%s</mn></mroot>" % l in e or "<mn>%s</mn></mroot>" % l in e):
                    res.known("%s: %s/%s/%s does not speak the index %s of an mroot" % (KF_ROOT, lang, style, verb, l))
                    continue
                if KF_PREFIX in kf and prefix_drop_suspect(lang, style, verb, e, l):
                    res.known("%s: %s/%s/%s drops %s from %s" % (KF_PREFIX, lang, style, verb, l, s[:60]))
                    continue
                found += 1
                res.violation("%s/%s/%s: the literal %s occurs %d time(s) in the expression but %d time(s) in the speech %r"
                              % (lang, style, verb, l, want, got, s[:200]),
                              {"kind": "literal", "prefs": {"Language": lang, "SpeechStyle": style, "Verbosity": verb}, "mathml": e, "literal": l, "want": want, "speech": s})
                if found >= 3:
                    return found
    return found


# ----------------------------------------------------------------------------------------------------------------
# every named concept of the rule files, in every language: the operands of an intent tree built directly
# ----------------------------------------------------------------------------------------------------------------
PROBE_LITS = ["41_17", "52_06", "63_35", "74_89", "85_92"]
# child positions that hold the name of the operation, not an operand (a number never stands there in practice):
# the first child of `limit` is the function name (lim, lim sup): fi and sv say "raja-arvo kun" / "gränsvärdet då" for it
NOT_AN_OPERAND = {("limit", 0)}


def intent_probe(res):
    """One expression per named concept (intent tag) of the rule files and per number of children the English rules are
    written for, with a distinct decimal literal as every child (built with the intent attribute, so that the speech rules
    of the tag are reached whatever the inference rules do).  A literal that most other languages speak (in the same style
    and verbosity) and one language does not is an operand dropped by that language's rule for the concept."""
    from . import c15
    ar = c15.english_arities()
    elements = {"mi", "mn", "mo", "mtext", "ms", "mrow", "mfrac", "msqrt", "mroot", "mstyle", "msub", "msup", "msubsup", "munder", "mover", "munderover",
                "mmultiscripts", "mtable", "mtr", "mlabeledtr", "mtd", "menclose", "semantics", "math"}
    shapes = []
    for t in c15.rule_tags():
        if t in c15.NOT_INTENT_TAGS or t in elements:
            continue
        for n in ar.get(t, [1, 2]):
            if 1 <= n <= 5:
                shapes.append((t, n))
    langs = ST.languages()
    verbs = ["Terse", "Medium", "Verbose"]
    cfgs = [(l, st, v) for l in langs for st in ("ClearSpeak", "SimpleSpeak") for v in (verbs if res.tier != "quick" else [verbs[res.seed % 3]])]
    sessions = []
    for lang, style, verb in cfgs:
        ops = [["set_rules_dir", C.RULES], ["set_preference", "TTS", "None"], ["set_preference", "Language", lang], ["set_preference", "SpeechStyle", style],
               ["set_preference", "Verbosity", verb]]
        for t, n in shapes:
            lits = [l.replace("_", mark(lang)) for l in PROBE_LITS[:n]]
            body = "<mrow intent='%s(%s)'>%s</mrow>" % (t, ",".join("$" + a for a in "abcde"[:n]),
                                                        "<mo>&#x2063;</mo>".join("<mn arg='%s'>%s</mn>" % (a, l) for a, l in zip("abcde", lits)))
            ops += [["set_mathml", X.math(body)], ["get_spoken_text"]]
        sessions.append({"id": len(sessions), "ops": ops})
    said = {}
    for (lang, style, verb), r in zip(cfgs, C.run_harness(sessions)):
        rr = (r.get("res") or [])[5:]
        for j, (t, n) in enumerate(shapes):
            sp = rr[2 * j + 1] if 2 * j + 1 < len(rr) else {}
            s = sp.get("ok")
            lits = [l.replace("_", mark(lang)) for l in PROBE_LITS[:n]]
            said[(lang, style, verb, t, n)] = None if s is None else ([l in s for l in lits], s)
    found = 0
    for (lang, style, verb, t, n), v in sorted(said.items()):
        if v is None:
            continue
        res.add_case(("intent-probe", lang, style, verb, t, n), nontrivial=n > 1)
        for k in range(n):
            if v[0][k] or (t, k) in NOT_AN_OPERAND:
                continue
            others = [said.get((l2, style, verb, t, n)) for l2 in langs if l2 != lang]
            others = [o for o in others if o is not None]
            if len(others) >= 3 and sum(1 for o in others if o[0][k]) * 3 >= len(others) * 2:
                lit = PROBE_LITS[k].replace("_", mark(lang))
                body = "<mrow intent='%s(%s)'>%s</mrow>" % (t, ",".join("$" + a for a in "abcde"[:n]),
                                                            "<mo>&#x2063;</mo>".join("<mn arg='%s'>%s</mn>" % (a, l.replace("_", mark(lang))) for a, l in zip("abcde", PROBE_LITS[:n])))
                found += 1
                res.violation("%s/%s/%s: operand %d (%s) of the concept %s is not spoken (%r) although %d of %d other languages speak it"
                              % (lang, style, verb, k + 1, lit, t, v[1][:120], sum(1 for o in others if o[0][k]), len(others)),
                              {"kind": "literal", "prefs": {"Language": lang, "SpeechStyle": style, "Verbosity": verb}, "mathml": X.math(body), "literal": lit, "want": 1, "speech": v[1]})
                if found >= 3:
                    return found
    res.extra["intent_probe"] = {"concept_shapes": len(shapes), "configurations": len(cfgs)}
    return found


_ARRAY_CACHE = {}


def prefix_drop_suspect(lang, style, verb, e, lit):
    """does the library's own log show replace_array_string dropping text that contains the literal in front of an optional word?"""
    r = C.one_session([["set_preference", "TTS", "None"], ["set_preference", "Language", lang], ["set_preference", "SpeechStyle", style],
                       ["set_preference", "Verbosity", verb], ["v_take_array_log"], ["set_mathml", e], ["get_spoken_text"], ["v_take_array_log"]])["res"]
    log = r[-1].get("ok") or []
    for before, after in log:
        for i, (x, y) in enumerate(zip(before, after)):
            if x != y and OPT in x and lit in x.split(OPT)[0] and lit not in y:
                # the recorded finding only: the optional word really repeats the end of the previous string
                parts = x.split(OPT)
                prev = after[i - 1].rstrip() if i > 0 else ""
                if len(parts) >= 3 and len(prev.encode()) > len(parts[1].encode()) and prev.endswith(parts[1]):
                    return True
    return False


def run(res):
    res.rule = ("tie: every call of replace_array_string while speaking 25 fixed + seeded expressions in en (both styles), es, fi at Verbose (all calls "
                "with an optional indicator + a sample of 400 others); oracle: distinct decimal (locale mark) and integer literals, varied shapes, at "
                "every operand position x language x style x verbosity (quick: ClearSpeak/Verbose for every language + 8 sampled); "
                "non-trivial = expressions with more than two literals")
    generate(res)
    rng = random.Random(res.seed * 911 + 4)
    tie_bodies = list(X.FIXED) + [X.gen(rng, 3, kinds=X.MORE_KINDS) for _ in range(10 if res.tier == "quick" else 120)]
    sizes = RE.gen_rule_sets()
    stats, missing, ev_items, m_items, eval_obs, match_obs, roots = RE.generate(res, tie_bodies, max_eval=3000 if res.tier == "quick" else 20000,
                                                                                max_match=3000 if res.tier == "quick" else 20000)
    res.extra["rule_engine_tie"] = stats
    res.extra["shipped_rule_sets"] = sizes
    for k in ev_items:
        res.add_case(("rule-eval",) + k, nontrivial=(20 in k[2] or 8 in k[2]))
    for k in m_items:
        res.add_case(("rule-match",) + k, nontrivial=len(k[2]) > 1)
    if missing:
        res.violation("the engine applied a rule / Unicode replacement that the files as the translator loads them do not define: %r" % (missing[0],),
                      {"broken": "rule tie", "missing": missing[:5]}, found_input=False)

    def on_broken(log):
        n_probe = intent_probe(res)
        if "RuleEvalTie" in log or "RuleSetsP" in log:
            # the cases that disagree, by index (printed by the tie file)
            m = re.findall(r"=\s*\[([^\]]*)\]\s*:\s*list N", log)
            det = []
            for which, idxs in zip(("eval", "match"), m[-2:] if len(m) >= 2 else []):
                for i in [int(x.replace("%N", "")) for x in idxs.replace("\n", " ").split(";") if x.strip()][:4]:
                    if which == "eval" and i < len(ev_items):
                        key, cfg = eval_obs[ev_items[i]]
                        det.append({"tie": "eval", "application": list(key), "config": cfg, "outcomes": list(ev_items[i][1]), "engine_events": list(ev_items[i][2])})
                    if which == "match" and i < len(m_items):
                        r_, tag, ids, hit = m_items[i]
                        det.append({"tie": "match", "rule_set": os.path.relpath(r_, C.RULES), "tag": tag, "tried_ids": list(ids), "hit": hit, "config": match_obs[m_items[i]]})
            res.extra["rule_engine_disagreements"] = det
        return oracle(res) + n_probe > 0
    proved = C.check_proofs(res, "C04", ["Props/C04.vo", "Tie/C04Tie.vo", "Tie/RuleEvalTie.vo"], "Props/C04.v", search=on_broken)
    if proved:
        oracle(res)
        intent_probe(res)
    res.trusted += ["harness op h_yaml_texts (yaml-rust) for the optional words of the rule files",
                    "hook speech::verif::log_array (strings before / after the optional-text loop of replace_array_string)"]
    res.assumptions += ["which replacements a rule has and what its children say (match_pattern, xpath evaluation, ToOrdinal / ToCommonFraction) is exercised by the oracle, not proved",
                        "compute_auto_pause is an oracle of the assembly model (its output is punctuation or markup, C13)"]


def replay(path):
    rep = json.load(open(path, encoding="utf-8"))
    ok, log = C.build_harness()
    if not ok:
        print("harness build failed", log)
        return 2
    if rep.get("kind") == "literal":
        ops = [["set_preference", "TTS", "None"]] + [["set_preference", k, v] for k, v in rep["prefs"].items()] + [["set_mathml", rep["mathml"]], ["get_spoken_text"]]
        o = C.one_session(ops)["res"][-1]
        print(rep["mathml"], "\n ->", json.dumps(o, ensure_ascii=False)[:600])
        return 1 if "ok" not in o or o["ok"].count(rep["literal"]) < rep["want"] else 0
    print("replay names a broken obligation, not an input:", rep.get("what"))
    return 1
