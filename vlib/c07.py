"""C07 -- braille output uses only the target alphabet.
Coq: generic theorem about the final indicator substitution (for every string) + per-code obligations over the
indicator tables / classes regenerated from braille.rs and ALL literal texts of the code's rule and Unicode files
(Props/C07.v); tie: the real clean-up (hook) on seeded raw strings returns cells only (Tie/C07Tie.v).
Library oracle (search + support): get_braille on expressions x codes x highlight styles: cells only, no dots 7-8
when highlighting is off / no node, non-empty, text codes free of internal markers."""
import glob
import json
import os
import random
import re
import sys

from . import common as C
from . import exprs as X

sys.path.insert(0, C.VERIF)
from gen import c07 as G
from gen.coqfmt import HEADER, clist, cstr

CELL_CODES = ["Nemeth", "UEB", "CMU", "Vietnam", "Swedish"]
TEXT_CODES = ["LaTeX", "ASCIIMath"]
UNKNOWN_TEXTS = {"unknown math m l element", "empty unknown math m l element"}   # elements the code does not cover: outside the guarantee


def exempt_texts():
    """texts excused by a known finding (by id) -- the same ids are reported as KNOWN-FINDING when still present"""
    ex = {}
    for k in C.known_findings("C07"):
        for code, texts in k.get("texts", {}).items():
            ex.setdefault(code, set()).update(texts)
    return ex


def rule_texts():
    texts = {}
    for code in CELL_CODES:
        files = sorted(glob.glob(os.path.join(C.RULES, "Braille", code, "*.yaml")))
        r = C.one_session([["h_yaml_texts", f] for f in files])["res"]
        out = []
        for f, x in zip(files, r):
            if "ok" not in x:
                raise RuntimeError("cannot read %s: %r" % (f, x))
            out += [s for k, s in x["ok"] if k in ("t", "ct", "ot") and s not in UNKNOWN_TEXTS]
        texts[code] = out
    return texts


def generate(res):
    src = C.read(os.path.join(C.REPO, "src", "braille.rs"))
    t = C.translate(res, "c07", "indicator tables of braille.rs", lambda: G.parse_source(src))
    ok, log = C.build_harness()
    if not ok:
        raise RuntimeError("harness build failed: " + log)
    dump = C.one_session([["v_prefs_dump"]])["res"][0]["ok"]
    pv = {k: v for m, k, kind, v in dump}
    texts = rule_texts()
    ex = exempt_texts()
    C.write_if_changed(os.path.join(C.GEN, "BrailleTabs.v"), G.render(t, texts, pv, ex))
    # tie observations: raw strings over cells + the code's indicator letters through the real clean-up
    seed = res.seed if res else 1
    tier = res.tier if res else "quick"
    rng = random.Random(seed * 4441 + 7)
    n = 250 if tier == "quick" else 2500
    cases = []
    for code in CELL_CODES:
        keys = [k for k, _ in t[code]["table"] if len(k) == 1 and any(lo <= ord(k) <= hi for lo, hi in t[code]["class"])]
        pool = [s for s in texts[code] if s.strip() and s not in ex.get(code, set())]
        for _ in range(n):
            # concatenations of real rule texts (indicator letters only in the combinations the rule files write them)
            s = "".join(rng.choice(pool) for _ in range(rng.randint(1, 6)))
            cases.append((code, s))
    r = C.one_session([["v_braille_cleanup", c, s] for c, s in cases])["res"]
    items, obs = [], []
    for (c, s), x in zip(cases, r):
        obs.append((c, s, x))
        if "ok" in x:
            items.append("(%d, %s, %s)" % (CELL_CODES.index(c), cstr(s), cstr(x["ok"])))
    C.write_if_changed(os.path.join(C.GEN, "C07Obs.v"),
                       HEADER + "Definition observations : list (N * list N * list N) := " + clist(items) + ".\n")
    if res is not None:
        res.extra["gen_sources"] = [{"file": "src/braille.rs", "codes": {c: {"table": len(d["table"]), "class": d["class_src"], "prefs": d["prefs"]} for c, d in t.items()}},
                                    {"rule_texts": {c: len(v) for c, v in texts.items()}}]
        res.extra["tie_cases"] = len(items)
    return t, texts, ex, obs


CHARS = ["x", "A", "α", "Γ", "∑", "∫", "→", "≤", "∞", "ℝ", "∂", "√", "±", "×", "÷", "∈", "∪", "⊂", "′", "°", "%", "‰", "‴", "…", "≈", "≡", "∥", "⟨", "é"]
VARIANTS = ["bold", "italic", "script", "fraktur", "double-struck", "sans-serif", "monospace", "bold-italic"]
EXTRA = [
    "<mrow><msubsup><mi>Na</mi><mrow><mo>(</mo><mi>aq</mi><mo>)</mo></mrow><mo>+</mo></msubsup><mo>+</mo><msup><mi>Cl</mi><mo>-</mo></msup></mrow>",
    "<mrow><menclose notation='uparrow'><mi>x</mi></menclose><mo>+</mo><menclose notation='box'><mn>2</mn></menclose></mrow>",
    "<mrow><mtext>for all&#xA0;</mtext><mi>x</mi><mo>,</mo><mtext>&#xA0;the&#xA0;end.</mtext></mrow>",
    "<mrow><mn>1</mn><mo>&#x2064;</mo><mfrac><mn>2</mn><mn>3</mn></mfrac><mo>+</mo><mn>0.5</mn><mo>%</mo></mrow>",
]


RARE = ["&#x2135;", "&#x2295;", "&#x2A01;", "&#x210F;", "&#x2230;", "&#x22C9;", "&#x2136;", "&#x29B5;"]    # characters outside the short Unicode tables


def switch_oracle(res, known):
    """the code is switched inside one session, with characters that only the full Unicode tables define: what comes out
    after the switch is braille of the new code only (cells for a cell code, no cell and no marker for a text code)"""
    codes = CELL_CODES + TEXT_CODES
    body = lambda i: X.math("<mrow><mi>%s</mi><mo>%s</mo><mi>x</mi><mo>%s</mo><mn>2</mn></mrow>" % (RARE[i % len(RARE)], RARE[(i + 1) % len(RARE)], RARE[(i + 3) % len(RARE)]))
    sessions, meta = [], []
    for i, c1 in enumerate(codes):
        ops, m = [["set_rules_dir", C.RULES]], []
        for j, c2 in enumerate(c for c in codes if c != c1):
            ops += [["set_preference", "BrailleCode", c1], ["set_mathml", body(i + j)], ["get_braille", ""],
                    ["set_preference", "BrailleCode", c2], ["get_braille", ""], ["set_mathml", body(i + j + 1)], ["get_braille", ""]]
            m += [(c1, c1, body(i + j), 2), (c1, c2, body(i + j), 4), (c1, c2, body(i + j + 1), 6)]
        sessions.append({"id": i, "ops": ops})
        meta.append(m)
    out = C.run_harness(sessions)
    nv = 0
    fresh = {}
    for m, s, r in zip(meta, sessions, out):
        rs = r.get("res", [])[1:]
        for k, (c1, c2, b, off) in enumerate(m):
            idx = (k // 3) * 7 + off
            if idx >= len(rs) or "ok" not in rs[idx]:
                continue
            got = rs[idx]["ok"]
            res.add_case(("switch", c1, c2, b), nontrivial=c1 != c2)
            if c2 in CELL_CODES:
                bad = sorted(set(c for c in got if not (0x2800 <= ord(c) <= 0x28FF) and (ord(c) <= 0x7F or c in "𝐖𝘄𝑁𝐶𝑐𝟙𝔹𝐏𝑏")))
            else:
                bad = sorted(set(c for c in got if 0xE000 <= ord(c) <= 0xF8FF or ord(c) < 0x20 or c in "𝐖𝐰🣒🣓🣔" or 0x2800 <= ord(c) <= 0x28FF))
            if not bad and c1 != c2:
                # a character of the previous code's table that is no marker: compare with a session that only ever had the new code
                key = (c2, b)
                if key not in fresh:
                    fresh[key] = C.one_session([["set_preference", "BrailleCode", c2], ["set_mathml", b], ["get_braille", ""]])["res"][-1].get("ok")
                if fresh[key] is not None and fresh[key] != got:
                    bad = ["(differs from the same code in a fresh session: %s)" % fresh[key]]
            if bad:
                kid = next((k["id"] for k in known if any(t in b for t in k.get("triggers", []))), None)
                if kid and c1 == c2:
                    continue
                res.violation("after BrailleCode %s -> %s in one session the braille of %s is %r: %s" % (c1, c2, b[:120], got, "".join(bad)[:200]),
                              {"kind": "switch", "from": c1, "code": c2, "mathml": b, "observed": got, "ops": s["ops"][:1 + (k // 3) * 7 + off + 1]})
                nv += 1
                if nv >= 3:
                    return nv
    return nv


def api_oracle(res, rng, known):
    bodies = list(X.FIXED) + EXTRA
    bodies += ["<mrow><mi>%s</mi><mo>%s</mo><mn>3</mn></mrow>" % (rng.choice(CHARS), rng.choice(CHARS)) for _ in range(10)]
    bodies += ["<mrow><mi mathvariant='%s'>%s</mi><mo>+</mo><mn mathvariant='%s'>7</mn></mrow>" % (v, rng.choice("RxaΓ"), v) for v in VARIANTS]
    bodies += [X.gen(rng, 3) for _ in range(6 if res.tier == "quick" else 120)]
    # author ids of every kind: an empty, blank or repeated id is nobody's navigation node
    bodies += ["<mrow><mi id=''>x</mi><mo>+</mo><mn>12</mn></mrow>", "<mrow id=''><mfrac id=''><mn>1</mn><mi>x</mi></mfrac><mo id=' '>+</mo><mi>y</mi></mrow>",
               "<mrow id='a'><mi id='a'>x</mi><mo id='a'>-</mo><msup id=''><mi id='q q'>y</mi><mn id='0'>2</mn></msup></mrow>"]
    sessions, meta = [], []
    for code in CELL_CODES + TEXT_CODES:
        for style in ("Off", "EndPoints", "All"):
            ops = [["set_rules_dir", C.RULES], ["set_preference", "BrailleCode", code], ["set_preference", "BrailleNavHighlight", style]]
            for b in bodies:
                if style == "Off":
                    # highlighting is off: a real node id, also after a routing query (in range and past the end), must not matter
                    ops += [["set_mathml", X.math(b)], ["v_get_braille_norm", "ID-%d" % rng.randint(1, 4)], ["get_navigation_node_from_braille_position", rng.choice([1, 9999])],
                            ["v_get_braille_norm", "ID-%d" % rng.randint(0, 3)]]
                    ops[-2], ops[-3] = ops[-3], ops[-2]
                else:
                    ops += [["set_mathml", X.math(b)], ["get_braille", ""], ["get_braille", "no-such-id"]]
            sessions.append({"id": len(sessions), "ops": ops})
            meta.append((code, style))
    out = C.run_harness(sessions)
    nv = switch_oracle(res, known)
    for (code, style), r in zip(meta, out):
        rs = r.get("res", [])[3:]
        if style == "Off":
            rs = [x for j, x in enumerate(rs) if j % 4 != 1]       # drop the routing results
        if len(rs) != 3 * len(bodies):
            res.violation("braille session crashes (code %s)" % code, {"kind": "session", "code": code, "style": style, "result": r})
            nv += 1
            continue
        for i, b in enumerate(bodies):
            sm, b1, b2 = rs[3 * i:3 * i + 3]
            if "ok" not in sm:
                continue
            for x in (b1, b2):
                rep = {"kind": "braille", "code": code, "style": style, "mathml": X.math(b), "observed": x}
                res.add_case((code, style, b), nontrivial=("ok" in x and len(x["ok"]) > 1),
                             sample={"code": code, "mathml": X.math(b)[:120], "braille": x.get("ok")} if len(res.samples) < 6 and "ok" in x else None)
                if "panic" in x:
                    res.violation("get_braille panics (%s): %s" % (code, x["panic"]), rep)
                    nv += 1
                    break
                if "ok" not in x:
                    continue
                s = x["ok"]
                if not s:
                    res.violation("braille is empty for an expression with visible content (%s)" % code, rep)
                    nv += 1
                    break
                if code in CELL_CODES:
                    bad = sorted(set(c for c in s if not (0x2800 <= ord(c) <= 0x28FF)))
                    passthru = [c for c in bad if ord(c) > 0x7F and c not in "𝐖𝘄𝑁𝐶𝑐𝟙𝔹𝐏𝑏"]     # characters the code has no braille for
                    bad = [c for c in bad if c not in passthru]
                    if bad:
                        kid = next((k["id"] for k in known if any(t in X.math(b) for t in k.get("triggers", []))), None)
                        if kid:
                            res.known("%s: %s braille of %s contains %r" % (kid, code, X.math(b)[:80], "".join(bad)))
                        else:
                            res.violation("%s braille contains non-braille characters %r: %s" % (code, "".join(bad), s), dict(rep, bad="".join(bad)))
                            nv += 1
                            break
                    d78 = sorted(set(c for c in s if 0x28C0 <= ord(c) <= 0x28FF))
                    if d78:
                        if "⣍" in d78 and "<mtable" in b and code in ("Nemeth", "Vietnam"):
                            # with style All and no node, the two 8-dot row separators are taken for the ends of a highlight
                            res.known("table-row-separator-8dot: %s writes the row separator of a table as the 8-dot cell ⣍ (U+28CD)" % code)
                        else:
                            res.violation("no node is highlighted (style %s, empty / unknown id) but cells carry dots 7-8: %r" % (style, "".join(d78)), rep)
                            nv += 1
                            break
                else:
                    bad = sorted(set(c for c in s if 0xE000 <= ord(c) <= 0xF8FF or ord(c) < 0x20 or c in "𝐖𝐰🣒🣓🣔" or 0x2800 <= ord(c) <= 0x28FF))
                    if bad:
                        res.violation("%s output contains internal markers %r: %s" % (code, "".join(bad), s), dict(rep, bad="".join(bad)))
                        nv += 1
                        break
            if nv >= 6:
                return nv
    return nv


def run(res):
    res.rule = ("obligations: every literal text of every rule / Unicode file of Nemeth, UEB, CMU, Vietnam, Swedish (thousands of strings) and the "
                "indicator tables / classes; tie: seeded raw strings (rule texts concatenated, random cells + indicator letters) through the real "
                "clean-up; oracle: fixed + chemistry / enclose / text / percent expressions, stratified characters, 8 mathvariants, seeded textbook "
                "expressions x 7 codes x 3 highlight styles with empty and unknown node id; non-trivial = braille longer than one cell")
    rng = random.Random(res.seed * 271 + 7)
    known = C.known_findings("C07")
    t, texts, ex, obs = generate(res)
    for c, s, x in obs:
        res.add_case(("raw", c, s), nontrivial=("ok" in x and x["ok"] != s))
        if "panic" in x:
            # arbitrary concatenations of rule texts are not necessarily sequences the rules can produce; a panic of the
            # character machines on them is a C08 search target, not an alphabet violation
            res.extra.setdefault("cleanup_panics_on_synthetic_strings", []).append([c, s, x["panic"][:120]])
    for code, tx in ex.items():
        present = sorted(set(texts.get(code, [])) & tx)
        for k in known:
            hit = sorted(set(k.get("texts", {}).get(code, [])) & set(present))
            if hit:
                res.known("%s: %s rule files still contain the text(s) %r" % (k["id"], code, hit))

    def on_broken(log):
        n = 0
        # which texts break the obligation?  (recomputed in python only to name them)
        for code in CELL_CODES:
            d = t[code]
            tab = dict(d["table"])
            pv = {k for k, _ in d["prefs"]}

            def ok_char(c):
                if c == " " or 0x2800 <= ord(c) <= 0x28FF:
                    return True
                if any(lo <= ord(c) <= hi for lo, hi in d["class"]):
                    return c in pv or all(0x2800 <= ord(x) <= 0x28FF for x in tab.get(c, ""))
                return False
            for s in sorted(set(texts[code])):
                if s in ex.get(code, set()):
                    continue
                badc = [c for c in s if not ok_char(c)]
                d78 = [c for c in s if 0x28C0 <= ord(c) <= 0x28FF]
                if badc or d78:
                    r = C.one_session([["v_braille_cleanup", code, s]])["res"][0]
                    res.violation("%s rule text %r contains %r which the clean-up does not turn into plain braille cells (clean-up gives %r)"
                                  % (code, s, "".join(badc or d78), r.get("ok")),
                                  {"kind": "raw", "code": code, "input": s, "observed": r})
                    n += 1
                    if n >= 4:
                        return True
            for c, s, x in obs:
                if c == code and "ok" in x and any(not (0x2800 <= ord(ch) <= 0x28FF) for ch in x["ok"]):
                    res.violation("%s clean-up of %r leaves non-braille characters: %r" % (code, s, x["ok"]), {"kind": "raw", "code": code, "input": s, "observed": x})
                    n += 1
                    if n >= 4:
                        return True
        n += api_oracle(res, rng, known)
        return n > 0
    proved = C.check_proofs(res, "C07", ["Props/C07.vo", "Tie/C07Tie.vo"], "Props/C07.v", search=on_broken)
    if proved:
        api_oracle(res, rng, known)
    res.trusted += ["harness op h_yaml_texts (yaml-rust) for the literal texts of the rule files",
                    "the regex steps before the final substitution only insert their template literals (checked for the clean-up function's own literals; "
                    "the UEB-family character machines and contraction tables are not translated) -- exercised by the tie and the oracle",
                    "XPath-computed strings (BrailleChars etc.) are an oracle: their alphabet is checked on real output only"]
    res.assumptions += ["characters for which a code defines no braille are passed through by design and are excluded (non-ASCII characters outside the braille block)"]


def replay(path):
    rep = json.load(open(path, encoding="utf-8"))
    ok, log = C.build_harness()
    if not ok:
        print("harness build failed", log)
        return 2
    if rep.get("kind") == "raw":
        x = C.one_session([["v_braille_cleanup", rep["code"], rep["input"]]])["res"][0]
        print(x)
        return 1 if "ok" not in x or any(not (0x2800 <= ord(c) <= 0x28FF) for c in x["ok"]) else 0
    if rep.get("kind") == "braille":
        x = C.one_session([["set_preference", "BrailleCode", rep["code"]], ["set_preference", "BrailleNavHighlight", rep["style"]],
                           ["set_mathml", rep["mathml"]], ["get_braille", ""]])["res"][-1]
        print(x)
        if "ok" not in x:
            return 1
        if rep["code"] in CELL_CODES:
            return 1 if any(ord(c) < 0x80 or 0x28C0 <= ord(c) <= 0x28FF for c in x["ok"]) else 0
        return 0
    if rep.get("kind") == "switch":
        x = C.one_session(rep["ops"][1:])["res"][-1]
        f = C.one_session([["set_preference", "BrailleCode", rep["code"]], ["set_mathml", rep["mathml"]], ["get_braille", ""]])["res"][-1]
        print("after the switch:", x, "\nfresh session:   ", f)
        return 1 if x != f else 0
    print("replay names a broken obligation, not an input:", rep.get("what"))
    return 1
