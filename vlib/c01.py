"""C01 -- canonicalization never loses or invents visible content.
Coq (Props/C01.v): for EVERY tree, the mrow parser (the whole model of Model/Parser.v) preserves the sequence of leaf
texts: the result's leaves are the input's leaves (canonicalized one by one), in document order, plus inserted
invisible operators -- whatever the classifier decides, for rows of any length and any nesting.
Oracle (search + support), through set_mathml: the visible characters of the returned MathML equal the visible
characters of the input, in order, modulo the documented normalizations (minus sign and dash / accent variants, prime
merging, ellipsis, mathvariant restyling, mfenced delimiters, whitespace); non-rendered content (mphantom, annotations,
mspace) may disappear."""
import json
import os
import random
import re
import sys
import unicodedata
import xml.etree.ElementTree as ET

from . import common as C
from . import exprs as X
from . import c03

sys.path.insert(0, C.VERIF)

INVISIBLE = "⁡⁢⁣⁤"
# documented character normalizations: variants are identified with one representative
VARIANTS = [("-", "_ˉ̲̄̅−‐‑‒–—―‾¯-"), ("`", "ʼ`"),
            ("~", "˜∼~"), ("^", "ˆ̂^"), ("˙", "̇˙"), ("¨", "̈¨"),
            ("°", "ºₒ⃘∘°"), ("‖", "ǁ‖∥"), ("'", "′'’ʹ"), (".", "⋅.·")]
VMAP = {c: rep for rep, cs in VARIANTS for c in cs}
MULTI = {"″": "''", "‴": "'''", "⁗": "''''", "…": "...", "⋯": "...", "∥": "‖",
         "∶": ":", "∷": "::"}       # a colon between numbers is written as the ratio sign, a double colon as the proportion sign
LEAVES = {"mi", "mn", "mo", "mtext", "ms", "mglyph"}
DROPPED = {"mphantom", "annotation", "annotation-xml", "mspace", "malignmark", "maligngroup", "none", "mprescripts"}


def norm_chars(s):
    """per leaf: nothing (see dash_token for the one per-token normalization; the rest is applied to the whole character
    sequence, see [canon])"""
    return s


def canon(s):
    out = []
    for ch in s:
        if ch in INVISIBLE or ch.isspace() or ch in "\u00a0\u200b\u2009\u200a\u2002\u2003\u2004\u2005\u2006\u2060\ufeff":
            continue
        ch = VMAP.get(ch, ch)
        ch = MULTI.get(ch, ch)
        for c in unicodedata.normalize("NFKC", ch):
            c = VMAP.get(c, c)
            if not c.isspace():
                out.append(c)
    return "".join(out).replace("‖", "||")


def visible_in(e):
    """visible characters of an input element, in document order"""
    tag = e.tag.split("}")[-1]
    if tag in DROPPED:
        return ""
    if tag in LEAVES:
        if tag == "mglyph":
            # an mglyph outside a token element is not presentation MathML 3 (the property quantifies over well-formed
            # expressions); the library treats it as an empty element: its alt is not counted on either side
            return ""
        text = "".join(e.itertext()) if tag != "ms" else "".join(e.itertext())
        if tag in ("mi", "mtext") and text.strip(" \t\n\r") in ("--", "---", "----"):
            text = "-"           # canonicalize_dash: an mi / mtext that IS two to four hyphens becomes a dash character
        for g in e.iter():
            if g is not e and g.tag.split("}")[-1] == "mglyph":
                text += g.get("alt", "")
        return norm_chars(text)
    if tag == "semantics":
        kids = list(e)
        # the presentation child: the first child unless it is an annotation
        for k in kids:
            if k.tag.split("}")[-1] not in ("annotation", "annotation-xml"):
                return visible_in(k)
        return ""
    if tag == "mfenced":
        o, c, seps = e.get("open", "("), e.get("close", ")"), e.get("separators", ",")
        seps = [s for s in seps if not s.isspace()]
        kids = list(e)
        out = norm_chars(o)
        for i, k in enumerate(kids):
            if i and seps:
                out += norm_chars(seps[min(i - 1, len(seps) - 1)])
            out += visible_in(k)
        return out + norm_chars(c)
    if tag == "mmultiscripts":
        return multiscripts(list(e), visible_in)
    return "".join(visible_in(k) for k in e)


def multiscripts(kids, vis):
    """reading order: prescripts, base, postscripts"""
    if not kids:
        return ""
    idx = [i for i, k in enumerate(kids) if k.tag.split("}")[-1] == "mprescripts"]
    if not idx:
        return "".join(vis(k) for k in kids)
    i = idx[0]
    return "".join(vis(k) for k in kids[i + 1:]) + vis(kids[0]) + "".join(vis(k) for k in kids[1:i])


def visible_out(e):
    tag = e.tag.split("}")[-1]
    if tag in LEAVES:
        if tag == "mglyph":
            return ""                                   # see visible_in
        return norm_chars(e.text or "")
    if tag == "mmultiscripts":
        return multiscripts(list(e), visible_out)
    return "".join(visible_out(k) for k in e)


def compare(inp, out):
    """None when the visible characters agree, else a description"""
    try:
        a = visible_in(ET.fromstring(inp))
    except ET.ParseError as ex:
        return None
    a, b = canon(a), canon(visible_out(ET.fromstring(out)))
    if a == b:
        return None
    if sorted(a) == sorted(b):
        return ("order", a, b)
    return ("content", a, b)


# ---------------------------------------------------------------- degenerate but valid structures
TOK = ["<mi>x</mi>", "<mi>y</mi>", "<mn>2</mn>", "<mn>13</mn>", "<mo>+</mo>", "<mo>=</mo>", "<mi>sin</mi>", "<mtext>if</mtext>", "<mo>-</mo>", "<mo>(</mo>", "<mo>)</mo>",
       "<mo>&#x2032;</mo>", "<mo>.</mo>", "<mo>&#x2212;</mo>", "<mi>H</mi>", "<mi>Cl</mi>", "<mn>3.5</mn>", "<mo>,</mo>", "<mo>|</mo>", "<mo>!</mo>",
       # tokens that the clean-up merges with their neighbour (arc + trig name, consecutive letters, dots, bars, colons, primes):
       # as positional children of 2-D elements they must stay two tokens
       "<mi>arc</mi>", "<mo>arc</mo>", "<mi>cos</mi>", "<mi>tan</mi>", "<mi>a</mi>", "<mi>m</mi>", "<mo>:</mo>", "<mo>|</mo>", "<mo>&#x2026;</mo>", "<mo>'</mo>",
       "<mn>%</mn>", "<mn>-</mn>", "<mn>&#x2212;&#xA0;%</mn>", "<mn>50%</mn>", "<mn>&#x2030;</mn>", "<mn>,</mn>", "<mn>.</mn>", "<mn>1 2</mn>", "<mi>&#xA0;</mi>", "<mo>&#x2062;</mo>"]
EMPTY = ["<mglyph src='a.png'/>", "<mglyph src='a.png' alt='braid'/>", "<mglyph alt=' '/>", "<mi><mglyph src='b.png' alt='glyph'/></mi>",
         "<mrow/>", "<mrow></mrow>", "<mi></mi>", "<mtext></mtext>", "<none/>", "<mspace width='1em'/>", "<mphantom><mi>q</mi></mphantom>", "<mrow><mrow/></mrow>", "<mo></mo>",
         "<mtext>&#xA0;</mtext>", "<mstyle><mrow/></mstyle>"]


def degenerate(rng, depth=3):
    def tok():
        return rng.choice(TOK)

    def arg(d):
        r = rng.random()
        if r < 0.22:
            return rng.choice(EMPTY)
        if d <= 0 or r < 0.5:
            return tok()
        return node(d - 1)

    def node(d):
        k = rng.choice(["mrow", "mrow", "msub", "msup", "msubsup", "munder", "mover", "munderover", "mfrac", "msqrt", "mroot", "mstyle", "mpadded",
                        "menclose", "mfenced", "mmultiscripts", "mtable", "semantics", "mphantom", "merror", "maction"])
        if k == "mrow":
            return "<mrow>%s</mrow>" % "".join(arg(d) for _ in range(rng.randint(0, 5)))
        if k in ("msub", "msup", "munder", "mover", "mfrac", "mroot"):
            return "<%s>%s%s</%s>" % (k, arg(d), arg(d), k)
        if k in ("msubsup", "munderover"):
            return "<%s>%s%s%s</%s>" % (k, arg(d), arg(d), arg(d), k)
        if k in ("msqrt", "mstyle", "mpadded", "menclose", "mphantom", "merror"):
            a = {"mstyle": " displaystyle='true'", "mpadded": " width='+1em'", "menclose": " notation='box'"}.get(k, "")
            return "<%s%s>%s</%s>" % (k, a, "".join(arg(d) for _ in range(rng.randint(1, 3))), k)
        if k == "maction":
            return "<maction actiontype='toggle'>%s%s</maction>" % (arg(d), arg(d))
        if k == "mfenced":
            a = rng.choice(["", " open='['", " open='[' close=')'", " separators=';'", " separators=';,'", " open='' close=''", " separators=''", " open='{' close=''"])
            return "<mfenced%s>%s</mfenced>" % (a, "".join(arg(d) for _ in range(rng.randint(0, 4))))
        if k == "mmultiscripts":
            post = "".join(arg(d) + arg(d) for _ in range(rng.randint(0, 2)))
            pre = ("<mprescripts/>" + "".join(arg(d) + arg(d) for _ in range(rng.randint(1, 2)))) if rng.random() < 0.5 else ""
            return "<mmultiscripts>%s%s%s</mmultiscripts>" % (arg(d), post, pre)
        if k == "mtable":
            rows = "".join("<mtr>%s</mtr>" % "".join("<mtd>%s</mtd>" % arg(d - 1) for _ in range(rng.randint(1, 3))) for _ in range(rng.randint(1, 3)))
            return "<mtable>%s</mtable>" % rows
        if k == "semantics":
            enc = rng.choice(["application/x-tex", "application/x-tex", "a b", "TeX &amp; co", "x=&quot;y&quot;", "&#xE9;t&#xE9;", "", "1st", "a/b/c", "x:y"])
            return "<semantics>%s<annotation encoding='%s'>x^2</annotation><annotation-xml encoding='MathML-Content'><ci>x</ci></annotation-xml></semantics>" % (arg(d), enc)
        return tok()
    out = "<math>%s</math>" % "".join(arg(depth) for _ in range(rng.randint(1, 4)))
    if rng.random() < 0.35:
        # author attributes (intent machinery, ids, styling) on rows and tokens
        def add(m):
            if rng.random() < 0.3:
                a = rng.choice([' arg="a"', ' arg="b"', ' intent=":x"', ' id="i%d"' % rng.randint(0, 9), ' mathcolor="red"', ' class="k"', " data-latex=\"f'\"", ' arg="c"'])
                return "<%s%s%s" % (m.group(1), a, m.group(2))
            return m.group(0)
        out = re.sub(r"<(mrow|mi|mn|mo|mfrac|msup)(>|/>)", add, out)
    return out


# ---------------------------------------------------------------- tokens whose text mixes ordinary and special characters
PIECES = ["f", "x", "y", "12", "3", "A", "sin", "arc", "d", "&#x3B1;", "'", "'", "&#x2032;", "&#x2033;", "&#x2034;", "&#x2057;", ".", "..", "...", "&#x2026;", "-", "&#x2212;",
          "--", "---", "|", "||", "&#x2016;", "&#xB0;", "%", "&#xA0;", " ", ",", "=", "+", "!", "&#x338;", "&#x305;", "_", "&#xAF;", "~", "^", "*", "&#x2061;", "&#x2062;", ":", "/"]


def mixed_tokens(rng):
    """a short row or script whose tokens carry mixed text: f', '=, x.., 1-2, sin' ... (every character must survive)"""
    def tok():
        tag = rng.choice(["mi", "mi", "mo", "mo", "mn", "mtext"])
        text = "".join(rng.choice(PIECES) for _ in range(rng.randint(1, 3)))
        if not text.strip():
            text = "x" + text
        return "<%s>%s</%s>" % (tag, text, tag)
    plain = ["<mi>a</mi>", "<mn>2</mn>", "<mo>+</mo>", "<mo>(</mo>", "<mo>)</mo>", "<mi>z</mi>"]
    kids = [tok() if rng.random() < 0.6 else rng.choice(plain) for _ in range(rng.randint(1, 5))]
    r = rng.random()
    if r < 0.6:
        return "<math><mrow>%s</mrow></math>" % "".join(kids)
    if r < 0.8:
        return "<math><msup>%s%s</msup></math>" % (kids[0], tok())
    return "<math><mfrac><mrow>%s</mrow>%s</mfrac></math>" % ("".join(kids), tok())


# ---------------------------------------------------------------- shrinking a failing input
def shrink(xml, fails, budget=200):
    """greedy reduction of an XML string: delete or hoist sub-elements while `fails(xml)` stays true"""
    best = xml
    steps = 0
    changed = True
    while changed and steps < budget:
        changed = False
        root = ET.fromstring(best)
        nodes = [(p, i) for p in root.iter() for i in range(len(p))]
        for p, i in nodes:
            steps += 1
            if steps >= budget:
                break
            r2 = ET.fromstring(best)
            # locate the same node by path
            path = []
            cur = p
            # recompute the path of p in `root`
            def find_path(node, target, acc):
                if node is target:
                    return acc
                for k, c in enumerate(node):
                    q = find_path(c, target, acc + [k])
                    if q is not None:
                        return q
                return None
            pp = find_path(root, p, [])
            if pp is None:
                continue
            for variant in ("delete", "hoist"):
                r2 = ET.fromstring(best)
                q = r2
                for k in pp:
                    q = q[k]
                if i >= len(q):
                    continue
                child = q[i]
                if variant == "delete":
                    q.remove(child)
                else:
                    if len(child) == 0:
                        continue
                    q.remove(child)
                    for j, g in enumerate(list(child)):
                        q.insert(i + j, g)
                cand = ET.tostring(r2, encoding="unicode")
                if len(cand) < len(best) and fails(cand):
                    best = cand
                    changed = True
                    break
            if changed:
                break
    return best


MERGE_TOK = ["<mi>a</mi>", "<mi>b</mi>", "<mi>c</mi>", "<mi>d</mi>", "<mi>x</mi>", "<mn>1</mn>", "<mn>2</mn>", "<mn>12</mn>", "<mn>345</mn>",
             "<mo>.</mo>", "<mo>.</mo>", "<mo>.</mo>", "<mo>'</mo>", "<mo>&#x2032;</mo>", "<mo>_</mo>", "<mo>-</mo>", "<mo>-</mo>", "<mo>|</mo>", "<mo>|</mo>",
             "<mo>,</mo>", "<mo>:</mo>", "<mo>(</mo>", "<mo>)</mo>", "<mo>[</mo>", "<mo>]</mo>", "<mi>arc</mi>", "<mi>sin</mi>", "<mo>+</mo>", "<mo>=</mo>",
             "<msup><mrow/><mn>2</mn></msup>", "<msub><mrow/><mi>i</mi></msub>", "<msubsup><mrow/><mn>1</mn><mn>2</mn></msubsup>", "<msup><mi>y</mi><mn>3</mn></msup>",
             "<mfrac><mn>1</mn><mn>2</mn></mfrac>", "<msqrt><mi>z</mi></msqrt>", "<mtext>&#xA0;</mtext>", "<mspace width='1em'/>", "<mn>1,234</mn>", "<mo>&#x2062;</mo>"]


def merge_rows(rng):
    """rows that exercise the merging passes of clean_mathml: repeated dots / primes / bars / dashes between operands,
    empty-base scripts after fenced groups, digit blocks with separators"""
    n = rng.randint(3, 12)
    toks = [rng.choice(MERGE_TOK) for _ in range(n)]
    r = rng.random()
    if r < 0.25:        # a.b.c.d
        sep = rng.choice(["<mo>.</mo>", "<mo>'</mo>", "<mo>|</mo>", "<mo>-</mo>", "<mo>_</mo>", "<mo>,</mo>"])
        toks = []
        for i in range(rng.randint(3, 6)):
            if i:
                toks.append(sep)
            toks.append(rng.choice(MERGE_TOK[:9] + MERGE_TOK[-7:-3]))
    elif r < 0.5:       # ( ... ) empty-base script, at the end or before a non-leaf
        o, c = rng.choice([("(", ")"), ("[", "]"), ("{", "}")])
        inner = "".join(rng.choice(MERGE_TOK[:9] + ["<mo>+</mo>", "<mo>-</mo>"]) for _ in range(rng.randint(1, 4)))
        script = rng.choice(["<msup><mrow/><mn>2</mn></msup>", "<msub><mrow/><mi>i</mi></msub>", "<msubsup><mrow/><mn>1</mn><mn>2</mn></msubsup>", "<msup><mrow></mrow><mi>n</mi></msup>"])
        tail = rng.choice(["", "", "<mfrac><mn>1</mn><mn>2</mn></mfrac>", "<msqrt><mi>z</mi></msqrt>", "<mi>k</mi>", "<mo>+</mo><mn>1</mn>"])
        head = rng.choice(["", "<mn>3</mn>", "<mi>f</mi>", "<mn>3</mn><mo>+</mo>"])
        toks = [head, "<mo>%s</mo>" % o, inner, "<mo>%s</mo>" % c, script, tail]
    body = "".join(toks)
    wrap = rng.choice(["<mrow>%s</mrow>", "%s", "<msqrt>%s</msqrt>", "<mtable><mtr><mtd>%s</mtd></mtr></mtable>", "<mfrac><mrow>%s</mrow><mn>7</mn></mfrac>"])
    return "<math>%s</math>" % (wrap % body)


WORDS = ["sin", "cos", "max", "min", "lim", "log", "time", "Velocity", "mass", "gcd", "arcsin", "det", "ab", "xyz", "sinh", "Re", "ker", "exp", "mod", "area"]
VARIANTS = [None, None, None, "bold", "italic", "normal", "double-struck", "bold-italic", "script"]


def letter_runs(rng):
    """words and function names written one letter per <mi> (what many converters emit): the clean-up folds such runs into
    one token.  Letters carry styles, colours, ids; other tokens stand in between; every letter must come out once, in order"""
    def letters(w):
        out = []
        for ch in w:
            v = rng.choice(VARIANTS) if rng.random() < 0.3 else None
            extra = rng.choice(["", "", "", " mathcolor='red'", " id='L%d'" % rng.randint(0, 99), " mathsize='big'"])
            out.append("<mi%s%s>%s</mi>" % ((" mathvariant='%s'" % v) if v else "", extra, ch))
        return out
    toks = []
    for _ in range(rng.randint(1, 3)):
        toks += letters(rng.choice(WORDS))
        toks.append(rng.choice(["<mo>&#x2061;</mo>", "<mo>+</mo>", "<mn>2</mn>", "<mo>(</mo><mi>x</mi><mo>)</mo>", "<mtext>&#xA0;</mtext>", "<mo>=</mo>", ""]))
    body = "".join(toks)
    wrap = rng.choice(["<mrow>%s</mrow>", "%s", "<mfrac><mrow>%s</mrow><mn>2</mn></mfrac>", "<msqrt>%s</msqrt>", "<msub><mrow>%s</mrow><mi>k</mi></msub>"])
    return "<math>%s</math>" % (wrap % body)


# ---------------------------------------------------------------- the check
KF_MFENCED = "mfenced-too-few-separators"


def short_separators(xml):
    """does the input have an mfenced with more children than separators + 1 (and at least one separator)?"""
    try:
        root = ET.fromstring(xml)
    except ET.ParseError:
        return False
    for e in root.iter():
        if e.tag.split("}")[-1] == "mfenced":
            seps = [s for s in e.get("separators", ",") if not s.isspace()]
            if seps and seps[-1] != "," and len(list(e)) > len(seps) + 1:
                return True
    return False


def corpus(res):
    rng = random.Random(res.seed * 211 + 1)
    entries, _ = c03.gen_tables(None)
    n = 1 if res.tier == "quick" else 10
    bodies = [X.math(b) for b in X.FIXED] + [X.math(X.gen(rng, 3, None, X.MORE_KINDS)) for _ in range(150 * n)]
    bodies += [b for b in (c03.to_xml(t) for t in c03.cases(rng, 250 * n, [t for t, _ in entries])) if "data-" not in b]
    bodies += [degenerate(rng, rng.randint(1, 3)) for _ in range(400 * n)]
    bodies += [merge_rows(rng) for _ in range(500 * n)]
    bodies += [mixed_tokens(rng) for _ in range(400 * n)]
    bodies += [letter_runs(rng) for _ in range(200 * n)]
    return bodies


def oracle(res):
    bodies = corpus(res)
    found = 0
    kf = {k["id"] for k in C.known_findings("C01")}
    sessions = [{"id": i, "ops": [["set_rules_dir", C.RULES]] + [["set_mathml", b] for b in bodies[i::16]]} for i in range(16)]
    out = C.run_harness(sessions)
    for i, r in enumerate(out):
        rr = r.get("res", [])[1:]
        for b, o in zip(bodies[i::16], rr):
            if "panic" in o:
                res.extra["panics"] = res.extra.get("panics", 0) + 1
                continue
            if "ok" not in o:
                res.extra["rejected"] = res.extra.get("rejected", 0) + 1
                continue
            d = compare(b, o["ok"])
            res.add_case(b, len(b) > 200, b[:60])
            if d is None:
                continue
            if KF_MFENCED in kf and short_separators(b):
                res.known("%s: %s" % (KF_MFENCED, b[:100]))
                continue

            def fails(xml):
                q = C.one_session([["set_mathml", xml]])["res"][0]
                return "ok" in q and compare(xml, q["ok"]) is not None and not short_separators(xml)
            small = shrink(b, fails, budget=120)
            q = C.one_session([["set_mathml", small]])["res"][0]
            dd = compare(small, q["ok"]) if "ok" in q else d
            found += 1
            res.violation("visible characters differ (%s): input %s has %r, the canonical MathML has %r" % (dd[0], small[:300], dd[1][:80], dd[2][:80]),
                          {"kind": "visible", "mathml": small, "original": b, "expected": dd[1], "got": dd[2]})
            if found >= 3:
                return found
    return found


def run(res):
    res.rule = ("25 fixed + seeded textbook expressions (scripts on arbitrary bases, lists, juxtaposition) + the C03 mixed rows (all dictionary "
                "operators, fences, embellished operators, whitespace) + degenerate but valid structures (empty / phantom / spacing children in "
                "every script position, mstyle / mpadded / menclose / mfenced variants / mmultiscripts / mtable / semantics / maction); "
                "set_mathml output vs input, visible characters in reading order; non-trivial = inputs longer than 200 characters")

    def on_broken(log):
        return oracle(res) > 0
    c03.generate(res)           # Gen tables and the parser tie observations
    proved = C.check_proofs(res, "C01", ["Props/C01.vo", "Tie/C03Tie.vo"], "Props/C01.v", search=on_broken)
    if proved:
        oracle(res)
    res.trusted += ["the documented normalizations of the oracle (variant tables for minus / dash / accent characters, NFKC for restyled letters, "
                    "prime and ellipsis merging, || -> double bar, mfenced delimiters, mmultiscripts read prescripts first) are hand-written"]
    res.assumptions += ["clean_mathml (validation, wrapper removal, merging passes, chemistry) is not modelled: its effect is checked by the oracle only; "
                        "the theorem covers canonicalize_mrows (the parser), the tie is Tie/C03Tie.v",
                        "inputs the library rejects (Err) or panics on are counted, not judged here (C08)"]


def replay(path):
    rep = json.load(open(path, encoding="utf-8"))
    ok, log = C.build_harness()
    if not ok:
        print("harness build failed", log)
        return 2
    if rep.get("kind") == "visible":
        o = C.one_session([["set_mathml", rep["mathml"]]])["res"][0]
        print(rep["mathml"], "\n ->", json.dumps(o, ensure_ascii=False)[:800])
        if "ok" not in o:
            return 1
        d = compare(rep["mathml"], o["ok"])
        print(d)
        return 1 if d else 0
    print("replay names a broken obligation, not an input:", rep.get("what"))
    return 1
