"""C02 -- returned MathML is well-formed canonical MathML.
Coq (Props/C02.v): the escape table of mml_to_string, regenerated from the source, decodes back and leaves no delimiter
(any text, any attribute value); the parser keeps tag / attributes / number of children of every non-mrow element and
builds rows of at least two children.  Tie: attribute values and token texts with special characters through
set_mathml, the serialized form compared with the model's escape in the kernel.
Oracle (search + support): the C01 corpus through set_mathml and get_navigation_mathml: parses as XML, one child of
math, arities, no empty token, no row with fewer than two children unless it has an intent, no wrapper left."""
import json
import os
import random
import re
import sys
import xml.etree.ElementTree as ET

from . import common as C
from . import exprs as X
from . import c01

sys.path.insert(0, C.VERIF)
from gen import c02 as G
from gen import elemsets as GE
from gen.coqfmt import HEADER, clist, cstr

SPECIAL = list("\"&'<>") + ["⁡", "⁢", "⁣", "⁤", "a", "b", "1", "é", "∑", "=", ";", "#", "x", "/"]
FIXED_ARITY = {"mfrac": 2, "mroot": 2, "msub": 2, "msup": 2, "munder": 2, "mover": 2, "msubsup": 3, "munderover": 3}
ONE_CHILD = {"math", "msqrt", "merror", "menclose", "mtd", "mscarry"}
WRAPPERS = {"mfenced", "mstyle", "mpadded", "mphantom", "mspace", "semantics", "annotation", "annotation-xml", "maction"}
TOKENS = {"mi", "mn", "mo", "mtext", "ms"}


def xml_attr(s):
    return s.replace("&", "&amp;").replace("<", "&lt;").replace('"', "&quot;")


def generate(res):
    src = C.read(os.path.join(C.REPO, "src", "pretty_print.rs"))
    can = C.read(os.path.join(C.REPO, "src", "canonicalize.rs"))
    table, quote, one, fixed = C.translate(res, "c02", "escape table of pretty_print.rs, child-count sets of canonicalize.rs",
                                           lambda: (G.escape_table(src), G.quote_char(src), GE.phf_str_set(can, "ELEMENTS_WITH_ONE_CHILD"),
                                                    GE.phf_str_set(can, "ELEMENTS_WITH_FIXED_NUMBER_OF_CHILDREN")))
    C.write_if_changed(os.path.join(C.GEN, "EscapeTab.v"), G.render(table, quote, one, fixed))
    ok, log = C.build_harness()
    if not ok:
        raise RuntimeError("harness build failed: " + log)
    seed = res.seed if res else 1
    tier = res.tier if res else "quick"
    rng = random.Random(seed * 389 + 2)
    vals = ["".join(rng.choice(SPECIAL) for _ in range(rng.randint(1, 8))) for _ in range(120 if tier == "quick" else 1200)]
    vals += ["f'", "Newton's constant", "a<b", "x&y", 'say "hi"', "1>0", "⁢", "&amp;", "&#x27;", "''", "<<>>"]
    ops = [["set_mathml", '<math><mi data-x="%s">x</mi></math>' % xml_attr(v)] for v in vals]
    r = C.one_session(ops)["res"]
    items, bad = [], []
    for v, o in zip(vals, r):
        if "ok" not in o:
            bad.append((v, o))
            continue
        m = re.search(r" data-x='([^']*)'", o["ok"])
        items.append((v, m.group(1) if m else None, o["ok"]))
    body = HEADER + "Definition escape_obs : list (list N * list N) := " + clist("(%s, %s)" % (cstr(v), cstr(e)) for v, e, _ in items if e is not None) + ".\n"
    C.write_if_changed(os.path.join(C.GEN, "C02Obs.v"), body)
    if res is not None:
        res.extra["tie_cases"] = len(items)
        res.extra["tie_unextractable"] = sum(1 for _, e, _ in items if e is None)
        res.extra["gen_sources"] = [{"file": "src/pretty_print.rs", "escape_table": [[c, e] for c, e in table]}]
    return items, bad


# ---------------------------------------------------------------- the validation tie (Model/Assure.v)
A_TAGS = None


def a_xml(t):
    if t == "T":
        return "x"
    tag, enc, kids = t
    a = " encoding='MathML-Presentation'" if enc is True else (" encoding='%s'" % enc if enc else "")
    return "<%s%s>%s</%s>" % (tag, a, "".join(a_xml(k) for k in kids), tag)


def a_coq(t):
    if t == "T":
        return "Tx"
    tag, enc, kids = t
    return "El %s %s [%s]" % (cstr(tag), "true" if enc is True else "false", "; ".join(a_coq(k) for k in kids))


def a_tree(rng, sets, depth):
    leafs, empties, alls = sets["leaf_nodes"], sets["empty_elements"], sets["all_mathml_elements"]
    r = rng.random()
    if depth <= 0 or r < 0.35:
        tag = rng.choice(leafs if rng.random() < 0.85 else empties)
        q = rng.random()
        # (trim_element, in front of the validation, turns whatever a token holds into one text and drops text elsewhere:
        #  only trees it leaves alone are generated)
        kids = ["T"] if q < 0.7 and tag in leafs else []
        if tag in empties and rng.random() < 0.8:
            kids = []
        return (tag, False, kids)
    if r < 0.50:
        tag = "mmultiscripts"
        n = rng.randint(0, 8)
        kids = [("mprescripts", False, []) if rng.random() < 0.22 else (("none", False, []) if rng.random() < 0.2 else a_tree(rng, sets, depth - 2)) for _ in range(n)]
        return (tag, False, kids)
    if r < 0.62:
        n = rng.randint(0, 4)
        kids = []
        for i in range(n):
            q = rng.random()
            if q < 0.4:
                kids.append(a_tree(rng, sets, depth - 1))
            elif q < 0.7:
                inner = [a_tree(rng, sets, depth - 1) for _ in range(rng.choice([0, 1, 1, 1, 2]))]
                kids.append(("annotation-xml", rng.choice([True, True, False, "MathML-Content"]), inner))
            else:
                kids.append(("annotation", rng.choice([False, False, "application/x-tex", True]), rng.choice([["T"], [], ["T"]])))
        return ("semantics", False, kids)
    if r < 0.80:
        tag = rng.choice(sets["fixed_children"])
        n = rng.choice([2, 2, 3, 3, 1, 0, 4])
        return (tag, False, [a_tree(rng, sets, depth - 1) for _ in range(n)])
    tag = rng.choice(alls + ["foo", "annotation-xml", "apply", "svg", "mprescripts", "msline"]) if rng.random() < 0.9 else rng.choice(["semantics", "annotation"])
    if tag in leafs:
        return (tag, False, ["T"])
    return (tag, rng.random() < 0.03, [a_tree(rng, sets, depth - 1) for _ in range(rng.randint(0, 3))])


def assure_observations(res):
    import itertools
    can = C.read(os.path.join(C.REPO, "src", "canonicalize.rs"))
    xpf = C.read(os.path.join(C.REPO, "src", "xpath_functions.rs"))
    sets = C.translate(res, "c02-assure", "name sets of assure_mathml (canonicalize.rs, xpath_functions.rs)", lambda: GE.assure_sets(can, xpf))
    C.write_if_changed(os.path.join(C.GEN, "AssureSets.v"), GE.render(sets))
    tier = res.tier if res else "quick"
    rng = random.Random((res.seed if res else 1) * 617 + 2)
    trees = []
    x, none, pre = ("mi", False, ["T"]), ("none", False, []), ("mprescripts", False, [])
    for n in range(0, 7 if tier == "quick" else 9):           # every arrangement of scripts, <none/> and <mprescripts/>
        for combo in itertools.product([x, none, pre], repeat=n):
            if n <= 6 or combo.count(pre) >= 2 or rng.random() < 0.1:
                trees.append(("math", False, [("mmultiscripts", False, list(combo))]))
    for tag in sets["fixed_children"] + [g for g in sets["all_mathml_elements"] if g not in sets["leaf_nodes"]] + ["semantics", "foo"]:
        for n in range(0, 5):
            trees.append(("math", False, [(tag, False, [x] * n)]))
    for tag in sets["leaf_nodes"] + sets["empty_elements"]:
        for kids in ([], ["T"]):
            if kids == [] or tag in sets["leaf_nodes"]:
                trees.append(("math", False, [("mrow", False, [(tag, False, kids), x])]))
    ann = lambda enc, kids: ("annotation-xml", enc, kids)
    for kids in ([], [x], [x, x], [("mrow", False, [x, x])], [("mfrac", False, [x])]):
        for enc in (True, False, "MathML-Content"):
            trees += [("math", False, [("semantics", False, [ann(enc, kids)])]), ("math", False, [("semantics", False, [x, ann(enc, kids)])]),
                      ("math", False, [("semantics", False, [ann(enc, kids), x])]), ("math", False, [("semantics", False, [x, ("annotation", False, ["T"]), ann(enc, kids)])]),
                      ("math", False, [("semantics", False, [ann(False, [x]), ann(enc, kids)])])]
    trees += [("math", False, [a_tree(rng, sets, 3)]) for _ in range(600 if tier == "quick" else 6000)]
    sessions = [{"id": i, "ops": [["set_rules_dir", C.RULES]] + [["v_canon_stage", a_xml(t), "assure"] for t in trees[i::16]]} for i in range(16)]
    out = C.run_harness(sessions)
    obs, skipped = [], 0
    for i, r in enumerate(out):
        rr = r.get("res", [])[1:]
        for t, o in zip(trees[i::16], rr):
            if "ok" in o:
                obs.append((t, True))
            elif "err" in o and "Invalid MathML input" not in str(o["err"]):
                obs.append((t, False))
            else:
                skipped += 1
                if "panic" in o:
                    res.violation("the validation panics on %s: %s" % (a_xml(t)[:300], o["panic"][:200]), {"kind": "structure", "mathml": a_xml(t), "problems": ["panic"], "got": ""})
    body = HEADER + "From MC Require Import Model.Assure.\nDefinition assure_obs : list (node * bool) := " + \
        clist(("(%s, %s)" % (a_coq(t), "true" if a else "false") for t, a in obs), per_line=1) + ".\n"
    C.write_if_changed(os.path.join(C.GEN, "AssureObs.v"), body)
    if res is not None:
        res.extra["assure_tie_cases"] = len(obs)
        res.extra["assure_tie_accepted"] = sum(1 for _, a in obs if a)
        res.extra["assure_tie_skipped"] = skipped
    return obs


def py_assure_disagreements(log, obs):
    """the observations the kernel names as disagreeing (bad_idx of Tie/AssureTie.v)"""
    m = re.findall(r"=\s*\(20020002,\s*\[([^\]]*)\]\)", log)
    out = []
    for grp in m:
        for xx in grp.replace("\n", " ").split(";"):
            xx = xx.strip().replace("%N", "")
            if xx.isdigit() and int(xx) < len(obs):
                out.append(obs[int(xx)])
    return out


def structure_problems(xml):
    """list of violated clauses for a returned MathML string"""
    try:
        root = ET.fromstring(xml)
    except ET.ParseError as ex:
        return ["the returned string is not well-formed XML: %s" % ex]
    out = []
    if root.tag.split("}")[-1] != "math":
        out.append("the root is %s" % root.tag)
    if len(root) != 1:
        out.append("math has %d children" % len(root))
    for e in root.iter():
        tag = e.tag.split("}")[-1]
        n = len(e)
        if tag in WRAPPERS:
            out.append("a %s is left" % tag)
        if tag in FIXED_ARITY and n != FIXED_ARITY[tag]:
            out.append("%s has %d children" % (tag, n))
        if tag in ONE_CHILD and n != 1:
            out.append("%s has %d children" % (tag, n))
        if tag == "mmultiscripts":
            kids = [k.tag.split("}")[-1] for k in e]
            if "mprescripts" in kids:
                i = kids.index("mprescripts")
                if i < 1 or (i - 1) % 2 or (n - i - 1) % 2 or kids.count("mprescripts") > 1:
                    out.append("mmultiscripts children are not paired: %s" % " ".join(kids))
            elif n < 1 or (n - 1) % 2:
                out.append("mmultiscripts children are not paired: %s" % " ".join(kids))
        if tag in TOKENS and n == 0 and not (e.text or ""):
            out.append("an empty %s" % tag)
        if tag == "mrow" and n < 2 and e.get("intent") is None:
            out.append("an mrow with %d child(ren) and no intent" % n)
    return out


def oracle(res):
    class R:            # reuse the C01 corpus
        seed, tier = res.seed, res.tier
    bodies = c01.corpus(R)
    rng = random.Random(res.seed * 389 + 22)
    vals = ["f'", "Newton's constant", "a<b", "x&y", 'say "hi"', "1>0", "''", "it's"] + \
           ["".join(rng.choice(SPECIAL) for _ in range(rng.randint(1, 6))) for _ in range(30)]
    bodies += ['<math><mi data-x="%s">x</mi></math>' % xml_attr(v) for v in vals]
    bodies += ['<math alttext="%s"><mrow arg="a"><mi arg="b">x</mi></mrow></math>' % xml_attr(v) for v in vals[:8]]
    bodies += ['<math><semantics><mi>x</mi><annotation encoding="application/x-tex">%s</annotation></semantics></math>' % xml_attr(v) for v in vals[:12]]
    found = 0
    sessions = []
    for i in range(16):
        ops = [["set_rules_dir", C.RULES]]
        for b in bodies[i::16]:
            ops += [["set_mathml", b], ["get_navigation_mathml"]]
        sessions.append({"id": i, "ops": ops})
    out = C.run_harness(sessions)
    for i, r in enumerate(out):
        rr = r.get("res", [])[1:]
        for j, b in enumerate(bodies[i::16]):
            if 2 * j + 1 >= len(rr):
                break
            o, nav = rr[2 * j], rr[2 * j + 1]
            if "ok" not in o:
                continue
            res.add_case(b, len(b) > 200, b[:60])
            probs = structure_problems(o["ok"])
            where = "set_mathml"
            if not probs:
                m = re.search(r'data-x="([^"]*)"', b)
                if m:
                    want = ET.fromstring(b).find(".//*[@data-x]").get("data-x")
                    e = ET.fromstring(o["ok"]).find(".//*[@data-x]")
                    if e is None or e.get("data-x") != want:
                        probs = ["the attribute value %r reads back as %r" % (want, None if e is None else e.get("data-x"))]
            if not probs and "ok" in nav:
                try:
                    ET.fromstring(nav["ok"][0])
                except ET.ParseError as ex:
                    probs, where = ["get_navigation_mathml is not well-formed XML: %s" % ex], "get_navigation_mathml"
            if probs:
                def fails(xml):
                    q = C.one_session([["set_mathml", xml], ["get_navigation_mathml"]])["res"]
                    if "ok" not in q[0]:
                        return False
                    p = structure_problems(q[0]["ok"])
                    return bool(p) and p[0].split(" has ")[0] == probs[0].split(" has ")[0]
                small = c01.shrink(b, fails, budget=120) if where == "set_mathml" else b
                q = C.one_session([["set_mathml", small]])["res"][0]
                p2 = structure_problems(q["ok"]) if "ok" in q else probs
                kf = match_known(small, p2 or probs)
                if kf:
                    res.known("%s: %s" % (kf, small[:100]))
                    continue
                found += 1
                res.violation("%s for %s: %s" % (where, small[:300], "; ".join((p2 or probs)[:3])),
                              {"kind": "structure", "mathml": small, "original": b, "problems": p2 or probs, "got": q.get("ok", "")})
                if found >= 3:
                    return found
    return found


def match_known(xml, probs):
    for k in C.known_findings("C02"):
        if k.get("match") and re.search(k["match"], xml) and any(k.get("problem", "") in p for p in probs):
            return k["id"]
    return None


def run(res):
    res.rule = ("validation tie: every arrangement of up to 6 (8) scripts, <none/> and <mprescripts/> in mmultiscripts, every element name with 0-4 children, tokens and "
                "empty elements with every kind of content, semantics with every placement and content of a presentation annotation, 600 (6000) seeded trees, through "
                "the validation alone (hook) against Model/Assure.v; "
                "escape tie: 120 (quick) / 1200 attribute values over the special characters + hand-picked ones, through set_mathml; oracle: the C01 corpus "
                "(textbook, all-operator rows, degenerate structures, merge-pass rows) through set_mathml and get_navigation_mathml; "
                "non-trivial = inputs longer than 200 characters")
    generate(res)
    aobs = assure_observations(res)

    def on_broken(log):
        n = 0
        for t, lib in py_assure_disagreements(log, aobs)[:40]:
            # the validation and its model disagree on this tree: does what set_mathml returns for it break the property?
            q = C.one_session([["set_mathml", a_xml(t)]])["res"][0]
            if "panic" in q:
                probs = ["set_mathml panics: " + q["panic"][:200]]
            else:
                probs = structure_problems(q["ok"]) if "ok" in q else []
            if probs:
                n += 1
                res.violation("set_mathml for %s (validation %s, its model %s): %s" % (a_xml(t)[:300], "accepts" if lib else "refuses", "refuses" if lib else "accepts", "; ".join(probs[:3])),
                              {"kind": "structure", "mathml": a_xml(t), "problems": probs, "got": q.get("ok", "")})
                if n >= 3:
                    break
        return n + oracle(res) > 0
    proved = C.check_proofs(res, "C02", ["Props/C02.vo", "Tie/C02Tie.vo", "Tie/AssureTie.vo"], "Props/C02.v", search=on_broken)
    if proved:
        oracle(res)
    res.trusted += ["gen/c02.py (arms of handle_special_chars, attribute delimiter of format_attrs)", "python's xml.etree as the XML well-formedness reference of the oracle"]
    res.assumptions += ["the shape of format_element (tags, indentation, order) is not modelled; that the string parses back is checked by the oracle's XML parser",
                        "arity / wrapper / empty-token clauses depend on clean_mathml, which is not modelled: oracle only"]


def replay(path):
    rep = json.load(open(path, encoding="utf-8"))
    ok, log = C.build_harness()
    if not ok:
        print("harness build failed", log)
        return 2
    if rep.get("kind") == "structure":
        o = C.one_session([["set_mathml", rep["mathml"]]])["res"][0]
        print(rep["mathml"], "\n ->", json.dumps(o, ensure_ascii=False)[:800])
        if "ok" not in o:
            return 1
        p = structure_problems(o["ok"])
        print(p)
        return 1 if p else 0
    print("replay names a broken obligation, not an input:", rep.get("what"))
    return 1
