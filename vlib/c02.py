"""C02 -- returned MathML is well-formed canonical MathML.
Coq (Props/C02.v): the escape table of mml_to_string, regenerated from the source, decodes back and leaves no delimiter
(any text, any attribute value); the parser keeps tag / attributes / number of children of every non-mrow element and
builds rows of at least two children.  Tie: attribute values and token texts with special characters through
set_mathml, the serialized form compared with the model's escape in the kernel.
Oracle (search + support): the C01 corpus through set_mathml and get_navigation_mathml: parses as XML, one child of
math, arities, no empty token, no row with fewer than two children unless it has an intent, no wrapper left."""
import json
import os
import random
import re
import sys
import xml.etree.ElementTree as ET

from . import common as C
from . import exprs as X
from . import c01

sys.path.insert(0, C.VERIF)
from gen import c02 as G
from gen import elemsets as GE
from gen.coqfmt import HEADER, clist, cstr

SPECIAL = list("\"&'<>") + ["⁡", "⁢", "⁣", "⁤", "a", "b", "1", "é", "∑", "=", ";", "#", "x", "/"]
FIXED_ARITY = {"mfrac": 2, "mroot": 2, "msub": 2, "msup": 2, "munder": 2, "mover": 2, "msubsup": 3, "munderover": 3}
ONE_CHILD = {"math", "msqrt", "merror", "menclose", "mtd", "mscarry"}
WRAPPERS = {"mfenced", "mstyle", "mpadded", "mphantom", "mspace", "semantics", "annotation", "annotation-xml", "maction"}
TOKENS = {"mi", "mn", "mo", "mtext", "ms"}


def xml_attr(s):
    return s.replace("&", "&amp;").replace("<", "&lt;").replace('"', "&quot;")


def generate(res):
    src = C.read(os.path.join(C.REPO, "src", "pretty_print.rs"))
    can = C.read(os.path.join(C.REPO, "src", "canonicalize.rs"))
    table, quote, one, fixed = C.translate(res, "c02", "escape table of pretty_print.rs, child-count sets of canonicalize.rs",
                                           lambda: (G.escape_table(src), G.quote_char(src), GE.phf_str_set(can, "ELEMENTS_WITH_ONE_CHILD"),
                                                    GE.phf_str_set(can, "ELEMENTS_WITH_FIXED_NUMBER_OF_CHILDREN")))
    C.write_if_changed(os.path.join(C.GEN, "EscapeTab.v"), G.render(table, quote, one, fixed))
    ok, log = C.build_harness()
    if not ok:
        raise RuntimeError("harness build failed: " + log)
    seed = res.seed if res else 1
    tier = res.tier if res else "quick"
    rng = random.Random(seed * 389 + 2)
    vals = ["".join(rng.choice(SPECIAL) for _ in range(rng.randint(1, 8))) for _ in range(120 if tier == "quick" else 1200)]
    vals += ["f'", "Newton's constant", "a<b", "x&y", 'say "hi"', "1>0", "⁢", "&amp;", "&#x27;", "''", "<<>>"]
    ops = [["set_mathml", '<math><mi data-x="%s">x</mi></math>' % xml_attr(v)] for v in vals]
    r = C.one_session(ops)["res"]
    items, bad = [], []
    for v, o in zip(vals, r):
        if "ok" not in o:
            bad.append((v, o))
            continue
        m = re.search(r" data-x='([^']*)'", o["ok"])
        items.append((v, m.group(1) if m else None, o["ok"]))
    body = HEADER + "Definition escape_obs : list (list N * list N) := " + clist("(%s, %s)" % (cstr(v), cstr(e)) for v, e, _ in items if e is not None) + ".\n"
    C.write_if_changed(os.path.join(C.GEN, "C02Obs.v"), body)
    if res is not None:
        res.extra["tie_cases"] = len(items)
        res.extra["tie_unextractable"] = sum(1 for _, e, _ in items if e is None)
        res.extra["gen_sources"] = [{"file": "src/pretty_print.rs", "escape_table": [[c, e] for c, e in table]}]
    return items, bad


def structure_problems(xml):
    """list of violated clauses for a returned MathML string"""
    try:
        root = ET.fromstring(xml)
    except ET.ParseError as ex:
        return ["the returned string is not well-formed XML: %s" % ex]
    out = []
    if root.tag.split("}")[-1] != "math":
        out.append("the root is %s" % root.tag)
    if len(root) != 1:
        out.append("math has %d children" % len(root))
    for e in root.iter():
        tag = e.tag.split("}")[-1]
        n = len(e)
        if tag in WRAPPERS:
            out.append("a %s is left" % tag)
        if tag in FIXED_ARITY and n != FIXED_ARITY[tag]:
            out.append("%s has %d children" % (tag, n))
        if tag in ONE_CHILD and n != 1:
            out.append("%s has %d children" % (tag, n))
        if tag == "mmultiscripts":
            kids = [k.tag.split("}")[-1] for k in e]
            if "mprescripts" in kids:
                i = kids.index("mprescripts")
                if i < 1 or (i - 1) % 2 or (n - i - 1) % 2 or kids.count("mprescripts") > 1:
                    out.append("mmultiscripts children are not paired: %s" % " ".join(kids))
            elif n < 1 or (n - 1) % 2:
                out.append("mmultiscripts children are not paired: %s" % " ".join(kids))
        if tag in TOKENS and n == 0 and not (e.text or ""):
            out.append("an empty %s" % tag)
        if tag == "mrow" and n < 2 and e.get("intent") is None:
            out.append("an mrow with %d child(ren) and no intent" % n)
    return out


def oracle(res):
    class R:            # reuse the C01 corpus
        seed, tier = res.seed, res.tier
    bodies = c01.corpus(R)
    rng = random.Random(res.seed * 389 + 22)
    vals = ["f'", "Newton's constant", "a<b", "x&y", 'say "hi"', "1>0", "''", "it's"] + \
           ["".join(rng.choice(SPECIAL) for _ in range(rng.randint(1, 6))) for _ in range(30)]
    bodies += ['<math><mi data-x="%s">x</mi></math>' % xml_attr(v) for v in vals]
    bodies += ['<math alttext="%s"><mrow arg="a"><mi arg="b">x</mi></mrow></math>' % xml_attr(v) for v in vals[:8]]
    bodies += ['<math><semantics><mi>x</mi><annotation encoding="application/x-tex">%s</annotation></semantics></math>' % xml_attr(v) for v in vals[:12]]
    found = 0
    sessions = []
    for i in range(16):
        ops = [["set_rules_dir", C.RULES]]
        for b in bodies[i::16]:
            ops += [["set_mathml", b], ["get_navigation_mathml"]]
        sessions.append({"id": i, "ops": ops})
    out = C.run_harness(sessions)
    for i, r in enumerate(out):
        rr = r.get("res", [])[1:]
        for j, b in enumerate(bodies[i::16]):
            if 2 * j + 1 >= len(rr):
                break
            o, nav = rr[2 * j], rr[2 * j + 1]
            if "ok" not in o:
                continue
            res.add_case(b, len(b) > 200, b[:60])
            probs = structure_problems(o["ok"])
            where = "set_mathml"
            if not probs:
                m = re.search(r'data-x="([^"]*)"', b)
                if m:
                    want = ET.fromstring(b).find(".//*[@data-x]").get("data-x")
                    e = ET.fromstring(o["ok"]).find(".//*[@data-x]")
                    if e is None or e.get("data-x") != want:
                        probs = ["the attribute value %r reads back as %r" % (want, None if e is None else e.get("data-x"))]
            if not probs and "ok" in nav:
                try:
                    ET.fromstring(nav["ok"][0])
                except ET.ParseError as ex:
                    probs, where = ["get_navigation_mathml is not well-formed XML: %s" % ex], "get_navigation_mathml"
            if probs:
                def fails(xml):
                    q = C.one_session([["set_mathml", xml], ["get_navigation_mathml"]])["res"]
                    if "ok" not in q[0]:
                        return False
                    p = structure_problems(q[0]["ok"])
                    return bool(p) and p[0].split(" has ")[0] == probs[0].split(" has ")[0]
                small = c01.shrink(b, fails, budget=120) if where == "set_mathml" else b
                q = C.one_session([["set_mathml", small]])["res"][0]
                p2 = structure_problems(q["ok"]) if "ok" in q else probs
                kf = match_known(small, p2 or probs)
                if kf:
                    res.known("%s: %s" % (kf, small[:100]))
                    continue
                found += 1
                res.violation("%s for %s: %s" % (where, small[:300], "; ".join((p2 or probs)[:3])),
                              {"kind": "structure", "mathml": small, "original": b, "problems": p2 or probs, "got": q.get("ok", "")})
                if found >= 3:
                    return found
    return found


def match_known(xml, probs):
    for k in C.known_findings("C02"):
        if k.get("match") and re.search(k["match"], xml) and any(k.get("problem", "") in p for p in probs):
            return k["id"]
    return None


def run(res):
    res.rule = ("tie: 120 (quick) / 1200 attribute values over the special characters + hand-picked ones, through set_mathml; oracle: the C01 corpus "
                "(textbook, all-operator rows, degenerate structures, merge-pass rows) through set_mathml and get_navigation_mathml; "
                "non-trivial = inputs longer than 200 characters")
    generate(res)

    def on_broken(log):
        return oracle(res) > 0
    proved = C.check_proofs(res, "C02", ["Props/C02.vo", "Tie/C02Tie.vo"], "Props/C02.v", search=on_broken)
    if proved:
        oracle(res)
    res.trusted += ["gen/c02.py (arms of handle_special_chars, attribute delimiter of format_attrs)", "python's xml.etree as the XML well-formedness reference of the oracle"]
    res.assumptions += ["the shape of format_element (tags, indentation, order) is not modelled; that the string parses back is checked by the oracle's XML parser",
                        "arity / wrapper / empty-token clauses depend on clean_mathml, which is not modelled: oracle only"]


def replay(path):
    rep = json.load(open(path, encoding="utf-8"))
    ok, log = C.build_harness()
    if not ok:
        print("harness build failed", log)
        return 2
    if rep.get("kind") == "structure":
        o = C.one_session([["set_mathml", rep["mathml"]]])["res"][0]
        print(rep["mathml"], "\n ->", json.dumps(o, ensure_ascii=False)[:800])
        if "ok" not in o:
            return 1
        p = structure_problems(o["ok"])
        print(p)
        return 1 if p else 0
    print("replay names a broken obligation, not an input:", rep.get("what"))
    return 1
