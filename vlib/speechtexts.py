"""Literal texts of the speech rule files (t / ct / ot values), per language, through yaml-rust (harness op h_yaml_texts).
Shared by C04 (optional words carry no digit) and C05 (no text can introduce a marker, markup or invisible operator)."""
import glob
import os

from . import common as C

SKIP_DIRS = {"zz"}      # the test language of the repository


def languages():
    base = os.path.join(C.RULES, "Languages")
    return sorted(d for d in os.listdir(base) if os.path.isdir(os.path.join(base, d)) and d not in SKIP_DIRS)


def files_of(lang):
    base = os.path.join(C.RULES, "Languages", lang)
    out = []
    for root, dirs, files in os.walk(base):
        for f in sorted(files):
            if f.endswith(".yaml") and f not in ("definitions.yaml",):
                out.append(os.path.join(root, f))
    return sorted(out)


def texts():
    """{lang: {"t": set, "ct": set, "ot": set}} and the list of files read"""
    langs = languages()
    files = [(l, f) for l in langs for f in files_of(l)]
    r = C.one_session([["h_yaml_texts", f] for _, f in files])["res"]
    out = {l: {"t": set(), "ct": set(), "ot": set()} for l in langs}
    bad = []
    for (l, f), o in zip(files, r):
        if "ok" not in o:
            bad.append((f, o))
            continue
        for key, text in o["ok"]:
            if key in out[l]:
                out[l][key].add(text)
    return out, [f for _, f in files], bad
