"""C16 -- split numbers fold into the same number as the unsplit form.
Coq: model of merge_number_blocks with the locale patterns decided by a verified regex matcher; theorems in
Props/C16.v; tie: every logged call of the real merge_number_blocks on the corpus vs the model, and the seven number
patterns vs the matcher (Tie/C16Tie.v, kernel-checked).
Library oracle: for numbers of each locale grammar x splits x contexts: split and unsplit spellings give the same
canonical MathML (modulo the space characters inside an mn), speech and braille."""
import itertools
import json
import os
import random
import re
import sys

from . import common as C

sys.path.insert(0, C.VERIF)
from gen.coqfmt import HEADER, clist, cstr

NBSP, NNBSP = " ", " "
LOCALES = {
    "us": (", " + NBSP + NNBSP, "."),
    "usdot": (", " + NBSP + NNBSP, "·"),
    "eu": (". " + NBSP + NNBSP, ","),
    "ch": (". " + NBSP + NNBSP + "'", ","),
    "space": (" " + NBSP + NNBSP, "."),
    # separators that come from the Language preference (DecimalSeparator left at Auto): see LANG_TAGS
    "mx": (", " + NBSP + NNBSP, "."),
    "li": (", " + NBSP + NNBSP + "'", "."),
    "de": (". " + NBSP + NNBSP, ","),
}
LANG_TAGS = {"mx": "es-MX", "li": "de-LI", "de": "de-DE"}       # the tag as it is usually written: upper-case region


def sep_prefs(loc):
    if loc in LANG_TAGS:
        return [["set_preference", "Language", LANG_TAGS[loc]]]
    block, dec = LOCALES[loc]
    return [["set_preference", "DecimalSeparators", dec], ["set_preference", "BlockSeparators", block]]


def gen_number(rng, loc):
    block, dec = LOCALES[loc]
    sep = rng.choice([c for c in block if c != " "])      # a plain blank is trimmed away by MathML itself
    lead = "".join(rng.choice("123456789") for _ in range(rng.randint(1, 3)))
    groups = ["".join(rng.choice("0123456789") for _ in range(3)) for _ in range(rng.randint(0, 3))]
    frac = "".join(rng.choice("0123456789") for _ in range(rng.randint(1, 4))) if rng.random() < 0.5 else None
    parts = [("d", lead)]
    for g in groups:
        parts += [("s", sep), ("d", g)]
    if frac is not None:
        parts += [("p", dec), ("d", frac)]
    return parts


def split_tokens(rng, parts, mode):
    """mode 'all': every separator its own token; 'some': random subset of the cut points"""
    toks, cur = [], ""
    for kind, s in parts:
        if kind == "d":
            cur += s
        else:
            if mode == "all" or rng.random() < 0.6:
                if cur:
                    toks.append(("mn", cur))
                    cur = ""
                toks.append((rng.choice(["mo", "mo", "mtext"]) if kind == "s" else "mo", s))
            else:
                cur += s
    if cur:
        toks.append(("mn", cur))
    # the leading digit group written as text (what some converters emit): it starts a number like an mn does
    # (only in front of a decimal mark: a comma list needs an mn on both sides of every comma)
    if len(toks) > 2 and toks[0][0] == "mn" and not any(k == "s" or s_ == "," for k, s_ in parts) and rng.random() < 0.3:
        toks[0] = ("mtext", toks[0][1])
    return toks


def xml(toks):
    esc = lambda s: "".join("&#x%X;" % ord(c) if ord(c) > 0x7E or c in "<&'\"" else c for c in s)
    return "".join("<%s>%s</%s>" % (t, esc(s), t) for t, s in toks)


CONTEXTS = [
    ("alone", "{N}"),
    ("sum", "<mi>x</mi><mo>+</mo>{N}<mo>=</mo><mi>y</mi>"),
    ("arglist", "<mi>f</mi><mo>(</mo>{N}<mo>,</mo><mi>b</mi><mo>)</mo>"),
    ("exponent", "<msup><mi>x</mi><mrow>{N}</mrow></msup>"),
    ("fraction", "<mfrac><mrow>{N}</mrow><mn>7</mn></mfrac>"),
    ("sentence", "<mi>x</mi><mo>=</mo>{N}<mo>.</mo>"),
    ("parens", "<mo>(</mo>{N}<mo>)</mo><mo>+</mo><mn>1</mn>"),
    # white space tokens around the number (white space is a block separator: the candidate collects them and must cut them off again)
    ("ws-after-2", "{N}<mspace width='0.3em'/><mtext>&#x2009;</mtext><mi>m</mi>"),
    ("ws-after-3", "<mi>x</mi><mo>=</mo>{N}<mo>&#xA0;</mo><mspace width='1em'/><mtext>&#x2009;</mtext>"),
    ("ws-before-2", "<mi>x</mi><mo>=</mo><mspace width='0.3em'/><mtext>&#x2009;</mtext>{N}<mo>+</mo><mn>1</mn>"),
    ("ws-both", "<mtext>&#x2009;</mtext><mspace width='0.2em'/>{N}<mtext>&#x2009;</mtext><mo>&#xA0;</mo>"),
    # text that ends in a full stop in front of the number (approx. 1,234): it is not part of the number and does not stop it from folding
    ("abbrev-before", "<mtext>approx.</mtext>{N}"),
    ("abbrev-before-2", "<mtext>No.</mtext>{N}<mo>+</mo><mn>1</mn>"),
    ("text-before", "<mtext>if</mtext>{N}"),
    ("text-before-2", "<mi>x</mi><mo>=</mo><mtext>about</mtext>{N}<mtext>units</mtext>"),
]

ADVERSARIAL = [
    "<mn>1</mn><mo>.</mo><mn>2</mn><mo>.</mo><mn>3</mn>",
    "<mo>(</mo><mn>1</mn><mo>,</mo><mn>234</mn><mo>)</mo>",
    "<mo>{</mo><mn>1</mn><mo>,</mo><mn>234</mn><mo>,</mo><mn>567</mn><mo>}</mo>",
    "<mn>1</mn><mo>,</mo><mn>2</mn><mo>,</mo><mn>3</mn>",
    "<mn>1</mn><mo>,</mo><mi>x</mi><mo>,</mo><mn>345</mn>",
    "<mn>100</mn><mo>,</mo><mn>200</mn><mo>,</mo><mn>300</mn>",
    "<mtext>III</mtext><mo>.</mo><mn>5</mn>",
    "<mn>3</mn><mn>1</mn><mn>4</mn><mn>1</mn><mn>5</mn><mn>9</mn><mn>2</mn>",
    "<mn>3</mn><mo>.</mo><mn>1</mn><mn>4</mn><mn>1</mn><mn>5</mn>",
    "<mn>12ab</mn><mtext>&#xA0;</mtext><mn>34cd</mn>",
    "<mo>.</mo><mn>5</mn><mo>+</mo><mn>2</mn><mo>.</mo>",
    "<mn>2</mn><mo>.</mo>",
    "<mn>1</mn><mtext>&#xA0;</mtext><mn>234</mn><mtext>&#xA0;</mtext><mn>567</mn>",
    "<mtext>&#xA0;</mtext><mn>1</mn><mo>,</mo><mn>234</mn><mtext>&#xA0;</mtext>",
    "<mn>1,2</mn><mo>,</mo><mn>345</mn>",
    "<mn>12</mn><mo>,</mo><mn>34</mn>",
    "<mn>1234</mn><mo>,</mo><mn>567</mn>",
    "<mn>1</mn><mo>,</mo><mn>234</mn><mo>,</mo><mn>56</mn>",
    "<mi>a</mi><mo>,</mo><mn>1</mn><mo>.</mo><mn>5</mn>",
    "<mn>5</mn><mo>.</mo><mn>5</mn><mo>,</mo><mn>6</mn><mo>.</mo><mn>5</mn>",
]


def corpus(rng, tier):
    """list of (locale, unsplit_body, split_body, label)"""
    out = []
    n = 14 if tier == "quick" else 160
    for loc in LOCALES:
        for _ in range(n):
            parts = gen_number(rng, loc)
            whole = [("mn", "".join(s for _, s in parts))]
            for mode in ("all", "some"):
                toks = split_tokens(rng, parts, mode)
                if len(toks) < 2:
                    continue
                cname, ctx = rng.choice(CONTEXTS)
                if loc != "us" and cname == "sentence":
                    cname, ctx = CONTEXTS[1]
                if cname == "arglist" and any(s_ == "," for _, s_ in toks):
                    # comma-grouped digits inside a comma-separated argument list are a list by the property's own
                    # exception ("a comma-separated list inside fences is left as a list")
                    cname, ctx = CONTEXTS[1]
                out.append((loc, ctx.replace("{N}", xml(whole)), ctx.replace("{N}", xml(toks)), cname))
        # a number with a fraction right in front of the punctuation that ends the row, written with the locale's own
        # decimal mark (x = 1.5.  /  x = 2,5,): the second mark is not part of the number and does not keep it from folding
        dec = LOCALES[loc][1]
        for _ in range(3 if tier == "quick" else 20):
            parts = gen_number(rng, loc)
            if not any(k == "p" for k, _ in parts):
                parts += [("p", dec), ("d", "".join(rng.choice("0123456789") for _ in range(rng.randint(1, 3))))]
            whole = [("mn", "".join(s_ for _, s_ in parts))]
            toks = split_tokens(rng, parts, "all")
            ctx = "<mi>x</mi><mo>=</mo>{N}<mo>%s</mo>" % xml([("x", dec)])[3:-4]
            out.append((loc, ctx.replace("{N}", xml(whole)), ctx.replace("{N}", xml(toks)), "sentence-own-mark"))
        # a number that starts with the decimal mark (.5  /  ,5) as the first thing of its row, alone and followed by another
        # split number of the same row
        for _ in range(2 if tier == "quick" else 12):
            frac = "".join(rng.choice("0123456789") for _ in range(rng.randint(1, 3)))
            other = gen_number(rng, loc)
            if not any(k == "p" for k, _ in other):
                other += [("p", dec), ("d", "5")]
            n_whole, n_split = xml([("mn", dec + frac)]), xml([("mo", dec), ("mn", frac)])
            m_whole, m_split = xml([("mn", "".join(s_ for _, s_ in other))]), xml(split_tokens(rng, other, "all"))
            for cname, ctx in (("leading-mark-row", "{N}<mo>+</mo>{M}"), ("leading-mark-exponent", "<msup><mi>x</mi><mrow>{N}</mrow></msup>"),
                               ("leading-mark-numerator", "<mfrac><mrow>{N}<mo>+</mo>{M}</mrow><mn>2</mn></mfrac>")):
                out.append((loc, ctx.replace("{N}", n_whole).replace("{M}", m_whole), ctx.replace("{N}", n_split).replace("{M}", m_split), cname))
        for adv in ADVERSARIAL:
            out.append((loc, None, adv, "adversarial"))
    return out


def parse_tok(s):
    if s == "-":
        return None
    parts = s.split("\x01")
    return (parts[0], parts[1], parts[2] == "true")


def parse_log(entry):
    f = entry.split("\x03")
    row, parent, prev, nxt, before, after = f
    tl = lambda x: [parse_tok(t) for t in x.split("\x02")] if x else []
    return {"row": row, "parent": parent, "prev": parse_tok(prev), "next": parse_tok(nxt), "before": tl(before), "after": tl(after)}


TAG = {"mn": 0, "mo": 1, "mtext": 2}


def tok_term(t, i):
    return "mktok %d %s %s %d" % (TAG.get(t[0], 3), cstr(t[1]), "true" if t[2] else "false", i)


def opt_tok(t):
    return "None" if t is None else "(Some (%s))" % tok_term(t, 0)


def pattern_strings(rng, tier):
    alpha = ["1", "2", "0", ",", ".", " ", NBSP, "￿", "a", "'", "F"]
    out = set()
    for n in range(0, 4 if tier == "quick" else 5):
        for tup in itertools.product(alpha[:7], repeat=n):
            out.add("".join(tup))
    for _ in range(300 if tier == "quick" else 3000):
        out.add("".join(rng.choice(alpha) for _ in range(rng.randint(4, 12))))
    out |= {"1,234.5", "12,345,678", "1 234 567", "1.234,5", "1'234'567.89", "DEAD BEEF", "3.14159 26535", "1￿2", "1￿2.3￿4", "1,2,3"}
    return sorted(out)


def generate(res):
    ok, log = C.build_harness()
    if not ok:
        raise RuntimeError("harness build failed: " + log)
    seed = res.seed if res else 1
    tier = res.tier if res else "quick"
    rng = random.Random(seed * 6007 + 16)
    corp = corpus(rng, tier)
    sessions = []
    for loc in LOCALES:
        block, dec = LOCALES[loc]
        ops = [["set_rules_dir", C.RULES], ["set_preference", "DecimalSeparators", dec], ["set_preference", "BlockSeparators", block]]
        for (l, whole, split, label) in corp:
            if l != loc:
                continue
            ops += [["v_take_merge_log"], ["set_mathml", "<math><mrow>%s</mrow></math>" % split], ["v_take_merge_log"]]
        sessions.append({"id": loc, "ops": ops})
    # sessions that change ONE separator preference after expressions have already been canonicalized
    # (the locale patterns are cached per thread: a stale cache shows up as a disagreement with the model)
    switches = [["us", "space", "us"], ["eu", "ch", "eu"], ["us", "usdot", "us"], ["space", "us", "eu"]]
    sw_plans = []
    for sw in switches:
        ops = [["set_rules_dir", C.RULES]]
        plan = []
        for loc in sw:
            block, dec = LOCALES[loc]
            ops += [["set_preference", "DecimalSeparators", dec], ["set_preference", "BlockSeparators", block]]
            plan += [None, None]
            cases = [c_ for c_ in corp if c_[0] == loc][:12]
            for (l, whole, split, label) in cases:
                ops += [["v_take_merge_log"], ["set_mathml", "<math><mrow>%s</mrow></math>" % split], ["v_take_merge_log"]]
                plan += [None, None, loc]
        sessions.append({"id": "switch", "ops": ops})
        sw_plans.append(plan)
    out = C.run_harness(sessions)
    calls = []
    for loc, r in zip(LOCALES, out):
        block, dec = LOCALES[loc]
        for x in r.get("res", [])[3:]:
            if isinstance(x.get("ok"), list):
                for e in x["ok"]:
                    d = parse_log(e)
                    if len(d["before"]) < 2:
                        continue
                    calls.append((block, dec, d))
    for plan, r in zip(sw_plans, out[len(LOCALES):]):
        for loc, x in zip(plan, r.get("res", [])[1:]):
            if loc is not None and isinstance(x.get("ok"), list):
                block, dec = LOCALES[loc]
                for e in x["ok"]:
                    d = parse_log(e)
                    if len(d["before"]) >= 2:
                        calls.append((block, dec, d))
    seen, items = set(), []
    for block, dec, d in calls:
        key = json.dumps([block, dec, d], ensure_ascii=False, sort_keys=True)
        if key in seen:
            continue
        seen.add(key)
        ctx = "mkctx %s %s %s %s %s" % (cstr(block), cstr(dec), "true" if d["parent"] in ("math", "-") else "false", opt_tok(d["prev"]), opt_tok(d["next"]))
        before = "[" + "; ".join(tok_term(t, i) for i, t in enumerate(d["before"])) + "]"
        after = "[" + "; ".join(tok_term(t, i) for i, t in enumerate(d["after"])) + "]"
        items.append("(%s, %s, %s)" % (ctx, before, after))
    ps = pattern_strings(rng, tier)
    pops = []
    plist = []
    for loc in ("us", "eu", "ch"):
        block, dec = LOCALES[loc]
        for t in ps:
            pops.append(["v_number_patterns", t, block, dec])
            plist.append((t, block, dec))
    pr = C.one_session(pops)["res"]
    pitems = []
    for (t, b, d), x in zip(plist, pr):
        if "ok" in x:
            pitems.append("(%s, %s, %s, [%s])" % (cstr(t), cstr(b), cstr(d), "; ".join("true" if v else "false" for v in x["ok"])))
    body = HEADER + "From MC Require Import Model.NumberFold.\n"
    body += "Definition calls : list (ctx * list tok * list tok) := " + clist(items) + ".\n"
    body += "Definition pattern_obs : list (list N * list N * list N * list bool) := " + clist(pitems, per_line=2) + ".\n"
    C.write_if_changed(os.path.join(C.GEN, "C16Obs.v"), body)
    if res is not None:
        res.extra["tie_cases"] = {"merge_calls": len(items), "merge_calls_that_merged": sum(1 for b, d_, dd in calls if len(dd["after"]) < len(dd["before"])), "pattern_strings": len(pitems)}
    return corp, calls


def norm_space_in_mn(m):
    return re.sub(r"(<mn[^>]*>)([^<]*)(</mn>)", lambda k: k.group(1) + re.sub("[   ]", " ", k.group(2)) + k.group(3), m)


def api_oracle(res, corp):
    sessions, meta = [], []
    for loc in LOCALES:
        block, dec = LOCALES[loc]
        pre = [["set_rules_dir", C.RULES]] + sep_prefs(loc)
        for code in ("Nemeth", "UEB"):
            ops = pre + [["set_preference", "BrailleCode", code]]
            cases = [c for c in corp if c[0] == loc and c[1] is not None]
            for (_, whole, split, label) in cases:
                for body in (whole, split):
                    ops += [["set_mathml", "<math><mrow>%s</mrow></math>" % body], ["get_spoken_text"], ["get_braille", ""]]
            sessions.append({"id": len(sessions), "ops": ops})
            meta.append((loc, code, cases))
    out = C.run_harness(sessions)
    nv = 0
    kf = {k["id"]: k for k in C.known_findings("C16")}
    for (loc, code, cases), r in zip(meta, out):
        rs = r.get("res", [])[len(sep_prefs(loc)) + 2:]
        if len(rs) != 6 * len(cases):
            res.violation("session crashes while canonicalizing split numbers (locale %s)" % loc, {"kind": "session", "locale": loc, "result": r})
            nv += 1
            continue
        for i, (_, whole, split, label) in enumerate(cases):
            a, b_ = rs[6 * i:6 * i + 3], rs[6 * i + 3:6 * i + 6]
            na = [C.norm_ids(norm_space_in_mn(a[0].get("ok", ""))) if "ok" in a[0] else a[0]] + a[1:]
            nb = [C.norm_ids(norm_space_in_mn(b_[0].get("ok", ""))) if "ok" in b_[0] else b_[0]] + b_[1:]
            res.add_case((loc, label, split), nontrivial=True, sample={"locale": loc, "context": label, "split": split[:160]} if len(res.samples) < 6 else None)
            if na != nb:
                rep = {"kind": "pair", "locale": loc, "code": code, "unsplit": whole, "split": split, "context": label, "result_unsplit": na, "result_split": nb}
                if label in ("parens", "arglist") and "<mo>,</mo>" in split or "<mtext>,</mtext>" in split and label in ("parens", "arglist"):
                    if LOCALES[loc][1] != ",":
                        continue      # a comma list inside fences is left as a list (the property's own exception)
                    if "comma-decimal-inside-fences-not-folded" in kf:
                        res.known("comma-decimal-inside-fences-not-folded: %s" % split[:100])
                        continue
                if "'" in LOCALES[loc][0] and "&#x27;" in split and "swiss-apostrophe-becomes-prime" in kf:
                    res.known("swiss-apostrophe-becomes-prime: %s" % split[:100])
                    continue
                if "&#x202F;" in split and na[1] == nb[1] and "narrow-nbsp-normalised-only-when-split" in kf:
                    res.known("narrow-nbsp-normalised-only-when-split: %s" % split[:100])
                    continue
                if label == "sentence" and LOCALES[loc][1] == "." and re.search(r"<mo>\.</mo><mn>\d+</mn><mo>\.</mo>$", split) \
                        and "split-decimal-before-sentence-period-not-folded" in kf:
                    res.known("split-decimal-before-sentence-period-not-folded: %s" % split[:100])
                    continue
                block, dec = LOCALES[loc]
                mns = re.findall(r"<mn>([^<]*)</mn>", re.sub(r"&#x([0-9A-F]+);", lambda m_: chr(int(m_.group(1), 16)), split))
                if any(any(ch_ in block + dec for ch_ in t) for t in mns[:-1] + mns[:0]) or (len(mns) > 1 and any(any(ch_ in block for ch_ in t) for t in mns)) \
                        or (len(mns) > 1 and any(ch_ in dec for t in mns for ch_ in t)):
                    if "mn-with-separator-not-folded" in kf:
                        res.known("mn-with-separator-not-folded: a partially split number is not folded, e.g. %s" % split[:90])
                        continue
                res.violation("a split number does not fold into the same number as the unsplit form (locale %s, context %s)" % (loc, label), rep)
                nv += 1
                if nv >= 5:
                    return nv
    return nv


def switch_oracle(res, corp):
    """the same split number must canonicalize identically in a session that changed one separator preference after
    earlier expressions and in a fresh session with those preferences"""
    switches = [["us", "space", "us"], ["eu", "ch", "eu"], ["us", "usdot", "us"], ["space", "us", "eu"]]
    fresh = {}
    sess = []
    for loc in LOCALES:
        block, dec = LOCALES[loc]
        cases = [c_ for c_ in corp if c_[0] == loc][:12]
        ops = [["set_rules_dir", C.RULES], ["set_preference", "DecimalSeparators", dec], ["set_preference", "BlockSeparators", block]]
        for c_ in cases:
            ops.append(["set_mathml", "<math><mrow>%s</mrow></math>" % c_[2]])
        sess.append({"id": loc, "ops": ops})
    for sw in switches:
        ops = [["set_rules_dir", C.RULES]]
        for loc in sw:
            block, dec = LOCALES[loc]
            ops += [["set_preference", "DecimalSeparators", dec], ["set_preference", "BlockSeparators", block]]
            for c_ in [c_ for c_ in corp if c_[0] == loc][:12]:
                ops.append(["set_mathml", "<math><mrow>%s</mrow></math>" % c_[2]])
        sess.append({"id": "sw", "ops": ops})
    out = C.run_harness(sess)
    for loc, r in zip(LOCALES, out):
        cases = [c_ for c_ in corp if c_[0] == loc][:12]
        for c_, x in zip(cases, r.get("res", [])[3:]):
            fresh[(loc, c_[2])] = C.norm_ids(x.get("ok", "")) if "ok" in x else json.dumps(x)
    nv = 0
    for sw, r in zip(switches, out[len(LOCALES):]):
        rs = r.get("res", [])[1:]
        i = 0
        hist = []
        for loc in sw:
            i += 2
            hist.append(loc)
            for c_ in [c_ for c_ in corp if c_[0] == loc][:12]:
                x = rs[i] if i < len(rs) else {}
                i += 1
                got = C.norm_ids(x.get("ok", "")) if "ok" in x else json.dumps(x)
                if got != fresh.get((loc, c_[2])):
                    res.violation("after switching separator preferences %r a split number canonicalizes differently than in a fresh session with the same preferences" % (hist,),
                                  {"kind": "switch", "history": list(hist), "split": c_[2], "in_session": got, "fresh": fresh.get((loc, c_[2]))})
                    nv += 1
                    if nv >= 3:
                        return nv
    return nv


def run(res):
    res.rule = ("numbers of the locale grammar (lead group 1-3 digits, 0-3 groups of 3, optional fraction) for 4 separator settings, split at all or "
                "a random subset of separators into mn/mo/mtext, in 7 contexts, plus 20 adversarial rows; every merge_number_blocks call is logged "
                "and compared with the model; number patterns compared on all strings <= 3 (thorough 4) over a 7-symbol alphabet + seeded longer ones; "
                "oracle: split vs unsplit canonical MathML / speech / braille; non-trivial = every (locale, context, split) case")
    corp, calls = generate(res)

    def on_broken(log):
        return (api_oracle(res, corp) + switch_oracle(res, corp)) > 0
    proved = C.check_proofs(res, "C16", ["Props/C16.vo", "Tie/C16Tie.vo"], "Props/C16.v", search=on_broken)
    if proved:
        api_oracle(res, corp)
        switch_oracle(res, corp)
    res.trusted += ["regex crate full-match semantics of the seven number patterns (tied to the verified matcher by exhaustive short strings)",
                    "\\d is modelled as ASCII digits (Rust's \\d also accepts other Unicode decimal digits: outside the fragment)"]
    res.assumptions += ["'canonicalizes, is spoken and brailled exactly like the unsplit form' is checked on the library for the generated cases, not proved "
                        "(it needs the models of the rest of canonicalization: C01)"]


def replay(path):
    rep = json.load(open(path, encoding="utf-8"))
    ok, log = C.build_harness()
    if not ok:
        print("harness build failed", log)
        return 2
    if rep.get("kind") == "pair":
        block, dec = LOCALES[rep["locale"]]
        pre = sep_prefs(rep["locale"]) + [["set_preference", "BrailleCode", rep["code"]]]
        outs = []
        for body in (rep["unsplit"], rep["split"]):
            r = C.one_session(pre + [["set_mathml", "<math><mrow>%s</mrow></math>" % body], ["get_spoken_text"], ["get_braille", ""]])["res"][3:]
            outs.append([C.norm_ids(norm_space_in_mn(r[0].get("ok", "")))] + r[1:])
        print(json.dumps(outs, ensure_ascii=False)[:1500])
        return 1 if outs[0] != outs[1] else 0
    print("replay names a broken obligation, not an input:", rep.get("what"))
    return 1
