"""C19 -- illegal intent values are ignored or reported as configured.
Coq: lexer progress / termination, parser termination for every token sequence and oracle behaviour, grammar
soundness, attribute restoration at every exit (Props/C19.v); tie: real lexer token sequences and Error-mode
acceptance vs the model (Tie/C19Tie.v, kernel-checked).
Library oracle: with recovery=IgnoreIntent an illegal value never makes speech fail and the speech equals the speech
with the attribute removed; with recovery=Error the same input yields an error, never a panic; a well-formed
name(args) is honoured; the stored expression is unchanged afterwards."""
import json
import os
import random
import re
import sys

from . import common as C

sys.path.insert(0, C.VERIF)
from gen import c19 as G
from gen.coqfmt import HEADER, clist, cstr

NAMES = ["f", "plus", "power", "x", "binomial", "_", "-", "a-b", "g_1", "αβ", "é", "sin", "Ω"]
PROPS = [":prefix", ":infix", ":silent", ":function", ":unit", ":literal", ":p1"]


def gen_intent(rng, depth):
    """grammatical intent value over the arguments a, b"""
    r = rng.random()
    if depth <= 0 or r < 0.35:
        t = rng.choice(["$a", "$b", rng.choice(NAMES), "%d" % rng.randint(0, 99), "-%d.%d" % (rng.randint(0, 9), rng.randint(0, 99)), "3.25"])
    else:
        head = rng.choice(NAMES + ["$a"])
        if rng.random() < 0.3:
            head += rng.choice(PROPS)
        args = ",".join(gen_intent(rng, depth - 1) for _ in range(rng.randint(1, 3)))
        t = "%s(%s)" % (head, args)
        if rng.random() < 0.15:
            t += "(%s)" % gen_intent(rng, depth - 1)
    if rng.random() < 0.2:
        t += "".join(rng.choice(PROPS) for _ in range(rng.randint(1, 2)))
    return t


def mutate(rng, s):
    ops = ["drop", "dup", "ins", "swap", "space"]
    for _ in range(rng.randint(1, 3)):
        if not s:
            break
        i = rng.randrange(len(s))
        op = rng.choice(ops)
        if op == "drop":
            s = s[:i] + s[i + 1:]
        elif op == "dup":
            s = s[:i] + s[i] + s[i:]
        elif op == "ins":
            s = s[:i] + rng.choice(list("(),:$ -.'\"/<=>[]{}|\\^`~;?@!#%&*+") + [" ", "　", "\t", "∑", "😀", "​", "x", "1"]) + s[i:]
        elif op == "swap" and i + 1 < len(s):
            s = s[:i] + s[i + 1] + s[i] + s[i + 2:]
        else:
            s = s[:i] + rng.choice([" ", "  ", " "]) + s[i:]
    return s


FIXED = [":silent,", ":silent", "f($a", "f($a)", "$nope", "plus($a,$b)", "1.5", "-", "f()", "f(x)(y)", "x y", ":p1:p2(x)", "f(,)", "_", "f(g(h($a)))",
         "", " ", "(", ")", "$", ":", "$a$b", "a:b", "1.", "1.x", "-3.5x", "x'", "x/y", "f(x,)", "f(x))", "((x))", "f(x)(", "$a:infix($b)", "f:prefix($a):p",
         "f ( $a , $b )", "　f($a)　", "f(" * 40 + "x" + ")" * 40, "f(" * 40 + "x", ",".join(["$a"] * 30), "f($a,$c)", "$a($b)", "3($a)", "f(:silent)", "f(:p($a))",
         # long values with characters of several bytes after the place where the error is (messages quote the rest of the value)
         "=приблизительноравно($a,$b)", ") " + "é" * 40, "a ) " + "é" * 40, "ab ) " + "Ω" * 40, "abc ) " + "α" * 40, "f($a) " + "😀" * 20, "f($a)x" + "　" * 30,
         "$a $b " + "ñ" * 33, ":p " + "ü" * 35, "f(" + "β" * 50,
         # names that are also names of MathML elements
         "mi($a)($b)", "mn($a)($b)", "mtext($a,$b)($a)", "mi($a)", "mo($b)", "ms($a)($a)($b)", "mrow($a,$b)", "mfrac($a,$b)", "math($a)", "msup($b)($a)", "mtable($a)"]


def xml_attr(s):
    return "".join("&#x%X;" % ord(c) if (c in "<&'\"" or ord(c) < 0x20 or ord(c) > 0x7E) else c for c in s)


def expr(value):
    return "<math><mrow intent='%s'><mi arg='a'>x</mi><mo>+</mo><mn arg='b'>1</mn></mrow></math>" % xml_attr(value)


PLAIN = "<math><mrow><mi arg='a'>x</mi><mo>+</mo><mn arg='b'>1</mn></mrow></math>"
KIND = {"terminal": 0, "property": 1, "argref": 2, "name": 3, "number": 4}


def arg_tree(rng, depth, counter, top=False):
    """(MathML, Coq term) of an element for the find_arg tie: numbers are labels, arg in {none, x, y}, rows may carry an
    intent of their own (a plain name: valid by itself)"""
    arg = None if top else rng.choice([None, None, "x", "y"])
    if not top and (depth <= 0 or rng.random() < 0.5):
        counter[0] += 1
        lab = 10 + counter[0]
        return ("<mn%s>%d</mn>" % ((" arg='%s'" % arg) if arg else "", lab),
                "(AT %s false [] %d)" % ("(Some %d)" % (1 if arg == "x" else 2) if arg else "None", lab))
    intent = "f($x)" if top else rng.choice([None, None, "g", ":structure", "h"])
    kids = [arg_tree(rng, depth - 1, counter) for _ in range(rng.randint(2, 3))]     # a row with one child is dissolved by clean-up
    counter[0] += 1
    lab = 10 + counter[0]
    xml = "<mrow%s%s>%s</mrow>" % ((" arg='%s'" % arg) if arg else "", (" intent='%s'" % xml_attr(intent)) if intent else "", "<mo>+</mo>".join(k[0] for k in kids))
    return xml, "(AT %s %s [%s] %d)" % ("(Some %d)" % (1 if arg == "x" else 2) if arg else "None", "true" if intent else "false", "; ".join(k[1] for k in kids), lab)


def arg_observations(rng, n):
    """find_arg through the API: under IntentErrorRecovery=Error, is `f($x)` on the tree accepted, and which element is spoken"""
    trees = [arg_tree(rng, 3, [0], top=True) for _ in range(n)]
    # by hand: visible, nested in a plain row, hidden by an intent, hidden by another arg, two candidates, self reference
    trees += [("<mrow intent='f($x)'><mn arg='x'>11</mn><mo>+</mo><mn>12</mn></mrow>", "(AT None true [AT (Some 1) false [] 11; AT None false [] 12] 13)"),
              ("<mrow intent='f($x)'><mrow><mn>11</mn><mo>+</mo><mn arg='x'>12</mn></mrow><mo>+</mo><mn>13</mn></mrow>",
               "(AT None true [AT None false [AT None false [] 11; AT (Some 1) false [] 12] 14; AT None false [] 13] 15)"),
              ("<mrow intent='f($x)'><mrow intent='g($x)'><mn arg='x'>11</mn><mo>+</mo><mn>12</mn></mrow><mo>=</mo><mn>13</mn></mrow>",
               "(AT None true [AT None true [AT (Some 1) false [] 11; AT None false [] 12] 14; AT None false [] 13] 15)"),
              ("<mrow intent='f($x)'><mrow arg='y'><mn arg='x'>11</mn><mo>+</mo><mn>12</mn></mrow><mo>=</mo><mn>13</mn></mrow>",
               "(AT None true [AT (Some 2) false [AT (Some 1) false [] 11; AT None false [] 12] 14; AT None false [] 13] 15)"),
              ("<mrow intent='f($x)'><mrow intent=':structure'><mn arg='x'>11</mn><mo>+</mo><mn>12</mn></mrow><mo>=</mo><mn arg='x'>13</mn></mrow>",
               "(AT None true [AT None true [AT (Some 1) false [] 11; AT None false [] 12] 14; AT (Some 1) false [] 13] 15)"),
              ("<mrow intent='f($x)' arg='x'><mn>11</mn><mo>+</mo><mn>12</mn></mrow>", "(AT (Some 1) true [AT None false [] 11; AT None false [] 12] 13)")]
    ops = [["set_preference", "IntentErrorRecovery", "Error"]]
    for xml, _ in trees:
        ops += [["set_mathml", "<math>%s</math>" % xml], ["get_spoken_text"]]
    r = C.one_session(ops)["res"][1:]
    obs = []
    for i, (xml, term) in enumerate(trees):
        sm, sp = r[2 * i], r[2 * i + 1]
        if "ok" not in sm or "panic" in sp:
            continue
        acc = not rejected_by_intent(sp)
        lab = None
        if acc and "ok" in sp:
            said = [int(x) for x in re.findall(r"\b(\d\d)\b", sp["ok"])]
            if len(said) == 1:
                lab = said[0]
        obs.append((xml, term, acc, lab, sp))
    return obs


def generate(res):
    src = C.read(os.path.join(C.REPO, "src", "infer_intent.rs"))
    t = C.translate(res, "c19", "token patterns of infer_intent.rs", lambda: G.parse_source(src))
    C.write_if_changed(os.path.join(C.GEN, "IntentRe.v"), G.render(t))
    ok, log = C.build_harness()
    if not ok:
        raise RuntimeError("harness build failed: " + log)
    seed = res.seed if res else 1
    tier = res.tier if res else "quick"
    rng = random.Random(seed * 3191 + 19)
    n = 150 if tier == "quick" else 1500
    values = list(FIXED)
    for _ in range(n):
        v = gen_intent(rng, rng.randint(0, 3))
        values.append(v)
        values.append(mutate(rng, v))
    for _ in range(n // 3):
        values.append("".join(rng.choice(list("ab$:(),.-1 _x") + ["∑", "é", "😀", " ", "　", "'", "/"]) for _ in range(rng.randint(1, 10))))
    values = [v for v in dict.fromkeys(values) if "\x00" not in v and all(ord(c) >= 0x20 or c in "\t\n" for c in v)]
    lr = C.one_session([["v_intent_lex", v] for v in values])["res"]
    lex_items = []
    for v, x in zip(values, lr):
        if "ok" in x:
            lex_items.append("(%s, Some [%s])" % (cstr(v), "; ".join("(%d, %s)" % (KIND[k], cstr(s)) for k, s in x["ok"])))
        elif "err" in x:
            lex_items.append("(%s, None)" % cstr(v))
    # acceptance under Error mode
    ops = [["set_preference", "IntentErrorRecovery", "Error"]]
    for v in values:
        ops += [["set_mathml", expr(v)], ["get_spoken_text"]]
    ar = C.one_session(ops)["res"][1:]
    acc_items, acc = [], []
    for i, v in enumerate(values):
        sm, sp = ar[2 * i], ar[2 * i + 1]
        if "ok" not in sm:
            continue                      # the attribute value made the XML / MathML invalid: not an intent question
        acc.append((v, sp))
        if "panic" in sp:
            continue
        acc_items.append("(%s, %s)" % (cstr(v.strip(" \t\n\r")), "true" if not rejected_by_intent(sp) else "false"))
    body = HEADER
    body += "Definition lex_obs : list (list N * option (list (N * list N))) := " + clist(lex_items) + ".\n"
    body += "Definition accept_obs : list (list N * bool) := " + clist(acc_items) + ".\n"
    aobs = arg_observations(rng, 60 if tier == "quick" else 600)
    body += "From MC Require Import Model.FindArg.\nDefinition arg_obs : list (atree * bool * option N) := " + clist(
        "(%s, %s, %s)" % (t, "true" if a_ else "false", "Some %d" % l if l is not None else "None") for _, t, a_, l, _ in aobs) + ".\n"
    if res is not None:
        res.extra["find_arg_cases"] = {"trees": len(aobs), "accepted": sum(1 for o in aobs if o[2]), "element_identified": sum(1 for o in aobs if o[3] is not None)}
        res.extra["_aobs"] = aobs
    C.write_if_changed(os.path.join(C.GEN, "C19Obs.v"), body)
    if res is not None:
        res.extra["gen_sources"] = [{"file": "src/infer_intent.rs", "events": t["events"], "terminals": t["terminals"]}] if t else []
        res.extra["tie_cases"] = {"lexer": len(lex_items), "acceptance": len(acc_items)}
    return values, acc


INTENT_ERRORS = ("in intent attribute value", "Illegal 'intent' syntax", "Error in intent value", "intent arg '")


def rejected_by_intent(sp):
    """the intent value itself was rejected (as opposed to a speech rule failing on the tree it made)"""
    return "err" in sp and any(m in sp["err"] for m in INTENT_ERRORS)


def applications(v):
    """(name, number of arguments) of every name(args) in an intent value (properties after ':' dropped)"""
    out, stack, name, i = [], [], "", 0
    while i < len(v):
        c = v[i]
        if c == "(":
            stack.append([name.split(":")[0].strip(), 1, i + 1 < len(v) and v[i + 1] == ")"])
            name = ""
        elif c == ")":
            if stack:
                n, k, empty = stack.pop()
                out.append((n, 0 if empty else k))
            name = ""
        elif c == ",":
            if stack:
                stack[-1][1] += 1
            name = ""
        else:
            name += c
        i += 1
    return out


KF_ARITY = "known-concept-with-unexpected-number-of-arguments"
KF_TOKEN_NAME = "concept-named-like-a-token-element"
TOKEN_NAMES = {"mi", "mn", "mo", "mtext", "ms"}
_ARITIES = None


def wrong_arity_of_known_concept(v):
    global _ARITIES
    if _ARITIES is None:
        from . import c15
        _ARITIES = c15.english_arities()
    return [(n, k) for n, k in applications(v) if n in _ARITIES and k not in _ARITIES[n]]


def api_oracle(res, values, acc):
    base = C.one_session([["set_mathml", PLAIN], ["get_spoken_text"], ["get_braille", ""]])["res"]
    plain_speech, plain_braille = base[1].get("ok"), base[2].get("ok")
    err_of = {v: (not rejected_by_intent(sp), sp) for v, sp in acc}
    kf = {k["id"] for k in C.known_findings("C19")}
    ops = [["set_preference", "IntentErrorRecovery", "IgnoreIntent"]]
    vals = [v for v, _ in acc]
    for v in vals:
        ops += [["set_mathml", expr(v)], ["get_spoken_text"], ["get_braille", ""], ["get_spoken_text"]]
    r = C.one_session(ops)["res"][1:]
    nv = 0
    for i, v in enumerate(vals):
        sm, sp, br, sp2 = r[4 * i:4 * i + 4]
        accepted, errsp = err_of[v]
        rep = {"kind": "intent", "value": v, "mathml": expr(v)}
        res.add_case(("intent", v), nontrivial=not accepted, sample={"intent": v, "error_mode": C.outcome(errsp)[0], "ignore_mode": sp.get("ok")} if len(res.samples) < 8 else None)
        if "panic" in errsp:
            res.violation("IntentErrorRecovery=Error: intent %r makes speech panic: %s" % (v, errsp["panic"]), dict(rep, mode="Error"))
            nv += 1
        if "panic" in sp or "panic" in sm:
            res.violation("IntentErrorRecovery=IgnoreIntent: intent %r makes the library panic" % v, dict(rep, mode="IgnoreIntent", observed=[sm, sp]))
            nv += 1
        elif "ok" not in sp and accepted and wrong_arity_of_known_concept(v) and KF_ARITY in kf:
            res.known("%s: intent %r (%s)" % (KF_ARITY, v[:80], ", ".join("%s with %d" % x for x in wrong_arity_of_known_concept(v)[:2])))
        elif "ok" not in sp and accepted and KF_TOKEN_NAME in kf and any(n in TOKEN_NAMES for n, _ in applications(v)) and "Pattern match/replacement failure" in sp.get("err", ""):
            res.known("%s: intent %r" % (KF_TOKEN_NAME, v[:80]))
        elif "ok" not in sp:
            res.violation("IntentErrorRecovery=IgnoreIntent: intent %r makes speech fail: %r" % (v, sp.get("err", "")[:120]), dict(rep, mode="IgnoreIntent", observed=sp))
            nv += 1
        elif not accepted and sp["ok"] != plain_speech:
            res.violation("illegal intent %r is not ignored: speech %r instead of %r" % (v, sp["ok"], plain_speech), dict(rep, mode="IgnoreIntent", observed=sp["ok"], expected=plain_speech))
            nv += 1
        elif sp2 != sp or br.get("ok") != plain_braille:
            res.violation("speaking an expression with intent %r changes the stored expression (second speech / braille differ)" % v,
                          dict(rep, mode="IgnoreIntent", first=sp, second=sp2, braille=br.get("ok"), plain_braille=plain_braille))
            nv += 1
        if nv >= 5:
            return nv
    # a well-formed name(args) is honoured
    for name, args, words in [("binomial", "$a,$b", ["x", "1"]), ("frobnicate", "$a", ["frobnicate", "x"]), ("plus", "$b,$a", ["plus", "1", "x"])]:
        v = "%s(%s)" % (name, args)
        x = C.one_session([["set_mathml", expr(v)], ["get_spoken_text"]])["res"][1]
        res.add_case(("honoured", v), nontrivial=True)
        if "ok" not in x or any(w not in x["ok"] for w in words):
            res.violation("well-formed intent %r is not honoured: speech %r lacks one of %r" % (v, x.get("ok"), words), {"kind": "intent", "value": v, "mathml": expr(v), "mode": "honoured", "observed": x})
            nv += 1
    # ... also when clean-up deletes the other children of the row that carries the intent (the row must survive)
    for filler in ("<mrow/>", "<mphantom><mi>q</mi></mphantom>", "<mtext> </mtext>", "<mspace width='1em'/>"):
        for wrap in ("%s", "<msqrt>%s</msqrt>", "<mrow>%s<mo>+</mo><mn>2</mn></mrow>"):
            m = "<math>" + wrap % ("<mrow intent='frobnicate($n)'><mi arg='n'>n</mi>%s</mrow>" % filler) + "</math>"
            for pref in ("IgnoreIntent", "Error"):
                x = C.one_session([["set_preference", "IntentErrorRecovery", pref], ["set_mathml", m], ["get_spoken_text"]])["res"][2]
                res.add_case(("honoured-row", filler, wrap, pref), nontrivial=True)
                if "ok" not in x or "frobnicate" not in x["ok"] or not re.search(r"\bn\b", x["ok"]):
                    res.violation("well-formed intent on a row whose other children are removed by clean-up is not honoured (%s): %r" % (pref, x.get("ok", x)),
                                  {"kind": "intent", "value": "frobnicate($n)", "mathml": m, "mode": "honoured", "observed": x})
                    nv += 1
                    if nv >= 5:
                        return nv
    return nv


def py_resolve(term):
    """Model/FindArg.resolve in python, for the search only (the term is the Coq term of the tree)"""
    toks = re.findall(r"\(|\)|\[|\]|;|Some|None|true|false|AT|\d+", term)
    pos = [0]

    def tree():
        if toks[pos[0]] == "(":
            pos[0] += 1
            t = tree()
            pos[0] += 1
            return t
        pos[0] += 1                      # AT
        if toks[pos[0]] == "None":
            a = None
            pos[0] += 1
        else:
            pos[0] += 2                  # ( Some
            a = int(toks[pos[0]])
            pos[0] += 2
        i = toks[pos[0]] == "true"
        pos[0] += 2                      # bool [
        ks = []
        while toks[pos[0]] != "]":
            if toks[pos[0]] == ";":
                pos[0] += 1
            ks.append(tree())
        pos[0] += 1
        lab = int(toks[pos[0]])
        pos[0] += 1
        return (a, i, ks, lab)

    def find(name, t, skip, nci):
        a, i, ks, l = t
        if not skip and a == name:
            return l
        if not skip and nci and a is not None:
            return None
        if nci and i:
            return None
        for c in ks:
            r = find(name, c, False, True)
            if r is not None:
                return r
        return None
    return find(1, tree(), True, False)


def arg_oracle(res, aobs):
    """references that can only be satisfied inside an element with its own intent / another arg are dangling: Error mode
    reports an error, IgnoreIntent speaks the expression as without the outer intent; visible references are honoured"""
    nv = 0
    hidden = [(xml, term) for xml, term, acc, lab, sp in aobs if py_resolve(term) is None]
    for xml, term, acc, lab, sp in aobs:
        r = py_resolve(term)
        res.add_case(("find_arg", xml), nontrivial=(r is None))
        if r is None and acc:
            res.violation("IntentErrorRecovery=Error: the reference $x of %s can only be satisfied inside an element with its own intent or another arg "
                          "(it nests illegally) but the intent is accepted: %r" % (xml[:200], sp.get("ok", "")[:80]),
                          {"kind": "intent", "value": "f($x)", "mathml": "<math>%s</math>" % xml, "mode": "ErrorExpected", "observed": sp})
            nv += 1
        elif r is not None and not acc:
            res.violation("IntentErrorRecovery=Error: the reference $x of %s is visible (element %d) but the intent is rejected" % (xml[:200], r),
                          {"kind": "intent", "value": "f($x)", "mathml": "<math>%s</math>" % xml, "mode": "honoured", "observed": sp})
            nv += 1
        if nv >= 3:
            return nv
    ops = [["set_preference", "IntentErrorRecovery", "IgnoreIntent"]]
    for xml, _ in hidden[:40]:
        ops += [["set_mathml", "<math>%s</math>" % xml], ["get_spoken_text"], ["set_mathml", "<math>%s</math>" % xml.replace(" intent='f($x)'", "", 1)], ["get_spoken_text"]]
    r = C.one_session(ops)["res"][1:]
    for i, (xml, _) in enumerate(hidden[:40]):
        a, b = r[4 * i + 1], r[4 * i + 3]
        if "ok" in b and a != b:
            res.violation("IntentErrorRecovery=IgnoreIntent: an intent whose reference nests illegally is not ignored: %r instead of %r" % (str(a)[:100], str(b)[:100]),
                          {"kind": "intent", "value": "f($x)", "mathml": "<math>%s</math>" % xml, "mode": "IgnoreIntent", "observed": a, "expected": b})
            nv += 1
            if nv >= 3:
                break
    return nv


def context_oracle(res):
    """whether a value is illegal depends on the element that carries it (a reference needs its argument below that element):
    the same value on an element where it is illegal and then on one where it is fine -- across expressions of a session and
    on two rows of one expression, in both orders -- is ignored where it is illegal and honoured where it is fine, exactly as
    in a session that saw only that expression"""
    good = lambda v: "<mrow intent='%s'><mi arg='a'>x</mi><mo>+</mo><mn arg='b'>1</mn></mrow>" % xml_attr(v)
    bad = lambda v: "<mrow intent='%s'><mi arg='a'>y</mi><mo>-</mo><mn>2</mn></mrow>" % xml_attr(v)           # no argument b here
    nv = 0
    for v in ["foo($a,$b)", "plus($b,$a)", "f(g($b))", "$b", "binomial($a,$b):infix"]:
        exprs = ["<math>%s</math>" % bad(v), "<math>%s</math>" % good(v),
                 "<math><mtable><mtr><mtd>%s</mtd></mtr><mtr><mtd>%s</mtd></mtr></mtable></math>" % (bad(v), good(v)),
                 "<math><mtable><mtr><mtd>%s</mtd></mtr><mtr><mtd>%s</mtd></mtr></mtable></math>" % (good(v), bad(v))]
        fresh = [C.one_session([["set_preference", "IntentErrorRecovery", "IgnoreIntent"], ["set_mathml", e], ["get_spoken_text"]])["res"][-1] for e in exprs]
        for order in ([0, 1, 0, 1], [1, 0, 1], [2, 1], [0, 3, 2]):
            ops = [["set_preference", "IntentErrorRecovery", "IgnoreIntent"]]
            for k in order:
                ops += [["set_mathml", exprs[k]], ["get_spoken_text"]]
            r = C.one_session(ops)["res"][1:]
            for j, k in enumerate(order):
                got = r[2 * j + 1]
                res.add_case(("context", v, tuple(order), j), nontrivial=True)
                if got != fresh[k]:
                    res.violation("intent %r: after %d earlier expression(s) of the session the speech of %s is %r, in a session of its own %r"
                                  % (v, j, exprs[k][:160], got.get("ok", got), fresh[k].get("ok", fresh[k])),
                                  {"kind": "context", "value": v, "ops": ops[:2 * j + 3], "mathml": exprs[k], "expected": fresh[k]})
                    nv += 1
                    break
            if nv >= 3:
                return nv
        # the bad placement is ignored, the good one honoured (in their own sessions)
        plain = C.one_session([["set_mathml", "<math><mrow><mi>y</mi><mo>-</mo><mn>2</mn></mrow></math>"], ["get_spoken_text"]])["res"][-1]
        if fresh[0] != plain:
            res.violation("intent %r with a reference to a missing argument is not ignored: %r instead of %r" % (v, fresh[0].get("ok", fresh[0]), plain.get("ok")),
                          {"kind": "intent", "value": v, "mathml": exprs[0], "mode": "IgnoreIntent"})
            nv += 1
    return nv


def run(res):
    res.rule = ("intent values: 40+ fixed edge cases, seeded grammatical values (depth 0-3) over arguments a/b, 1-3 character mutations of them "
                "(drop, duplicate, insert punctuation / Unicode / blanks, swap), arbitrary strings; lexer hook and Error-mode acceptance vs model; "
                "oracle: IgnoreIntent speech = speech without the attribute for every rejected value, no failure, stored tree unchanged; "
                "non-trivial = values rejected under Error mode")
    values, acc = generate(res)

    aobs = res.extra.pop("_aobs", [])

    def on_broken(log):
        n = 0
        m = re.findall(r"=\s*\[([^\]]*)\]\s*:\s*list N", log)
        if len(m) >= 2:
            # acceptance tie: the values on which the library and the grammar (the model's parser) disagree
            tied = [(v, sp) for v, sp in acc if "panic" not in sp]
            for i in [int(x.replace("%N", "")) for x in m[1].replace("\n", " ").split(";") if x.strip()][:3]:
                if i < len(tied):
                    v, sp = tied[i]
                    lib_accepts = not rejected_by_intent(sp)
                    res.violation("IntentErrorRecovery=Error: the intent value %r %s, the intent grammar says the opposite (library: %s)"
                                  % (v, "is accepted" if lib_accepts else "is rejected", str(sp)[:100]),
                                  {"kind": "intent", "value": v, "mathml": expr(v), "mode": "ErrorExpected" if lib_accepts else "honoured", "observed": sp})
                    n += 1
        return n + api_oracle(res, values, acc) + arg_oracle(res, aobs) + context_oracle(res) > 0
    proved = C.check_proofs(res, "C19", ["Props/C19.vo", "Tie/C19Tie.vo"], "Props/C19.v", search=on_broken)
    if proved:
        api_oracle(res, values, acc)
        arg_oracle(res, aobs)
        context_oracle(res)
    res.trusted += ["speech rules (match_pattern) and find_arg are oracles of the parser model; in the acceptance tie arguments a, b are present and the self-match succeeds",
                    "regex crate: leftmost-longest behaviour of the four token patterns (tied by the lexer hook)"]
    res.assumptions += ["'speech mentions the named concept' depends on the rule files: checked on three examples only"]


def replay(path):
    rep = json.load(open(path, encoding="utf-8"))
    if rep.get("kind") == "context":
        C.build_harness()
        got = C.one_session(rep["ops"])["res"][-1]
        print("in the session:", got, "\nalone:         ", rep["expected"])
        return 1 if got != rep["expected"] else 0
    ok, log = C.build_harness()
    if not ok:
        print("harness build failed", log)
        return 2
    if rep.get("kind") == "intent":
        mode = rep.get("mode", "IgnoreIntent")
        if mode == "ErrorExpected":
            r = C.one_session([["set_preference", "IntentErrorRecovery", "Error"], ["set_mathml", rep["mathml"]], ["get_spoken_text"]])["res"]
            print(json.dumps(r[1:], ensure_ascii=False)[:800])
            return 1 if "ok" in r[2] or "panic" in r[2] else 0
        pref = "Error" if mode == "Error" else "IgnoreIntent"
        r = C.one_session([["set_preference", "IntentErrorRecovery", pref], ["set_mathml", rep["mathml"]], ["get_spoken_text"], ["set_mathml", PLAIN], ["get_spoken_text"]])["res"]
        print(json.dumps(r[1:], ensure_ascii=False)[:1200])
        if any("panic" in x for x in r):
            return 1
        if pref == "IgnoreIntent" and ("ok" not in r[2] or (mode == "IgnoreIntent" and "expected" in rep and r[2]["ok"] != r[4].get("ok"))):
            return 1
        return 0
    print("replay names a broken obligation, not an input:", rep.get("what"))
    return 1
