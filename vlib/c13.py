"""C13 -- speech-engine markup is well formed and never changes the words.
Coq: theorems over the tag templates regenerated from src/tts.rs + token-level emission model (Props/C13.v);
tie: hook outputs instantiate the templates, merge_pauses agrees with the model (Tie/C13Tie.v).
Library oracle (support + search): get_spoken_text under SSML / SAPI5 x preference combinations is well nested,
uses the engine vocabulary with valid attribute syntax/values, and its words equal the no-engine words."""
import json
import os
import random
import re
import sys

from . import common as C
from . import exprs as X

sys.path.insert(0, C.VERIF)
from gen import c13 as G
from gen.coqfmt import HEADER, clist, cstr

ENG = {"None": 0, "SSML": 1, "SAPI5": 2}
CMDS = ["pause", "rate", "volume", "pitch", "audio", "gender", "voice", "spell", "pronounce"]


def tag_cases():
    cases = []
    for e in ("SSML", "SAPI5"):
        for v, vc in (("300", 0), ("150", 0), ("987654321.5", 1), ("10", 2), ("3000", 0)):
            cases.append((e, "pause", "num", v, vc))
        for c in ("rate", "volume", "pitch"):
            for v in ("120", "-15", "0.5", "33.3", "250"):
                if c == "rate" and v.startswith("-"):
                    continue      # a negative speech rate is not a meaningful preference value (SAPI5 takes its logarithm)
                cases.append((e, c, "num", v, 0))
        for c, vals in (("audio", ["beep.mp4", "a/b.wav"]), ("gender", ["female", "male"]), ("voice", ["bob", "Zira"]),
                        ("spell", ["Na", "x", "q r"])):
            for v in vals:
                cases.append((e, c, "str", v, 0))
        cases.append((e, "pronounce", "pron", "sine\u0001saɪn\u0001s ay n", 0))
        cases.append((e, "pronounce", "pron", "tan\u0001tæn\u0001t ae n", 0))
    return cases


def merge_inputs(rng, tier):
    out = []
    tags = {"SSML": lambda a: "<break time='%dms'/>" % a, "SAPI5": lambda a: "<silence msec='%dms'/>" % a}
    others = {"SSML": ["<prosody pitch='10%'>", "</prosody>", "<say-as interpret-as='characters'>", "</say-as>", "<mark name='id-1'/>"],
              "SAPI5": ["<pitch middle=\"3\">", "</pitch>", "<spell>", "</spell>", "<bookmark mark='id-1'/>"]}
    n = 60 if tier == "quick" else 600
    for e in ("SSML", "SAPI5"):
        for _ in range(n):
            parts = []
            nruns = rng.randint(0, 6)
            for _r in range(nruns):
                parts.append(rng.choice(["x", "minus 2", "the fraction", "z squared", "end"]))
                if rng.random() < 0.3:
                    parts.append(rng.choice(others[e]))
                k = rng.choice([1, 2, 2, 3, 4])
                run = ""
                for _k in range(k):
                    run += tags[e](rng.choice([128, 150, 300, 600, 1000, 256])) + rng.choice(["", " ", "  "])
                parts.append(run)
            parts.append(rng.choice(["", "y", "plus 1"]))
            out.append((e, rng.choice([" ", ""]).join(parts) if rng.random() < 0.2 else " ".join(parts)))
    for _ in range(n // 2):
        s = "".join(rng.choice(["a", " ", ",", ";", "b c", ",", ";"]) for _ in range(rng.randint(1, 12)))
        out.append(("None", s))
    return out


def generate(res):
    src = C.read(os.path.join(C.REPO, "src", "tts.rs"))
    t = C.translate(res, "c13", "tag templates of tts.rs", lambda: G.parse_source(src))
    C.write_if_changed(os.path.join(C.GEN, "TtsTabs.v"), G.render(t))
    ok, log = C.build_harness()
    if not ok:
        raise RuntimeError("harness build failed: " + log)
    seed = res.seed if res else 1
    tier = res.tier if res else "quick"
    rng = random.Random(seed * 31337 + 13)
    tc = tag_cases()
    ops = []
    for e, c, k, v, vc in tc:
        ops.append(["v_tts_tag", e, c, k, v, True])
        ops.append(["v_tts_tag", e, c, k, v, False])
    mi = merge_inputs(rng, tier)
    for e, s in mi:
        ops.append(["v_tts_merge_pauses", e, s])
    r = C.one_session(ops)["res"]
    tag_obs, merge_obs = [], []
    i = 0
    for e, c, k, v, vc in tc:
        for is_start in (True, False):
            x = r[i]
            i += 1
            out = x.get("ok")
            if out is None:
                raise RuntimeError("hook v_tts_tag failed: %r" % (x,))
            tag_obs.append((ENG[e], CMDS.index(c), vc, is_start, out, (e, c, v)))
    for e, s in mi:
        x = r[i]
        i += 1
        merge_obs.append((ENG[e], s, x.get("ok"), x))
    body = HEADER
    body += "Definition tag_observations : list (N * N * N * bool * list N) := " + clist(
        "(%d, %d, %d, %s, %s)" % (e, c, vc, "true" if st else "false", cstr(o)) for e, c, vc, st, o, _ in tag_obs) + ".\n"
    body += "Definition merge_observations : list (N * list N * list N) := " + clist(
        "(%d, %s, %s)" % (e, cstr(s), cstr(o)) for e, s, o, _ in merge_obs if o is not None) + ".\n"
    C.write_if_changed(os.path.join(C.GEN, "C13Obs.v"), body)
    if res is not None:
        res.extra["gen_sources"] = [{"file": "src/tts.rs", "spans": t["spans"] if t else None, "sha256": C.sha256_text(src)}]
        res.extra["tie_cases"] = {"tag": len(tag_obs), "merge": len(merge_obs)}
    return t, tag_obs, merge_obs


# --------------------------------------------------------------------------------------------------------------
# python oracle on real speech strings (search + support)
# --------------------------------------------------------------------------------------------------------------
VOCAB = {
    "SSML": {"break": {"time": r"\d+ms"}, "prosody": {"pitch": r"-?\d+(\.\d+)?%", "rate": r"\d+(\.\d+)?%", "volume": r"-?\d+(\.\d+)?db"},
             "audio": {"src": r"[^'\"<>]+"}, "voice": {"required": r"[^<>]+"}, "say-as": {"interpret-as": r"characters"},
             "phoneme": {"alphabet": r"ipa", "ph": r"[^'\"<>]*"}, "mark": {"name": r"[^'\"<>]+"}},
    "SAPI5": {"silence": {"msec": r"\d+ms"}, "pitch": {"middle": r"-?\d+"}, "rate": {"speed": r"-?\d+(\.\d+)?"},
              "volume": {"level": r"-?\d+(\.\d+)?"}, "voice": {"required": r"[^<>]+"}, "spell": {}, "pron": {"sym": r"[^'\"<>]*"},
              "bookmark": {"mark": r"[^'\"<>]+"}},
}
ATTR_RE = re.compile(r"""\s+([A-Za-z][\w:-]*)=(?:'([^'<]*)'|"([^"<]*)")""")


def check_markup(engine, s):
    """returns (error or None, words, marks)"""
    stack, words, marks = [], [], []
    pos = 0
    for m in re.finditer(r"<([^<>]*)>", s):
        txt = s[pos:m.start()]
        if "<" in txt or ">" in txt:
            return "stray angle bracket in %r" % txt[:40], None, None
        words.append(txt)
        pos = m.end()
        body = m.group(1)
        if body.startswith("/"):
            nm = body[1:].strip()
            if not stack or stack[-1] != nm:
                return "close tag </%s> does not match open %r" % (nm, stack[-1:] or None), None, None
            stack.pop()
            continue
        empty = body.endswith("/")
        if empty:
            body = body[:-1]
        mm = re.match(r"([A-Za-z][\w:-]*)", body)
        if not mm:
            return "malformed tag <%s>" % m.group(1)[:40], None, None
        nm = mm.group(1)
        if nm not in VOCAB[engine]:
            return "element <%s> is not in the %s vocabulary" % (nm, engine), None, None
        rest = body[mm.end():]
        seen, p = set(), 0
        while p < len(rest):
            am = ATTR_RE.match(rest, p)
            if not am:
                if rest[p:].strip() == "":
                    break
                return "malformed attribute syntax in <%s>" % m.group(1)[:60], None, None
            an = am.group(1)
            av = am.group(2) if am.group(2) is not None else am.group(3)
            if an in seen:
                return "attribute %s repeated in <%s>" % (an, nm), None, None
            seen.add(an)
            pat = VOCAB[engine][nm].get(an)
            if pat is None:
                return "attribute %s is not defined for <%s> in %s" % (an, nm, engine), None, None
            if not re.fullmatch(pat, av):
                return "attribute value %s='%s' of <%s> is not valid" % (an, av, nm), None, None
            if nm in ("mark", "bookmark"):
                marks.append(av)
            p = am.end()
        if not empty:
            stack.append(nm)
    tail = s[pos:]
    if "<" in tail or ">" in tail:
        return "stray angle bracket in %r" % tail[:40], None, None
    words.append(tail)
    if stack:
        return "unclosed element(s) %r" % stack, None, None
    return None, words, marks


def word_list(s):
    """the words, pauses aside.  The no-engine run joins some words with its concatenation marker ("k" + "-th" ->
    "k-th") where an engine run has a tag boundary and a blank between them, so words are compared with all
    white space removed."""
    return "".join(re.sub(r"[,;]", " ", s).split())


PREF_SETS = [
    {},
    {"CapitalLetters_Pitch": "30"},
    {"CapitalLetters_Pitch": "-15", "CapitalLetters_UseWord": "false"},
    {"CapitalLetters_Beep": "true"},
    {"MathRate": "80", "PauseFactor": "200"},
    {"MathRate": "150", "PauseFactor": "20", "Rate": "250"},
    {"Bookmark": "true"},
    {"Bookmark": "true", "CapitalLetters_Pitch": "12.5", "SpeechStyle": "SimpleSpeak", "Verbosity": "Verbose"},
    {"Pitch": "10", "Volume": "80", "Verbosity": "Terse"},
    {"SpeechStyle": "SimpleSpeak", "PauseFactor": "300"},
    {"CapitalLetters_Pitch": "1"},
    {"CapitalLetters_Pitch": "-0.5", "MathRate": "101"},
]
CAP_EXPRS = [
    "<mrow><mi>A</mi><mo>+</mo><mi>B</mi><mo>=</mo><mi>C</mi></mrow>",
    "<mrow><mfrac><mrow><mi>A</mi><mo>+</mo><mn>1</mn></mrow><mrow><mi>x</mi><mo>-</mo><mn>2</mn></mrow></mfrac><mo>+</mo><mfrac><mrow><mi>y</mi><mo>+</mo><mn>1</mn></mrow><mrow><mi>Z</mi><mo>-</mo><mn>2</mn></mrow></mfrac><mo>-</mo><mfrac><mrow><mi>x</mi><mo>+</mo><mn>3</mn></mrow><mrow><mi>x</mi><mo>-</mo><mn>4</mn></mrow></mfrac><mo>+</mo><mfrac><mrow><mi>t</mi><mo>+</mo><mn>5</mn></mrow><mrow><mi>t</mi><mo>-</mo><mn>6</mn></mrow></mfrac></mrow>",
    "<mrow><msub><mi>H</mi><mn>2</mn></msub><mi>O</mi><mo>+</mo><mi>Na</mi><mi>Cl</mi></mrow>",
    "<mrow><msup><mi>X</mi><mn>2</mn></msup><mo>+</mo><msqrt><mrow><mi>Y</mi><mo>+</mo><mfrac><mn>1</mn><mrow><mi>Q</mi><mo>+</mo><mn>2</mn></mrow></mfrac></mrow></msqrt></mrow>",
]


PREF_OF_CMD = {"pitch": ["CapitalLetters_Pitch", "Pitch"], "rate": ["MathRate", "Rate"], "volume": ["Volume"], "pause": ["PauseFactor"]}


AUTHOR_IDS = ["x", "a", "A", "+", "mjx-eqn:2", "term(2)", "n#3", "i d", "&#xE9;", "1", "M0-1", "id"]


def with_ids(body, rng):
    """author ids of the kinds found in real documents (one letter, punctuation, blanks, non-ASCII) on some elements"""
    pool = list(AUTHOR_IDS)
    rng.shuffle(pool)

    def f(m):
        if pool and rng.random() < 0.5:
            return "<%s id='%s'%s" % (m.group(1), pool.pop(), m.group(2))
        return m.group(0)
    return re.sub(r"<(mi|mn|mo|mrow|mfrac|msup|msqrt)((?:\s[^<>]*)?>)", f, body)


def speech_oracle(res, rng, extra_prefs=()):
    for p in extra_prefs:
        if p not in PREF_SETS:
            PREF_SETS.append(p)
    bodies = list(X.FIXED) + CAP_EXPRS
    bodies += [with_ids(b, rng) for b in list(X.FIXED[:8]) + CAP_EXPRS[:2]]
    n = 12 if res.tier == "quick" else 150
    bodies += [X.gen(rng, 3) for _ in range(n)]
    sessions, meta = [], []
    for bi, b in enumerate(bodies):
        for pi, prefs in enumerate(PREF_SETS):
            if res.tier == "quick" and (bi + pi) % 3 != res.seed % 3 and b not in CAP_EXPRS:
                continue
            for eng in ("None", "SSML", "SAPI5"):
                ops = [["set_rules_dir", C.RULES]] + [["set_preference", k, v] for k, v in prefs.items()]
                ops += [["set_preference", "TTS", eng], ["set_mathml", X.math(b)], ["get_spoken_text"]]
                sessions.append({"id": len(sessions), "ops": ops})
                meta.append((b, pi, eng))
    out = C.run_harness(sessions)
    groups = {}
    for (b, pi, eng), r in zip(meta, out):
        rs = r.get("res", [])
        groups.setdefault((b, pi), {})[eng] = (rs[-2] if len(rs) >= 2 else {}, rs[-1] if rs else {"crash": r})
    nv = 0
    for (b, pi), g in groups.items():
        prefs = PREF_SETS[pi]
        none_sp = g.get("None", ({}, {}))[1].get("ok")
        for eng in ("SSML", "SAPI5"):
            sm, sp = g.get(eng, ({}, {}))
            speech = sp.get("ok")
            rep = {"kind": "speech", "engine": eng, "prefs": prefs, "mathml": X.math(b), "speech": speech, "speech_none": none_sp}
            res.add_case(("speech", eng, pi, b), nontrivial=bool(speech and "<" in speech),
                         sample={"engine": eng, "prefs": prefs, "speech": speech[:160]} if speech and len(res.samples) < 6 and "<" in speech else None)
            if speech is None or none_sp is None:
                if speech is None and none_sp is not None:
                    res.violation("get_spoken_text fails with TTS=%s but not with TTS=None: %r" % (eng, sp), rep)
                    nv += 1
                continue
            err, words, marks = check_markup(eng, speech)
            if err:
                res.violation("%s markup is ill formed: %s" % (eng, err), dict(rep, why=err))
                nv += 1
            else:
                w1, w0 = word_list("".join(words)), word_list(none_sp)
                if w1 != w0:
                    res.violation("removing the %s tags does not leave the words of the no-engine speech" % eng,
                                  dict(rep, why="words differ", words_engine=w1, words_none=w0))
                    nv += 1
                if marks:
                    ids = set(re.findall(r"\bid='([^']*)'", sm.get("ok", "")))
                    badm = [m for m in marks if m not in ids]
                    if badm:
                        res.violation("bookmark(s) %r are not ids of the expression" % badm[:3], dict(rep, why="bookmark not an id"))
                        nv += 1
            if nv >= 5:
                return nv
    return nv


def run(res):
    res.rule = ("tie: hook outputs of every (engine, command) on sample values vs generated templates; merge_pauses hook vs model on seeded strings "
                "with 0-6 pause runs; oracle: get_spoken_text under None/SSML/SAPI5 x 10 preference sets on fixed + capital-letter + seeded "
                "textbook expressions (nesting, vocabulary, attribute syntax and values, words equal to the no-engine words, bookmark ids); "
                "non-trivial = speech containing at least one tag")
    rng = random.Random(res.seed * 65537 + 13)
    t, tag_obs, merge_obs = generate(res)
    for e, c, vc, st, o, key in tag_obs:
        res.add_case(("tag",) + key + (st,), nontrivial=bool(o))
    for e, s, o, x in merge_obs:
        res.add_case(("merge", e, s), nontrivial=(o != s))
        if o is None:
            res.violation("merge_pauses does not return on %r: %r" % (s, x), {"kind": "merge", "engine": e, "input": s, "observed": x})

    def on_broken(log):
        n = 0
        m = re.findall(r"=\s*\[([^\]]*)\]", log)
        if len(m) >= 2:
            for i in [int(x.replace("%N", "")) for x in m[1].replace("\n", " ").split(";") if x.strip()][:3]:
                e, s, o, x = [mo for mo in merge_obs if mo[2] is not None][i]
                eng = [k for k, v in ENG.items() if v == e][0]
                if eng != "None":
                    err, _, _ = check_markup(eng, o)
                    err0, _, _ = check_markup(eng, s)
                    if err and not err0:
                        res.violation("merge_pauses turns well-formed %s markup into ill-formed markup: %s" % (eng, err),
                                      {"kind": "merge", "engine": eng, "input": s, "observed": o, "why": err})
                        n += 1
        # the tag templates that no longer agree name an engine command and a value: speak with preferences that
        # make the rules issue exactly that command with that value
        extra = []
        if m:
            for i in [int(x.replace("%N", "")) for x in m[0].replace("\n", " ").split(";") if x.strip()][:6]:
                if i < len(tag_obs):
                    e, c, v = tag_obs[i][5]
                    for name in PREF_OF_CMD.get(c, []):
                        extra.append({name: v})
        n += speech_oracle(res, rng, extra)
        return n > 0
    proved = C.check_proofs(res, "C13", ["Props/C13.vo", "Tie/C13Tie.vo"], "Props/C13.v", search=on_broken)
    if proved:
        speech_oracle(res, rng)
    res.trusted += ["regex crate (merge_pauses / compute_auto_pause patterns; tied by differential on the hook)",
                    "Rust f64 formatting of attribute values (holes are opaque in the templates; validated on real output by the oracle run)"]
    res.assumptions += ["which TTS commands an expression triggers is decided by the rule files (not modelled); the theorems hold for every derivation"]


def replay(path):
    rep = json.load(open(path, encoding="utf-8"))
    ok, log = C.build_harness()
    if not ok:
        print("harness build failed", log)
        return 2
    if rep.get("kind") == "speech":
        def sp(eng):
            ops = [["set_preference", k, v] for k, v in rep["prefs"].items()] + [["set_preference", "TTS", eng], ["set_mathml", rep["mathml"]], ["get_spoken_text"]]
            return C.one_session(ops)["res"][-1].get("ok")
        s, s0 = sp(rep["engine"]), sp("None")
        print("speech:", s, "\nnone:", s0)
        if s is None:
            return 1
        err, words, marks = check_markup(rep["engine"], s)
        if err:
            print("still failing:", err)
            return 1
        if s0 is not None and word_list("".join(words)) != word_list(s0):
            print("still failing: words differ")
            return 1
        return 0
    if rep.get("kind") == "merge":
        o = C.one_session([["v_tts_merge_pauses", rep["engine"], rep["input"]]])["res"][0].get("ok")
        print(o)
        if o is None:
            return 1
        err, _, _ = check_markup(rep["engine"], o) if rep["engine"] != "None" else (None, None, None)
        return 1 if err else 0
    print("replay names a broken obligation, not an input:", rep.get("what"))
    return 1
