"""Shared driver library for the MathCAT verification checks (python3, stdlib only)."""
import fcntl
import hashlib
import json
import os
import re
import subprocess
import sys
import time

VERIF = os.path.dirname(os.path.dirname(os.path.abspath(__file__)))
REPO = os.environ.get("VERIF_REPO", "/repo")
BUILD = os.path.join(VERIF, "_build")
COQ = os.path.join(VERIF, "coq")
GEN = os.path.join(COQ, "Gen")
HARNESS_DIR = os.path.join(VERIF, "harness")
HARNESS_BIN = os.path.join(BUILD, "harness-target", "debug", "mcharness")
REPLAYS = os.path.join(BUILD, "replays")
EVIDENCE = os.path.join(VERIF, "evidence")
RULES = os.path.join(REPO, "Rules")

OFFLINE_ENV = {"CARGO_NET_OFFLINE": "true", "GOPROXY": "off", "PIP_NO_INDEX": "1"}

TRUSTED_BASE_COMMON = [
    "Coq 8.16.1 kernel (coqc, full .vo build; vm_compute used for finite table obligations; no native_compute)",
    "python translators in /verif/gen (source text / runtime dump -> coq/Gen/*.v)",
    "Rust harness /verif/harness (public API + cfg(mathcat_verif) hooks) and its canonicalisation of outputs",
    "rustc/cargo, regex, sxd_document, sxd_xpath, yaml-rust, phf crates (not modelled)",
]


def log(*a):
    print(*a, file=sys.stderr, flush=True)


def ensure_dirs():
    for d in (BUILD, GEN, REPLAYS, EVIDENCE, os.path.join(BUILD, "tmp")):
        os.makedirs(d, exist_ok=True)


class Lock:
    def __init__(self, name):
        ensure_dirs()
        self.path = os.path.join(BUILD, name + ".lock")

    def __enter__(self):
        self.f = open(self.path, "w")
        fcntl.flock(self.f, fcntl.LOCK_EX)
        return self

    def __exit__(self, *a):
        fcntl.flock(self.f, fcntl.LOCK_UN)
        self.f.close()


def sh(cmd, timeout=600, env=None, cwd=None, input=None):
    e = dict(os.environ)
    e.update(OFFLINE_ENV)
    if env:
        e.update(env)
    try:
        p = subprocess.run(cmd, shell=isinstance(cmd, str), cwd=cwd, env=e, input=input,
                           stdout=subprocess.PIPE, stderr=subprocess.STDOUT, timeout=timeout, text=True,
                           errors="replace")
        return p.returncode, p.stdout
    except subprocess.TimeoutExpired as ex:
        out = ex.stdout or ""
        if isinstance(out, bytes):
            out = out.decode("utf-8", "replace")
        return 124, out + "\n[timeout after %ss]" % timeout


def write_if_changed(path, content):
    try:
        with open(path, encoding="utf-8") as f:
            if f.read() == content:
                return False
    except FileNotFoundError:
        pass
    os.makedirs(os.path.dirname(path), exist_ok=True)
    tmp = path + ".tmp%d" % os.getpid()
    with open(tmp, "w", encoding="utf-8") as f:
        f.write(content)
    os.replace(tmp, path)
    return True


def sha256_text(t):
    return hashlib.sha256(t.encode("utf-8")).hexdigest()


def read(path):
    with open(path, encoding="utf-8") as f:
        return f.read()


# ---------------------------------------------------------------------------------------
# Harness
# ---------------------------------------------------------------------------------------
_harness_built = False


def build_harness():
    """(Re)build the harness against /repo's working tree with hooks on. Returns (ok, log)."""
    global _harness_built
    if _harness_built:
        return True, ""
    with Lock("harness"):
        rc, out = sh("cargo build --offline 2>&1", timeout=1500, cwd=HARNESS_DIR,
                     env={"RUSTFLAGS": "--cfg mathcat_verif", "CARGO_TARGET_DIR": os.path.join(BUILD, "harness-target")})
    if rc != 0:
        errs = "\n".join(l for l in out.splitlines() if l.startswith("error") or "-->" in l)[:4000]
        return False, errs or out[-4000:]
    _harness_built = True
    return True, ""


def run_harness(sessions, threads=16, timeout=1200):
    """sessions: list of {"id":..,"ops":[[name,args..],..]}.  Returns list of result dicts (same order).
    A crashed process (abort / stack overflow) is reported as {"crash": rc} for the sessions not answered."""
    ensure_dirs()
    inp = "\n".join(json.dumps(s, ensure_ascii=False) for s in sessions) + "\n"
    e = dict(os.environ)
    e.update(OFFLINE_ENV)
    try:
        p = subprocess.run([HARNESS_BIN, str(threads)], input=inp.encode("utf-8"), stdout=subprocess.PIPE,
                           stderr=subprocess.PIPE, timeout=timeout, env=e)
        rc, out = p.returncode, p.stdout.decode("utf-8", "replace")
    except subprocess.TimeoutExpired:
        return [{"id": s.get("id"), "timeout": True, "res": []} for s in sessions]
    lines = [l for l in out.split("\n") if l.strip()]      # not splitlines(): U+2028, U+0085 ... inside a JSON string are not line ends
    if rc != 0 or len(lines) != len(sessions):
        return [{"id": s.get("id"), "crash": rc, "res": []} for s in sessions]
    return [json.loads(l) for l in lines]


def run_harness_isolating(sessions, threads=16, timeout=1200):
    """like run_harness, but when the process dies (stack overflow, abort) the sessions are re-run one per process so
    that only the sessions that kill it are reported as {"crash": rc}"""
    out = run_harness(sessions, threads=threads, timeout=timeout)
    if not any("crash" in r for r in out):
        return out
    from concurrent.futures import ThreadPoolExecutor
    with ThreadPoolExecutor(max_workers=threads) as ex:
        return list(ex.map(lambda s: run_harness([s], threads=1, timeout=timeout)[0], sessions))


def one_session(ops, **kw):
    r = run_harness([{"id": 0, "ops": [["set_rules_dir", RULES]] + ops}], threads=1, **kw)[0]
    if "res" in r and r["res"]:
        r["res"] = r["res"][1:]
    return r


# ---------------------------------------------------------------------------------------
# Coq
# ---------------------------------------------------------------------------------------
HYGIENE_RE = re.compile(
    r"\b(Admitted|admit|Axiom|Axioms|Parameter|Parameters|Conjecture|Conjectures|Admit Obligations|bypass_check|"
    r"Unset Guard Checking|Unset Positivity Checking|Unset Universe Checking|type-in-type|impredicative-set)\b")
ALLOWED_AXIOMS = set()   # none: every property theorem must be "Closed under the global context"


def strip_coq_comments(src):
    out, depth, i = [], 0, 0
    while i < len(src):
        if src.startswith("(*", i):
            depth += 1
            i += 2
        elif src.startswith("*)", i) and depth > 0:
            depth -= 1
            i += 2
        else:
            if depth == 0:
                out.append(src[i])
            i += 1
    return "".join(out)


def coq_files():
    res = []
    for root, _, files in os.walk(COQ):
        for f in files:
            if f.endswith(".v"):
                res.append(os.path.join(root, f))
    return sorted(res)


def hygiene():
    """Return list of 'file: offending token' over the whole development (comments stripped)."""
    bad = []
    for f in coq_files():
        src = strip_coq_comments(read(f))
        for m in HYGIENE_RE.finditer(src):
            bad.append("%s: %s" % (os.path.relpath(f, VERIF), m.group(0)))
    proj = read(os.path.join(COQ, "_CoqProject"))
    for flag in ("-type-in-type", "-impredicative-set", "-vos", "-vok"):
        if flag in proj:
            bad.append("_CoqProject: " + flag)
    return bad


def coq_makefile():
    rc, out = sh("coq_makefile -f _CoqProject -o Makefile", cwd=COQ, timeout=120)
    if rc != 0:
        raise RuntimeError("coq_makefile failed: " + out)


def ensure_gen():
    """every Gen file named in _CoqProject must exist before coqdep runs; generate the missing ones"""
    proj = read(os.path.join(COQ, "_CoqProject")).split()
    missing = [f for f in proj if f.startswith("Gen/") and not os.path.exists(os.path.join(COQ, f))]
    if missing:
        from . import setup
        setup.generate_all()


def coq_make(targets, timeout=1500, force=()):
    """Build the given .vo targets (paths relative to coq/).  `force`: .vo files removed first so that they are
    re-checked and their Print Assumptions output is in the log.  Returns (ok, log)."""
    ensure_gen()
    with Lock("coq"):
        if not os.path.exists(os.path.join(COQ, "Makefile")) or \
                os.path.getmtime(os.path.join(COQ, "Makefile")) < os.path.getmtime(os.path.join(COQ, "_CoqProject")):
            coq_makefile()
        for f in force:
            for ext in (".vo", ".glob", ".vos", ".vok"):
                try:
                    os.remove(os.path.join(COQ, f[:-3] + ext if f.endswith(".vo") else f + ext))
                except FileNotFoundError:
                    pass
        rc, out = sh("timeout %d make -j16 %s 2>&1" % (timeout, " ".join(targets)), cwd=COQ, timeout=timeout + 30)
    return rc == 0, out


def coq_eval(name, body, timeout=300):
    """Compile a scratch file _build/tmp/<name>.v (with -Q coq MC) and return (ok, output)."""
    ensure_dirs()
    d = os.path.join(BUILD, "tmp")
    path = os.path.join(d, name + ".v")
    with open(path, "w", encoding="utf-8") as f:
        f.write(body)
    rc, out = sh("timeout %d coqc -noglob -Q %s MC %s 2>&1" % (timeout, COQ, path), cwd=d, timeout=timeout + 30)
    return rc == 0, out


def parse_assumptions(log_text):
    """Parse 'Print Assumptions' blocks out of a coqc log: returns list of axiom-name lists (one per block)."""
    blocks = []
    lines = log_text.splitlines()
    i = 0
    while i < len(lines):
        l = lines[i]
        if l.startswith("Closed under the global context"):
            blocks.append([])
        elif l.startswith("Axioms:"):
            ax = []
            i += 1
            while i < len(lines) and (lines[i].startswith(" ") or re.match(r"^[A-Za-z_][\w.']* :", lines[i])):
                m = re.match(r"^([A-Za-z_][\w.']*)\s*:", lines[i])
                if m:
                    ax.append(m.group(1))
                i += 1
            blocks.append(ax)
            continue
        i += 1
    return blocks


def pinned_theorems(props_file):
    """Names pinned by `Check name : stmt.` in a Props file, with statement hash."""
    src = strip_coq_comments(read(props_file))
    names = re.findall(r"\bTheorem\s+([A-Za-z_][\w']*)", src)
    return names


# ---------------------------------------------------------------------------------------
# Known findings, violations, evidence
# ---------------------------------------------------------------------------------------
def known_findings(pid):
    p = os.path.join(VERIF, "known_findings.json")
    if not os.path.exists(p):
        return []
    data = json.load(open(p, encoding="utf-8"))
    return [k for k in data.get("known", []) if k.get("property") == pid]


class Result:
    """Accumulates what a check run found."""

    def __init__(self, pid, tier, seed):
        self.pid, self.tier, self.seed = pid, tier, seed
        self.t0 = time.time()
        self.violations = []      # replay paths
        self.known_hits = []      # strings
        self.obligations = 0
        self.discharged = 0
        self.obligation_names = []
        self.evaluations = 0
        self.distinct = set()
        self.samples = []
        self.extra = {}
        self.assumptions = []
        self.trusted = list(TRUSTED_BASE_COMMON)
        self.checker_cmd = ""
        self.rule = ""
        self.exhaustive = None
        self._nrep = 0

    def add_case(self, key, nontrivial=True, sample=None):
        self.evaluations += 1
        if nontrivial:
            self.distinct.add(key if isinstance(key, (str, int, tuple)) else json.dumps(key, sort_keys=True, ensure_ascii=False))
        if sample is not None and len(self.samples) < 8:
            self.samples.append(sample)

    def violation(self, what, replay, found_input=True):
        """Record a violation; writes the replay file and prints the VIOLATION line."""
        ensure_dirs()
        self._nrep += 1
        path = os.path.join(REPLAYS, "%s-%d-%d.json" % (self.pid, os.getpid(), self._nrep))
        obj = {"property": self.pid, "what": what, "found_failing_input": found_input}
        obj.update(replay)
        with open(path, "w", encoding="utf-8") as f:
            json.dump(obj, f, ensure_ascii=False, indent=1)
        self.violations.append(path)
        line = "VIOLATION property=%s replay=%s" % (self.pid, path)
        if not found_input:
            line += " no-failing-input-found"
        print(line, flush=True)
        log("  -> " + what)

    def known(self, what):
        """one KNOWN-FINDING line per listed finding (the id is the text before the first ':'); further hits are counted"""
        kid = what.split(":")[0]
        self.extra.setdefault("known_finding_hits", {})
        self.extra["known_finding_hits"][kid] = self.extra["known_finding_hits"].get(kid, 0) + 1
        if kid not in [k.split(":")[0] for k in self.known_hits]:
            self.known_hits.append(what)
            print("KNOWN-FINDING: property=%s %s" % (self.pid, what), flush=True)

    def write_evidence(self, level="proof"):
        ensure_dirs()
        cov = {
            "obligations": self.obligations,
            "discharged": self.discharged,
            "checker_cmd": self.checker_cmd or "make -C /verif/coq (coq_makefile; coqc 8.16.1 full .vo build)",
            "trusted_base": self.trusted,
            "obligation_names": self.obligation_names,
            "evaluations": self.evaluations,
            "distinct_nontrivial": len(self.distinct),
            "rule": self.rule,
            "samples": self.samples,
            "known_findings_hit": self.known_hits,
        }
        if self.exhaustive is not None:
            cov["exhaustive"] = self.exhaustive
        cov.update(self.extra)
        ev = {
            "property_id": self.pid,
            "tier": self.tier,
            "seed": self.seed,
            "level": level,
            "coverage": cov,
            "assumptions": self.assumptions,
            "wall_s": round(time.time() - self.t0, 2),
            "violations": len(self.violations),
        }
        with open(os.path.join(EVIDENCE, self.pid + ".json"), "w", encoding="utf-8") as f:
            json.dump(ev, f, ensure_ascii=False, indent=1)

    def exit_code(self):
        return 1 if self.violations else 0


def translate(res, key, desc, thunk):
    """Run a source-to-Coq translator (its parsing half).  When the source no longer has the shape the translator
    reads (GenError) the tie is broken, not the machinery: the translation of the last recognised source
    (_build/cache/translators, else the committed snapshot corpus/translators made by tools/snapshot_translators.py)
    is returned instead, so the model of the last recognised source is compared with the code as it is now and the
    search runs; the driver reports the broken translator with no-failing-input-found only when nothing was found."""
    import pickle
    cache = os.path.join(BUILD, "cache", "translators", key + ".pkl")
    try:
        out = thunk()
        os.makedirs(os.path.dirname(cache), exist_ok=True)
        blob = pickle.dumps(out, protocol=4)
        if not os.path.exists(cache) or open(cache, "rb").read() != blob:
            with open(cache, "wb") as f:
                f.write(blob)
        return out
    except Exception as ex:
        if type(ex).__name__ != "GenError":
            raise
        log("translator %s (%s): %s" % (key, desc, ex))
        if res is not None:
            res.extra.setdefault("broken_translator", []).append({"translator": "%s (%s)" % (key, desc), "error": str(ex)})
        for pth in (cache, os.path.join(VERIF, "corpus", "translators", key + ".pkl")):
            if os.path.exists(pth):
                with open(pth, "rb") as f:
                    return pickle.load(f)
        raise


def check_proofs(res, pid, targets, props_file, search=None, timeout=1500):
    """Standard proof step of a check: hygiene grep, build per-property targets (Props file forced),
    Print Assumptions allow-list.  On failure calls `search(log)` which should look for a concrete failing
    input and call res.violation itself; if it returns False, a no-failing-input-found violation is raised here.
    Returns True when all obligations are discharged."""
    names = pinned_theorems(os.path.join(COQ, props_file))
    res.obligation_names = names
    res.obligations = len(names)
    bad = hygiene()
    if bad:
        res.violation("hygiene: forbidden construct in the Coq development: " + "; ".join(bad[:5]),
                      {"broken": "hygiene", "details": bad}, found_input=False)
        return False
    ok, out = coq_make(targets, timeout=timeout, force=[props_file[:-2] + ".vo"])
    res.checker_cmd = "cd /verif/coq && coq_makefile -f _CoqProject -o Makefile && make -j16 " + " ".join(targets)
    logp = os.path.join(BUILD, "tmp", "coq-%s.log" % pid)
    with open(logp, "w", encoding="utf-8") as f:
        f.write(out)
    if not ok:
        m = re.search(r'File "([^"]+)", line (\d+)[^\n]*\n(Error:.*?)(?:\n\n|\nmake|\Z)', out, re.S)
        where = "%s:%s %s" % (m.group(1), m.group(2), m.group(3)[:600]) if m else out[-1500:]
        res.extra["broken_obligation"] = where
        found = search(out) if search else False
        if not found:
            res.violation("proof obligation no longer checks: " + where,
                          {"broken": "proof", "coq_error": where, "targets": targets}, found_input=False)
        return False
    blocks = parse_assumptions(out)
    axioms = sorted(set(a for b in blocks for a in b))
    res.extra["print_assumptions"] = {"blocks": len(blocks), "axioms": axioms}
    if len(blocks) < len(names):
        res.violation("Print Assumptions missing under some property theorem (%d blocks for %d theorems)" % (len(blocks), len(names)),
                      {"broken": "assumptions"}, found_input=False)
        return False
    notallowed = [a for a in axioms if a not in ALLOWED_AXIOMS]
    if notallowed:
        res.violation("property theorems depend on axioms not on the allow-list: " + ", ".join(notallowed),
                      {"broken": "assumptions", "axioms": notallowed}, found_input=False)
        return False
    res.discharged = len(names)
    return True


# ---------------------------------------------------------------------------------------
# Output canonicalisation helpers
# ---------------------------------------------------------------------------------------
_ID_RE = re.compile(r"\bM[0-9a-z]{7}-(\d+)")


def norm_ids(s):
    """generated ids have a random per-call prefix: rename to ID-<n>"""
    return _ID_RE.sub(r"ID-\1", s) if isinstance(s, str) else s


def norm_ids_deep(x):
    """norm_ids over every string inside a JSON-like structure"""
    if isinstance(x, str):
        return _ID_RE2.sub(r"ID-\1", x)
    if isinstance(x, list):
        return [norm_ids_deep(v) for v in x]
    if isinstance(x, dict):
        return {k: norm_ids_deep(v) for k, v in x.items()}
    return x


_ID_RE2 = re.compile(r"(?<![0-9A-Za-z])M[0-9a-z]{7}-(\d+)")


def outcome(x):
    """harness result -> ('ok', payload) | ('err', first line) | ('panic', msg)"""
    if "ok" in x:
        return ("ok", x["ok"])
    if "err" in x:
        return ("err", x["err"].splitlines()[0] if x["err"] else "")
    if "panic" in x:
        return ("panic", x["panic"])
    return ("other", json.dumps(x))


def parse_coq_nlist(log_text, after="="):
    """parse the first `= [a; b; ...]%N` (or `= []`) list of numbers printed by an Eval in a coqc log"""
    m = re.search(r"=\s*\[([^\]]*)\]", log_text)
    if not m:
        return None
    body = m.group(1).strip()
    if not body:
        return []
    return [int(re.sub(r"%N", "", t).strip()) for t in body.replace("\n", " ").split(";") if t.strip()]


def pref_options():
    """preference name -> the values Rules/prefs.yaml documents for it (its default and the capitalised words of its comment)"""
    out, stack = {}, []
    stop = {"Any", "Change", "FIX", "Auto", "Highlight", "Note", "See", "The", "Here", "Grade", "Guide", "Technical", "Material", "MathML", "Unicode", "AT"}
    for line in open(os.path.join(RULES, "prefs.yaml"), encoding="utf-8"):
        m = re.match(r"^(\s*)([A-Za-z_]+):\s*(.*?)\s*(#\s*(.*))?$", line.rstrip("\n"))
        if not m:
            continue
        ind, key, val, comment = len(m.group(1)), m.group(2), m.group(3), m.group(5) or ""
        while stack and stack[-1][0] >= ind:
            stack.pop()
        if val == "":
            stack.append((ind, key))
            continue
        name = "_".join([k for _, k in stack[1:]] + [key])
        words = [w for w in re.split(r"[,/()\s]+", comment.split(" -- ")[-1]) if re.match(r"^[A-Z][A-Za-z]+$", w) and w not in stop]
        out[name] = [val.strip("\"'")] + words[:8]
    return out
