"""C09 -- every node gets a unique id and author ids are kept.
Coq: theorems about add_ids for every tree (Props/C09.v); tie: the real add_ids (hook) on seeded trees vs the model
(Tie/C09Tie.v, kernel-checked).
Library oracle (search + support), through set_mathml: every element has an id, ids pairwise distinct, an author id
on a token stays on the element carrying that token's text, on a 2-D element on an element of the same kind;
ids handed out later (navigation, bookmarks, braille routing) are ids of the returned MathML."""
import json
import os
import random
import re
import sys

from . import common as C
from . import exprs as X

sys.path.insert(0, C.VERIF)
from gen import elemsets as G
from gen.coqfmt import HEADER, clist, cstr

ID_POOL = ["a", "b", "c", "x1", "n-2", "id"]
REAL_IDS = ["x", "A", "+", "mjx-eqn:2", "term(2)", "n#3", "\u00e9", "7", "a.b", "_"]      # ids as documents have them: one letter, punctuation, non-ASCII
CONTAINERS = ["mrow", "mfrac", "msup", "msub", "msqrt", "mrow", "mover"]
LEAVES = [("mi", "x"), ("mi", "y"), ("mn", "2"), ("mn", "13"), ("mo", "+"), ("mo", "="), ("mtext", "if")]
ARITY = {"mfrac": 2, "msup": 2, "msub": 2, "mover": 2, "msqrt": 1}


def gen_tree(rng, depth, idmode):
    """returns (xml, coq-term)"""
    def idattr():
        r = rng.random()
        p = {"none": 0.0, "some": 0.35, "all": 1.0, "dups": 0.6}[idmode]
        if r >= p:
            return None
        if idmode == "dups":
            return rng.choice(ID_POOL[:3])
        return None if False else "u%d" % rng.randint(0, 10 ** 6) if idmode in ("some", "all") and rng.random() < 0.8 else rng.choice(ID_POOL)

    def node(d):
        i = idattr()
        attrs = [("id", i)] if i is not None else []
        if rng.random() < 0.3:
            attrs.insert(0, ("class", "k")) if rng.random() < 0.5 else attrs.append(("mathvariant", "normal"))
        if d <= 0 or rng.random() < 0.3:
            tag, text = rng.choice(LEAVES)
            xml = "<%s%s>%s</%s>" % (tag, "".join(" %s='%s'" % kv for kv in attrs), text, tag)
            coq = "T %s [%s] [] %s" % (cstr(tag), "; ".join("(%s, %s)" % (cstr(k), cstr(v)) for k, v in attrs), cstr(text))
            return xml, coq
        tag = rng.choice(CONTAINERS)
        n = ARITY.get(tag, rng.randint(1, 4))
        kids = [node(d - 1) for _ in range(n)]
        xml = "<%s%s>%s</%s>" % (tag, "".join(" %s='%s'" % kv for kv in attrs), "".join(k[0] for k in kids), tag)
        coq = "T %s [%s] [%s] []" % (cstr(tag), "; ".join("(%s, %s)" % (cstr(k), cstr(v)) for k, v in attrs), "; ".join("(%s)" % k[1] for k in kids))
        return xml, coq
    i = idattr()
    attrs = [("id", i)] if i is not None else []
    k = node(depth)
    xml = "<math%s>%s</math>" % ("".join(" %s='%s'" % kv for kv in attrs), k[0])
    coq = "T %s [%s] [(%s)] []" % (cstr("math"), "; ".join("(%s, %s)" % (cstr(a), cstr(v)) for a, v in attrs), k[1])
    return xml, coq


def ids_in_order(mathml):
    return re.findall(r"<[A-Za-z][\w:-]*\b[^>]*?\bid='([^']*)'", mathml)


def idv_term(s):
    m = re.fullmatch(r"ID-(\d+)", s)
    return "Gen %s" % m.group(1) if m else "Auth %s" % cstr(s)


def generate(res):
    x = C.read(os.path.join(C.REPO, "src", "xpath_functions.rs"))
    sets = {"mathml_leaf_nodes": C.translate(res, "c09", "MATHML_LEAF_NODES of xpath_functions.rs", lambda: G.phf_str_set(x, "MATHML_LEAF_NODES"))}
    C.write_if_changed(os.path.join(C.GEN, "ElemSets.v"), G.render(sets))
    ok, log = C.build_harness()
    if not ok:
        raise RuntimeError("harness build failed: " + log)
    seed = res.seed if res else 1
    tier = res.tier if res else "quick"
    rng = random.Random(seed * 313 + 9)
    n = 300 if tier == "quick" else 3000
    trees = [gen_tree(rng, rng.randint(1, 4), rng.choice(["none", "some", "all", "dups", "dups"])) for _ in range(n)]
    r = C.one_session([["v_add_ids_only", t[0]] for t in trees])["res"]
    items, obs = [], []
    for (xml, coq), o in zip(trees, r):
        if "ok" not in o:
            obs.append((xml, None, o))
            continue
        ids = ids_in_order(C.norm_ids(o["ok"]))
        items.append("(%s, [%s])" % (coq, "; ".join(idv_term(i) for i in ids)))
        obs.append((xml, ids, o))
    body = HEADER + "From MC Require Import Lib.Tree Model.Ids.\n"
    body += "Definition observations : list (tree * list idv) := " + clist(items) + ".\n"
    C.write_if_changed(os.path.join(C.GEN, "C09Obs.v"), body)
    if res is not None:
        res.extra["gen_sources"] = [{"file": "src/xpath_functions.rs", "mathml_leaf_nodes": sets["mathml_leaf_nodes"]}]
        res.extra["tie_cases"] = len(items)
    return obs


def with_author_ids(body, rng, mode):
    """put author ids on tokens and 2-D elements of an expression; returns (xml, {id: (tag, text)})"""
    marks, used = {}, []

    def rep(m):
        tag, rest, close = m.group(1), m.group(2), m.group(3)
        if " id=" in rest:
            return m.group(0)
        p = {"some": 0.4, "all": 1.0, "dups": 0.5}[mode]
        if rng.random() >= p:
            return m.group(0)
        if mode == "dups" and used and rng.random() < 0.4:
            i = rng.choice(used)
        else:
            i = REAL_IDS[len(used)] if len(used) < len(REAL_IDS) and rng.random() < 0.5 else "au%d" % len(used)
            used.append(i)
        marks.setdefault(i, []).append(tag)
        return "<%s%s id='%s'%s" % (tag, rest, i, close)
    xml = re.sub(r"<(mi|mn|mtext|mfrac|msqrt|mroot|msup|msub|msubsup|munder|mover|munderover|mtable)\b([^>/]*)(>)", rep, body)
    return xml, marks


def wrapped_bodies(rng, n):
    """tokens and 2-D elements that are the ONLY child of one or two wrappers (mrow / mstyle / mpadded), wrappers and
    child all carrying author ids: the clean-up lifts the child, and the child's id is the one to keep"""
    out = []
    inner = ["<mi id='tok-%d'>%s</mi>", "<mn id='tok-%d'>%s7</mn>", "<mfrac id='tok-%d'><mi>%s</mi><mn>2</mn></mfrac>", "<msqrt id='tok-%d'><mi>%s</mi></msqrt>",
             "<msup id='tok-%d'><mi>%s</mi><mn>2</mn></msup>", "<mtext id='tok-%d'>%sq</mtext>"]
    for i in range(n):
        x = rng.choice(inner) % (i, rng.choice("abcuvw"))
        for j in range(rng.randint(1, 2)):
            w = rng.choice(["mrow", "mstyle", "mpadded", "mrow"])
            x = "<%s id='wrap-%d-%d'>%s</%s>" % (w, i, j, x, w)
        ctx = rng.choice(["%s", "<msqrt id='ctx-%d'>%%s</msqrt>" % i, "<mrow><mi>z</mi><mo>+</mo>%s</mrow>", "<mfrac><mn>1</mn>%s</mfrac>"])
        out.append(ctx % x)
    return out


SPLIT_TOKENS = [   # tokens the clean-up takes apart (sign, percent sign, unit): the author's id stays with the whole of the token's text
    "<mn id='n1'>-3</mn>", "<mrow><mi>x</mi><mo>=</mo><mn id='n2'>&#x2212;5</mn></mrow>", "<msup><mn id='n3'>-12</mn><mn>2</mn></msup>",
    "<mrow><mn id='n4'>50%</mn><mo>+</mo><mn id='n5'>+7</mn></mrow>", "<mfrac><mn id='n6'>-1</mn><mn id='n7'>2</mn></mfrac>",
    "<mrow><mn id='n8' class='c'>-4.5</mn><mo>&#xD7;</mo><mi id='n9'>k</mi></mrow>", "<mtable><mtr><mtd><mn id='n10'>-7</mn></mtd><mtd><mn id='n11'>8</mn></mtd></mtr></mtable>",
    "<msqrt><mn id='n12'>-2</mn></msqrt>",
    # a row that is left with one child (its white space goes into an attribute); scripts with an empty base gathered around a token
    "<mrow id='r1'><mi id='t1'>x</mi><mspace width='1em'/></mrow>", "<msqrt><mrow id='r2'><mfrac id='t2'><mi>a</mi><mi>b</mi></mfrac><mspace width='1em'/></mrow></msqrt>",
    "<mrow id='r3'><mo>(</mo><mi>x</mi><msup id='t3'><mo>)</mo><mn>2</mn></msup></mrow>", "<mrow><mi id='t4'>x</mi><msup><mrow/><mn>2</mn></msup></mrow>",
    "<mrow><msub id='t5'><mrow/><mn>6</mn></msub><mi id='t6'>C</mi><msup><mrow/><mn>2</mn></msup></mrow>", "<mrow><mtext>&#xA0;</mtext><mn id='t7'>12</mn></mrow>",
    # a wrapper with an id of its own around a token / 2-D element with an id: the wrapper goes, the inner id stays
    "<semantics id='r4'><mi id='t10'>x</mi><annotation encoding='application/x-tex'>x</annotation></semantics>",
    "<mrow><semantics id='r5'><mfrac id='t11'><mi>a</mi><mi>b</mi></mfrac><annotation-xml encoding='MathML-Content'><ci>q</ci></annotation-xml></semantics><mo>+</mo><mn id='t12'>1</mn></mrow>",
    "<mstyle id='r6' mathcolor='red'><mpadded id='r7'><msqrt id='t13'><mi>x</mi></msqrt></mpadded></mstyle>",
    "<maction id='r9' actiontype='tooltip'><mi id='t16'>x</mi><mtext>tip</mtext></maction>", "<menclose id='t18' notation='box'><mrow id='r10'><mi id='t19'>x</mi></mrow></menclose>",
    # literals of an intent value have no id: nothing to point a bookmark at
    "<msup intent='power($b,2)'><mi arg='b' id='t8'>x</mi><mn>2</mn></msup>", "<mrow intent='_(3,$a)'><mi arg='a' id='t9'>x</mi><mo>+</mo><mn>2</mn></mrow>", "<mrow><mo>(</mo><mn id='n13'>-6</mn><mo>,</mo><mn id='n14'>-9</mn><mo>)</mo></mrow>",
]


def norm_text(t):
    return re.sub(r"[\s\u00a0\u2062\u2061\u2063\u2064]", "", t).replace("\u2212", "-")


def api_oracle(res, rng):
    bodies = list(X.FIXED) + [X.gen(rng, 3) for _ in range(20 if res.tier == "quick" else 300)] + wrapped_bodies(rng, 12 if res.tier == "quick" else 120) + SPLIT_TOKENS
    sessions, meta = [], []
    hand_xmls = set()
    for b in bodies:
        for mode in ("some", "all", "dups"):
            xml, marks = with_author_ids(b, rng, mode)
            if b in SPLIT_TOKENS:
                hand_xmls.add(xml)
            ops = [["set_rules_dir", C.RULES], ["set_preference", "TTS", "SSML"], ["set_preference", "Bookmark", "true"],
                   ["set_mathml", X.math(xml)], ["get_spoken_text"], ["get_braille", ""]]
            for c in ("ZoomIn", "MoveNext", "MoveNext", "ZoomIn", "MoveLastLocation", "ZoomOutAll"):
                ops += [["do_navigate_command", c], ["get_navigation_mathml_id"]]
            for p in (0, 1, 2, 4, 7):
                ops.append(["get_navigation_node_from_braille_position", p])
            # what an AT does after cursor routing: put navigation on a leaf with a character offset, then keep navigating
            ops += [["v_set_nav_nth_leaf", rng.randint(0, 5), rng.choice([0, 1, 1, 2])], ["get_navigation_mathml_id"],
                    ["do_navigate_command", rng.choice(["MoveTo3", "MoveTo7", "MoveNext", "Read5"])], ["get_navigation_mathml_id"],
                    ["do_navigate_command", "MoveNext"], ["get_navigation_mathml_id"]]
            sessions.append({"id": len(sessions), "ops": ops})
            meta.append((xml, marks, mode))
    out = C.run_harness(sessions)
    nv = 0
    for (xml, marks, mode), r in zip(meta, out):
        rs = r.get("res", [])
        rep = {"kind": "expr", "mathml": X.math(xml), "mode": mode}
        if len(rs) < 4 or "ok" not in rs[3]:
            if len(rs) >= 4 and "panic" in rs[3]:
                res.violation("set_mathml panics: %s" % rs[3]["panic"], rep)
                nv += 1
            continue
        m = rs[3]["ok"]
        elems = re.findall(r"<([A-Za-z][\w:-]*)\b([^>]*)>", m)
        ids = [re.search(r"\bid='([^']*)'", a) for _, a in elems]
        res.add_case(("expr", mode, xml), nontrivial=bool(marks), sample={"mode": mode, "input": xml[:200]} if len(res.samples) < 4 and marks else None)
        if any(i is None for i in ids):
            res.violation("an element of the returned MathML has no id", dict(rep, returned=m))
            nv += 1
            continue
        idl = [i.group(1) for i in ids]
        if len(set(idl)) != len(idl):
            dup = sorted(set(i for i in idl if idl.count(i) > 1))
            res.violation("ids of the returned MathML are not distinct: %r" % dup, dict(rep, returned=m))
            nv += 1
        tag_of = {}
        for (tag, a), i in zip(elems, idl):
            tag_of.setdefault(i, tag)
        for aid, tags in marks.items():
            if len(tags) != 1:
                continue          # a duplicated author id: one of the elements must lose it
            t = tags[0]
            got = tag_of.get(aid)
            if got is None:
                # canonicalization may remove or merge the element; the id must then have moved to the element that
                # carries its content: accepted only for elements the clean-up is documented to restructure
                res.extra["author_ids_gone"] = res.extra.get("author_ids_gone", 0) + 1
                continue
            same_kind = (got == t) or ({got, t} <= {"mi", "mn", "mo", "mtext"}) or ({got, t} <= {"msup", "msub", "msubsup", "mmultiscripts"}) \
                or ({got, t} <= {"munder", "mover", "munderover", "msub", "msup", "msubsup"}) or ({got, t} <= {"msqrt", "mroot"}) or got == "mrow"
            if not same_kind:
                res.violation("author id %r moved from a <%s> to a <%s>" % (aid, t, got), dict(rep, returned=m))
                nv += 1
        # an author id on a token whose text is unique in the input: the element that carries that text in the result (if
        # one still does: tokens can be merged) carries the id
        for tag, attrs, text in re.findall(r"<(mi|mn|mtext)\b([^>]*)>([^<]+)</\1>", xml):
            mid = re.search(r"\bid='([^']*)'", attrs)
            if not mid or len(marks.get(mid.group(1), [mid.group(1)])) != 1 or xml.count(">%s<" % text) != 1:
                continue
            outs = re.findall(r"<(?:mi|mn|mtext|mo)\b([^>]*)>%s</" % re.escape(text), m)
            if len(outs) == 1 and not re.search(r"\bid='%s'" % re.escape(mid.group(1)), outs[0]):
                res.violation("the author id %r of the token %r is not on the element that carries it in the result (%s)"
                              % (mid.group(1), text, re.search(r"\bid='([^']*)'", outs[0]).group(0) if re.search(r"\bid='([^']*)'", outs[0]) else "no id"), dict(rep, returned=m))
                nv += 1
                break
        # the hand-written cases: every author id is still there, on an element of the same kind (a token taken apart: on the row of its parts)
        if xml in hand_xmls:
            for tag, aid in re.findall(r"<(\w+)\b[^>]*\bid='((?:n|t|r)\d+)'", xml):
                if xml.count("id='%s'" % aid) != 1:
                    continue
                got = tag_of.get(aid)
                if got is None or not (got == tag or (tag == "mn" and got == "mrow") or {got, tag} <= {"msup", "msub", "msubsup", "mmultiscripts"} or (tag == "mrow")):
                    if aid.startswith("r") and got is None:
                        continue        # a row / wrapper that is dissolved has no element left to carry its id
                    res.violation("the author id %r of a <%s> is %s in the returned MathML" % (aid, tag, "gone" if got is None else "on a <%s>" % got), dict(rep, returned=m))
                    nv += 1
                    break
        # ... and whatever element ends up with the author id of a plain token holds the whole of that token's text
        try:
            import xml.etree.ElementTree as ET
            root = ET.fromstring(m)
        except Exception:
            root = None
        if root is not None:
            by_id = {e.get("id"): e for e in root.iter()}
            for tag, attrs, text in re.findall(r"<(mi|mn|mtext)\b([^>]*)>([^<]+)</\1>", xml):
                mid = re.search(r"\bid='([^']*)'", attrs)
                text = text.replace("&#x2212;", "\u2212")
                if not mid or "mathvariant" in attrs or len(marks.get(mid.group(1), [mid.group(1)])) != 1 or xml.count("id='%s'" % mid.group(1)) != 1:
                    continue
                if not re.match(r"^[-+\u2212]?[0-9A-Za-z.,%]+$", text) or mid.group(1) not in by_id:
                    continue
                have = norm_text("".join(by_id[mid.group(1)].itertext()))
                if norm_text(text) not in have:
                    res.violation("the author id %r of the token %r is on an element that holds only %r" % (mid.group(1), text, have), dict(rep, returned=m))
                    nv += 1
                    break
        idset = set(idl)
        handed = []
        for x in rs[4:]:
            if "ok" not in x:
                continue
            v = x["ok"]
            if isinstance(v, str):
                handed += re.findall(r"<mark name='([^']*)'/>", v)
                if v.count("<mark name=") != len(re.findall(r"<mark name='([^']*)'/>", v)):
                    handed.append("(a bookmark that is not of the form <mark name='id'/>) " + v[v.find("<mark name="):][:60])
            elif isinstance(v, list) and v and isinstance(v[0], str) and not v[0].lstrip().startswith("<"):
                handed.append(v[0])
        bad = [h for h in handed if h not in idset]
        if bad:
            res.violation("the library handed out id(s) %r that are not in the returned MathML" % bad[:3], dict(rep, returned=m))
            nv += 1
        if nv >= 5:
            break
    return nv


def reuse_oracle(res, rng):
    """what an editor does: the MathML the library returned (generated ids and all) is edited -- new tokens appended or put
    in front, the content wrapped, some ids removed -- and set again, several times in one session.  Every id stays unique,
    and an id that was on a token with a unique text stays on that token."""
    bodies = list(X.FIXED[:10]) + [X.gen(rng, 2) for _ in range(6 if res.tier == "quick" else 80)]
    edits = [("append", "<mo>-</mo><mi>z</mi>"), ("prepend", "<mi>w</mi><mo>=</mo>"), ("wrap", "msqrt"), ("strip", "2"), ("strip", "3"),
             ("append", "<mfrac><mi>p</mi><mi>q</mi></mfrac>"), ("wrap", "mrow")]
    sessions, meta = [], []
    for b in bodies:
        steps = [rng.choice(edits) for _ in range(rng.randint(1, 3))]
        ops = [["set_rules_dir", C.RULES], ["set_mathml", X.math(b)]] + [["h_set_mathml_reusing_last", m, e] for m, e in steps]
        sessions.append({"id": len(sessions), "ops": ops})
        meta.append((b, steps))
    nv = 0
    for (b, steps), r in zip(meta, C.run_harness(sessions)):
        rs = r.get("res", [])
        if len(rs) < 2 or "ok" not in rs[1]:
            continue
        prev = rs[1]["ok"]
        for (mode, extra), x in zip(steps, rs[2:]):
            rep = {"kind": "reuse", "mathml": X.math(b), "steps": steps}
            res.add_case(("reuse", b, mode, extra), nontrivial=True)
            if "panic" in x:
                res.violation("setting the returned MathML again (edited: %s %s) panics: %s" % (mode, extra, x["panic"]), rep)
                nv += 1
                break
            if "ok" not in x:
                break
            edited, m = x["ok"]
            ids = re.findall(r"<[A-Za-z][\w:-]*\b[^>]*?\bid='([^']*)'", m)
            n_elems = len(re.findall(r"<[A-Za-z][\w:-]*\b", m))
            if len(ids) != n_elems:
                res.violation("an element of the MathML returned for the edited expression has no id", dict(rep, edited=edited, returned=m))
                nv += 1
                break
            if len(set(ids)) != len(ids):
                dup = sorted(set(i for i in ids if ids.count(i) > 1))
                res.violation("the ids of the MathML returned for an edited copy of the previous result are not distinct: %r (edit: %s %s)" % (dup[:3], mode, extra),
                              dict(rep, edited=edited, returned=m))
                nv += 1
                break
            # ids that the edited input carries on tokens with a unique text stay on those tokens
            moved = None
            for tag, attrs, text in re.findall(r"<(mi|mn|mtext)\b([^>]*)>([^<]+)</\1>", edited):
                mid = re.search(r"\bid='([^']*)'", attrs)
                if not mid or edited.count(">%s<" % text) != 1 or edited.count("id='%s'" % mid.group(1)) != 1:
                    continue
                outs = re.findall(r"<(?:mi|mn|mtext|mo)\b([^>]*)>%s</" % re.escape(text), m)
                if len(outs) == 1 and not re.search(r"\bid='%s'" % re.escape(mid.group(1)), outs[0]):
                    moved = (mid.group(1), text)
                    break
            if moved:
                res.violation("the id %r of the token %r in the edited expression is not on that token in the result (edit: %s %s)" % (moved[0], moved[1], mode, extra),
                              dict(rep, edited=edited, returned=m))
                nv += 1
                break
            prev = m
        if nv >= 3:
            break
    return nv


def same_again_oracle(res, rng):
    """the same expression set again (byte for byte) after navigation and place markers: every id the library hands out
    afterwards is an id of the MathML returned by the LAST set_mathml"""
    bodies = list(X.FIXED[:12]) + [X.gen(rng, 2) for _ in range(4 if res.tier == "quick" else 60)]
    sessions, meta = [], []
    for b in bodies:
        partial, _ = with_author_ids(b, rng, "some")
        for xml in (b, partial):
            m = X.math(xml)
            k = rng.randint(0, 9)
            ops = [["set_rules_dir", C.RULES], ["set_mathml", m], ["do_navigate_command", "ZoomIn"], ["do_navigate_command", rng.choice(["MoveNext", "ZoomIn", "MoveEnd"])],
                   ["do_navigate_command", "SetPlacemarker%d" % k], ["do_navigate_command", "MoveStart"], ["set_mathml", m]]
            for c in ("MoveTo%d" % k, "Read%d" % k, "MoveLastLocation", "MoveNext"):
                ops += [["do_navigate_command", c], ["get_navigation_mathml_id"]]
            ops += [["do_navigate_keypress", 48 + k, False, False, False, False], ["get_navigation_mathml_id"], ["get_navigation_mathml"]]
            sessions.append({"id": len(sessions), "ops": ops})
            meta.append((m, k))
    nv = 0
    for (m, k), r in zip(meta, C.run_harness(sessions)):
        rs = r.get("res") or []
        if len(rs) != len(sessions[0]["ops"]) and len(rs) < 8:
            continue
        if len(rs) < 8 or "ok" not in rs[6]:
            continue
        ids = set(re.findall(r"\bid='([^']*)'", rs[6]["ok"]))
        res.add_case(("same-again", m), nontrivial=True)
        for op, x in zip(sessions[0]["ops"][7:], rs[7:]):
            if "panic" in x:
                res.violation("after the same expression was set again: %s panics: %s" % (op, x["panic"]), {"kind": "same-again", "mathml": m, "marker": k})
                nv += 1
                break
            if op[0] == "get_navigation_mathml_id" and "ok" in x and x["ok"][0] not in ids:
                res.violation("after the same expression was set again, navigation hands out the id %r, which is not in the MathML returned last" % x["ok"][0],
                              {"kind": "same-again", "mathml": m, "marker": k, "observed": x["ok"]})
                nv += 1
                break
            if op[0] == "get_navigation_mathml_id" and "err" in x and "not found" in x["err"]:
                res.violation("after the same expression was set again, the navigation position is an id that is not in the expression: %s" % x["err"][:120],
                              {"kind": "same-again", "mathml": m, "marker": k, "observed": x})
                nv += 1
                break
        if nv >= 3:
            break
    return nv


def run(res):
    res.rule = ("tie: seeded trees (depth 1-4) with no / some / all / duplicated author ids through the real add_ids; oracle: fixed + seeded "
                "textbook expressions with author ids (some / all / duplicated) on tokens and 2-D elements through set_mathml, then SSML "
                "bookmarks, navigation ids and braille routing ids; the returned MathML edited (tokens appended / put in front, content wrapped, "
                "ids removed) and set again 1-3 times in the same session; non-trivial = expressions that carry at least one author id")
    rng = random.Random(res.seed * 1009 + 9)
    obs = generate(res)
    for xml, ids, o in obs:
        res.add_case(("tree", xml), nontrivial=(ids is not None and len(set(ids)) > 1))
        if ids is None and "panic" in o:
            res.violation("add_ids panics: %s" % o["panic"], {"kind": "tree", "mathml": xml})

    def on_broken(log):
        n = 0
        for xml, ids, o in obs:
            if ids is not None and len(set(ids)) != len(ids):
                res.violation("add_ids returns duplicate ids %r" % sorted(set(i for i in ids if ids.count(i) > 1)), {"kind": "tree", "mathml": xml, "ids": ids})
                n += 1
                if n >= 3:
                    break
        n += api_oracle(res, rng)
        n += reuse_oracle(res, rng)
        n += same_again_oracle(res, rng)
        return n > 0
    proved = C.check_proofs(res, "C09", ["Props/C09.vo", "Tie/C09Tie.vo"], "Props/C09.v", search=on_broken)
    if proved:
        api_oracle(res, rng)
        reuse_oracle(res, rng)
        same_again_oracle(res, rng)
    res.trusted += ["a generated id (M + 3 time + 4 random base-36 characters + '-' + n) never equals an author id (different constructors in the model)"]
    res.assumptions += ["that canonicalization keeps an author id on the element carrying the token's text is exercised through set_mathml, not proved (needs the C01 model)",
                        "ids handed out by navigation / bookmarks / routing are checked on the library here and covered by the C11 invariant, the C13 and C20 oracles"]


def replay(path):
    rep = json.load(open(path, encoding="utf-8"))
    ok, log = C.build_harness()
    if not ok:
        print("harness build failed", log)
        return 2
    if rep.get("kind") == "same-again":
        k = rep["marker"]
        r = C.one_session([["set_mathml", rep["mathml"]], ["do_navigate_command", "ZoomIn"], ["do_navigate_command", "SetPlacemarker%d" % k], ["set_mathml", rep["mathml"]],
                           ["do_navigate_command", "MoveTo%d" % k], ["get_navigation_mathml_id"]])["res"]
        print(str(r[-2:])[:600])
        ids = set(re.findall(r"\bid='([^']*)'", r[3].get("ok", "")))
        return 1 if "panic" in r[-1] or "err" in r[-1] or ("ok" in r[-1] and r[-1]["ok"][0] not in ids) else 0
    if rep.get("kind") == "reuse":
        r = C.one_session([["set_mathml", rep["mathml"]]] + [["h_set_mathml_reusing_last", m, e] for m, e in rep["steps"]])["res"]
        bad = 0
        for x in r[1:]:
            print(str(x)[:600])
            if "panic" in x:
                bad = 1
            elif "ok" in x:
                ids = re.findall(r"\bid='([^']*)'", x["ok"][1])
                bad = bad or int(len(set(ids)) != len(ids))
        return bad
    op = "v_add_ids_only" if rep.get("kind") == "tree" else "set_mathml"
    if rep.get("kind") not in ("tree", "expr"):
        print("replay names a broken obligation, not an input:", rep.get("what"))
        return 1
    r = C.one_session([[op, rep["mathml"]]])["res"][0]
    print(r)
    if "ok" not in r:
        return 1
    ids = ids_in_order(r["ok"])
    return 1 if len(set(ids)) != len(ids) else 0
