"""Rule engine tie (used by C04, shared by C15): the rule files as the engine builds them (harness op h_rules_tast: a
second implementation of Replacement::build / TestArray::build / SpeechPattern::build / UnicodeDef::build on the YAML
text), the trace of the real engine (hook speech::verif::ev) and the data of Tie/RuleEvalTie.v:

  * every application of a rule or of a Unicode replacement seen in the trace: (its AST, the outcomes of the conditions
    and inserts in the order the engine evaluated them, the items the engine dispatched) -- the Coq evaluator
    Model/RuleAst.tr_items must produce exactly these events and use up exactly these outcomes;
  * every call of match_pattern seen in the trace: (rule set, tag, the rules tried in order, whether one matched) --
    the tried rules must be the first candidates of the Coq rule table Model/RuleTable (built from the files in load
    order, includes in place, a redefinition replacing the earlier rule where it stands), all of them when none matched.
"""
import os
import re

from . import common as C
from gen.coqfmt import HEADER, clist, cstr

EV = {"I T": 1, "I X": 2, "I S": 3, "I N": 4, "I ?": 5, "I W": 6, "I V": 7, "I +": 8, "I L": 9, "c": 20, "y": 21}
ROOTS = {"Intent": "intent.yaml", "Navigation": "navigate.yaml", "OverView": "overview.yaml"}


# ------------------------------------------------------------------------------------------------- ASTs as Coq terms
class Lits:
    """the table of literals of a tie: the stored text of a t / ct / ot item -> its number (0: not numbered)"""

    def __init__(self):
        self.ids = {}

    def of(self, text):
        if text not in self.ids:
            self.ids[text] = len(self.ids) + 1
        return self.ids[text]


def ast_term(items, lits=None):
    """a replacement (JSON of h_rules_tast) as a Coq term of Model/RuleAst.v"""
    def item(x):
        k = x["k"]
        if k == "T":
            return "(IText %s %d)" % ("true" if x["ne"] else "false", lits.of(x.get("text", "")) if lits is not None else 0)
        if k == "X":
            return "X"
        if k == "S":
            return "(ITts %s %s)" % ("true" if x["cmd"] in ("spell", "pronounce") else "false", lst(x["body"]))
        if k == "N":
            return "(IIntent %s)" % lst(x["body"])
        if k == "?":
            return "(ITest %s)" % entries(x["entries"])
        if k == "W":
            return "(IWith %s)" % lst(x["body"])
        if k == "V":
            return "V"
        if k == "+":
            return "(IInsert %s)" % lst(x["body"])
        if k == "L":
            return "ITranslate"
        return "IBad"

    def part(p):
        if p is None:
            return "PNone"
        if "r" in p:
            return "(PRepl %s)" % lst(p["r"])
        return "(PTest %s)" % entries(p["t"])

    def entries(es):
        out = "ENil"
        for e in reversed(es):
            out = "(ECons %s %s %s %s)" % ("true" if e["cond"] else "false", part(e["then"]), part(e["else"]), out)
        return out

    def lst(l):
        out = "INil"
        for x in reversed(l):
            out = "(ICons %s %s)" % (item(x), out)
        return out
    return lst(items)


def substitute_ch(ast, ch):
    """UnicodeDef::build for a key that names several characters: every '.' of every string becomes the character"""
    if isinstance(ast, list):
        return [substitute_ch(x, ch) for x in ast]
    if isinstance(ast, dict):
        return {k: (v.replace(".", ch) if k == "text" and isinstance(v, str) else substitute_ch(v, ch)) for k, v in ast.items()}
    return ast


AST_NOTATIONS = "Notation X := IX.\nNotation V := ISetVars.\n"


def entry_codes(e):
    """the code points a Unicode entry defines (UnicodeDef::build: a number, one character, a range a-z, or several characters)"""
    if "code" in e:
        return [int(e["code"])]
    k = e.get("char") or ""
    if not k:
        return []
    if len(k) == 1:
        return [ord(k)]
    if "-" in k:
        parts = k.split("-")
        if len(parts) == 2 and parts[0] and parts[1]:
            return list(range(ord(parts[0][0]), ord(parts[1][0]) + 1))
        return []
    if k[0] != "0":
        return [ord(c) for c in k]
    return []


# ------------------------------------------------------------------------------------------------- loading rule files
_cache = {}


def dump(path):
    path = os.path.realpath(path)
    if path not in _cache:
        r = C.one_session([["h_rules_tast", path]])["res"][0]
        if "ok" not in r:
            raise RuntimeError("cannot read %s: %r" % (path, r))
        _cache[path] = r["ok"]
    return _cache[path]


def load_rules(root, seen=None):
    """the rules in the order the engine files them: [{file, name, tags, ast}] (includes expanded in place)"""
    out = []
    for e in dump(root):
        if "include" in e:
            out += load_rules(os.path.realpath(os.path.join(os.path.dirname(os.path.realpath(root)), e["include"])))
        elif "name" in e:
            out.append({"file": root, "name": e["name"], "tags": e["tag"], "ast": e["replace"], "match": e["match"]})
    return out


def load_unicode(root):
    """code point -> AST (a later definition replaces an earlier one)"""
    tab = {}
    for e in dump(root):
        if "include" in e:
            tab.update(load_unicode(os.path.realpath(os.path.join(os.path.dirname(os.path.realpath(root)), e["include"]))))
        elif "replace" in e and "name" not in e:
            codes = entry_codes(e)
            for c in codes:
                tab[c] = substitute_ch(e["replace"], chr(c)) if len(e.get("char") or "") > 1 else e["replace"]
    return tab


# ------------------------------------------------------------------------------------------------- the trace
def parse_log(log):
    """(applications, matches) or None when the trace is not well bracketed (an error unwound the engine).
    application = (key, events, outcomes): key = ('R', file, name, tag) | ('U', code, rules)
    match = (rules, tag, [(file, name, tag)], hit)"""
    apps, matches, stack = [], [], []
    for line in log:
        if line.startswith("P "):
            _, rules, tag = line.split(" ", 2)
            stack.append({"k": "P", "rules": rules, "tag": tag, "tried": [], "hit": False})
        elif line.startswith("T "):
            if not stack or stack[-1]["k"] != "P":
                return None
            stack[-1]["tried"].append(tuple(line[2:].split("|")))
        elif line.startswith("H "):
            if not stack or stack[-1]["k"] != "P" or not stack[-1]["tried"]:
                return None
            stack[-1]["hit"] = True
            stack.append({"k": "A", "key": ("R",) + stack[-1]["tried"][-1], "ev": [], "kids": int(line[2:])})
        elif line == "R-":
            if len(stack) < 2 or stack[-1]["k"] != "A" or stack[-1]["key"][0] != "R":
                return None
            a = stack.pop()
            apps.append(a)
            p = stack.pop()
            matches.append((p["rules"], p["tag"], p["tried"], True))
        elif line.startswith("U+ "):
            _, code, rules = line.split(" ", 2)
            stack.append({"k": "A", "key": ("U", int(code), rules), "ev": []})
        elif line == "U-":
            if not stack or stack[-1]["k"] != "A" or stack[-1]["key"][0] != "U":
                return None
            apps.append(stack.pop())
        else:
            if not stack or stack[-1]["k"] != "A":
                return None
            if line.startswith("n "):
                stack[-1]["ev"].append(100 + int(line[2:]))
            elif line.startswith("I T"):
                stack[-1]["ev"] += [1, ("lit", line[3:])]
            elif line in EV:
                stack[-1]["ev"].append(EV[line])
            else:
                return None
    if stack:
        return None
    out = []
    for a in apps:
        ev = a["ev"]
        outcomes = []
        for i, e in enumerate(ev):
            if e == 20:
                outcomes.append(1 if i + 1 < len(ev) and ev[i + 1] == 21 else 0)
            elif e == 8:
                outcomes.append(ev[i + 1] - 100 if i + 1 < len(ev) and isinstance(ev[i + 1], int) and ev[i + 1] >= 100 else 0)
        out.append((a["key"], ev, outcomes))
    return out, matches


def trace_sessions(sessions):
    """sessions: list of op lists (without the trace ops).  Returns the list of logs (one per session, [] on failure)."""
    ss = [{"id": i, "ops": [["v_trace_eval", True]] + ops + [["v_take_eval_log"], ["v_trace_eval", False]]} for i, ops in enumerate(sessions)]
    logs = []
    for r in C.run_harness(ss):
        rs = r.get("res") or []
        logs.append(rs[-2].get("ok", []) if len(rs) >= 2 and isinstance(rs[-2], dict) else [])
    return logs


# ------------------------------------------------------------------------------------------------- rule sets
class RuleSets:
    """the rule tables of the configurations seen in a trace: one per (rule set name, root file)"""

    def __init__(self):
        self.tables = {}        # root -> list of (name, tag, id) in load order (one per rule and tag)
        self.rules = {}         # root -> list of rule dicts
        self.order = []

    def table(self, root):
        root = os.path.realpath(root)
        if root not in self.tables:
            rules = load_rules(root)
            flat = []
            for i, r in enumerate(rules):
                for t in r["tags"]:
                    flat.append((r["name"], t, i))
            self.tables[root] = flat
            self.rules[root] = rules
            self.order.append(root)
        return self.tables[root]

    def rule_id(self, root, file, name, tag):
        """the id of the rule in force for (file, name, tag): the last one read with that file, name and tag"""
        root = os.path.realpath(root)
        self.table(root)
        best = None
        for i, r in enumerate(self.rules[root]):
            if r["name"] == name and tag in r["tags"] and os.path.realpath(r["file"]) == os.path.realpath(file):
                best = i
        return best


def root_of(rules_name, prefs):
    """the root rule file of a rule set under the given preferences (Language, SpeechStyle, BrailleCode)"""
    lang = os.path.join(C.RULES, "Languages", *prefs.get("Language", "en").split("-"))
    if rules_name == "Intent":
        return os.path.join(C.RULES, "intent.yaml")
    if rules_name == "Speech":
        return os.path.join(lang, prefs.get("SpeechStyle", "ClearSpeak") + "_Rules.yaml")
    if rules_name == "Navigation":
        return os.path.join(lang, "navigate.yaml")
    if rules_name == "OverView":
        return os.path.join(lang, "overview.yaml")
    if rules_name == "Braille":
        code = prefs.get("BrailleCode", "Nemeth")
        return os.path.join(C.RULES, "Braille", code, code + "_Rules.yaml")
    raise ValueError(rules_name)


def unicode_of(rules_name, prefs):
    if rules_name == "Braille":
        d = os.path.join(C.RULES, "Braille", prefs.get("BrailleCode", "Nemeth"))
    else:
        d = os.path.join(C.RULES, "Languages", *prefs.get("Language", "en").split("-"))
    return os.path.join(d, "unicode.yaml"), os.path.join(d, "unicode-full.yaml")


# ------------------------------------------------------------------------------------------------- Gen/RuleEvalObs.v
TIE_CONFIGS = [
    {"Language": "en", "SpeechStyle": "ClearSpeak", "Verbosity": "Verbose", "BrailleCode": "Nemeth"},
    {"Language": "en", "SpeechStyle": "SimpleSpeak", "Verbosity": "Terse", "BrailleCode": "UEB"},
    {"Language": "es", "SpeechStyle": "ClearSpeak", "Verbosity": "Medium", "BrailleCode": "CMU"},
    {"Language": "fi", "SpeechStyle": "SimpleSpeak", "Verbosity": "Verbose", "BrailleCode": "Vietnam"},
    {"Language": "sv", "SpeechStyle": "ClearSpeak", "Verbosity": "Terse", "BrailleCode": "Swedish"},
    {"Language": "vi", "SpeechStyle": "ClearSpeak", "Verbosity": "Medium", "BrailleCode": "ASCIIMath"},
    {"Language": "id", "SpeechStyle": "SimpleSpeak", "Verbosity": "Medium", "BrailleCode": "LaTeX"},
    # regional variants: their Unicode file includes the language's and redefines some characters
    {"Language": "en-gb", "SpeechStyle": "ClearSpeak", "Verbosity": "Medium", "BrailleCode": "UEB"},
    {"Language": "en-gb", "SpeechStyle": "SimpleSpeak", "Verbosity": "Terse", "BrailleCode": "Nemeth"},
]
REGIONAL_BODIES = ["<mrow><mo>(</mo><mi>x</mi><mo>+</mo><mn>1</mn><mo>)</mo><mo>[</mo><mi>y</mi><mo>]</mo><mo>{</mo><mi>z</mi><mo>}</mo></mrow>",
                   "<mrow><mi>f</mi><mo>&#x2061;</mo><mrow><mo>(</mo><mi>x</mi><mo>)</mo></mrow><mo>=</mo><mo>{</mo><mn>1</mn><mo>,</mo><mn>2</mn><mo>}</mo></mrow>"]
FILE_KEYS = {"Intent": "intent", "Speech": "speech", "OverView": "overview", "Navigation": "navigation", "Braille": "braille"}


def tie_ops(cfg, bodies):
    from . import exprs as X
    ops = [["set_rules_dir", C.RULES]] + [["set_preference", k, v] for k, v in cfg.items()]
    for b in bodies:
        ops += [["set_mathml", X.math(b)], ["get_spoken_text"], ["get_braille", ""], ["get_overview_text"],
                ["do_navigate_command", "ZoomIn"], ["do_navigate_command", "MoveNext"], ["do_navigate_command", "DescribeCurrent"]]
    return ops + [["v_prefs_files"]]


def generate(res, bodies, configs=None, max_eval=6000, max_match=6000):
    """run the bodies under the tie configurations with the trace on; write Gen/RuleEvalObs.v; returns statistics and
    the disagreements python can already see (an application whose rule / character is not in the files as loaded)"""
    configs = configs or TIE_CONFIGS
    bodies = list(bodies) + REGIONAL_BODIES
    ss = [{"id": i, "ops": [["v_trace_eval", True]] + tie_ops(cfg, bodies) + [["v_take_eval_log"], ["v_trace_eval", False]]} for i, cfg in enumerate(configs)]
    runs = []
    for r in C.run_harness(ss):
        rs = r.get("res") or []
        ok = len(rs) >= 3 and isinstance(rs[-2], dict) and "ok" in rs[-2] and "ok" in rs[-3]
        runs.append((rs[-2]["ok"], dict((k, v) for k, v in rs[-3]["ok"])) if ok else ([], {}))
    sets = RuleSets()
    lits = Lits()
    eval_obs, match_obs = {}, {}
    stats = {"sessions": len(configs), "events": 0, "unparsed": 0, "applications": 0, "matches": 0, "unknown_rule": 0, "unknown_char": 0,
             "with_test": 0, "with_insert": 0, "with_literal": 0, "no_hit": 0}
    missing = []
    uni = {}
    for cfg, (log, files) in zip(configs, runs):
        stats["events"] += len(log)
        parsed = parse_log(log)
        if parsed is None or not files:
            stats["unparsed"] += 1
            continue
        apps, matches = parsed
        roots = {rs: files.get(k) for rs, k in FILE_KEYS.items()}
        for key, ev, outcomes in apps:
            stats["applications"] += 1
            if key[0] == "R":
                _, f, name, tag = key
                ast = None
                for rs, root in roots.items():
                    if not root or not os.path.exists(root):
                        continue
                    rid = sets.rule_id(root, f, name, tag)
                    if rid is not None:
                        ast = sets.rules[os.path.realpath(root)][rid]["ast"]
                        break
                if ast is None:
                    stats["unknown_rule"] += 1
                    missing.append({"rule": [f, name, tag], "config": cfg})
                    continue
            else:
                _, code, rules = key
                pre = "braille" if rules == "Braille" else "speech"
                short, full = files.get(pre + "_unicode"), files.get(pre + "_unicode_full")
                for p in (short, full):
                    if p and p not in uni:
                        uni[p] = load_unicode(p) if os.path.exists(p) else {}
                ast = uni.get(short, {}).get(code)
                if ast is None:
                    ast = uni.get(full, {}).get(code)
                if ast is None:
                    stats["unknown_char"] += 1
                    missing.append({"char": code, "rules": rules, "config": cfg})
                    continue
            t = ast_term(ast, lits)
            ev = tuple((1000000 + lits.of(e[1])) if isinstance(e, tuple) else e for e in ev)
            if 20 in ev:
                stats["with_test"] += 1
            if 8 in ev:
                stats["with_insert"] += 1
            if any(e >= 1000000 for e in ev):
                stats["with_literal"] += 1
            k = (t, tuple(outcomes), ev)
            if k not in eval_obs:
                eval_obs[k] = (key, cfg)
        for rules, tag, tried, hit in matches:
            stats["matches"] += 1
            if not hit:
                stats["no_hit"] += 1
            root = roots.get(rules)
            if not root:
                continue
            root = os.path.realpath(root)
            sets.table(root)
            ids = []
            for f, name, tg in tried:
                rid = sets.rule_id(root, f, name, tg)
                ids.append(rid if rid is not None else 999999)
            k = (root, tag, tuple(ids), hit)
            if k not in match_obs:
                match_obs[k] = cfg
    # deterministic selection
    ev_items = sorted(eval_obs.keys(), key=lambda k: (len(k[2]), k))
    if len(ev_items) > max_eval:
        step = len(ev_items) / float(max_eval)
        ev_items = [ev_items[int(i * step)] for i in range(max_eval)]
    m_items = sorted(match_obs.keys())
    if len(m_items) > max_match:
        step = len(m_items) / float(max_match)
        m_items = [m_items[int(i * step)] for i in range(max_match)]
    ast_ids = {}
    for t, _, _ in ev_items:
        if t not in ast_ids:
            ast_ids[t] = len(ast_ids)
    roots = sets.order
    body = HEADER + "From MC Require Import Lib.Base Model.RuleAst Model.RuleTable.\n" + AST_NOTATIONS
    for t, i in sorted(ast_ids.items(), key=lambda kv: kv[1]):
        body += "Definition ra%d : items := %s.\n" % (i, t)
    body += "Definition eval_obs : list (items * list N * list N) := " + clist(
        "(ra%d, [%s], [%s])" % (ast_ids[t], "; ".join(map(str, o)), "; ".join(map(str, e))) for t, o, e in ev_items) + ".\n"
    for i, root in enumerate(roots):
        body += "Definition rules%d : list rule := %s.\n" % (i, clist("Build_rule %s %s %d" % (cstr(n), cstr(t), rid) for n, t, rid in sets.tables[root]))
    body += "Definition rule_sets : list (list rule) := [" + "; ".join("rules%d" % i for i in range(len(roots))) + "].\n"
    body += "Definition match_obs : list (N * str * list N * bool) := " + clist(
        "(%d, %s, [%s], %s)" % (roots.index(r), cstr(tag), "; ".join(map(str, ids)), "true" if hit else "false") for r, tag, ids, hit in m_items) + ".\n"
    C.write_if_changed(os.path.join(C.GEN, "RuleEvalObs.v"), body)
    stats.update({"eval_cases": len(ev_items), "distinct_asts": len(ast_ids), "match_cases": len(m_items), "literals": len(lits.ids),
                  "rule_sets": [os.path.relpath(r, C.RULES) for r in roots], "rules_per_set": [len(sets.tables[r]) for r in roots]})
    return stats, missing, ev_items, m_items, eval_obs, match_obs, roots


# ------------------------------------------------------------------------------------------------- Gen/RuleSets.v
def shipped_roots():
    import glob
    roots = [os.path.join(C.RULES, "intent.yaml")]
    for d in sorted(glob.glob(os.path.join(C.RULES, "Languages", "*"))):
        for sub in [d] + sorted(x for x in glob.glob(os.path.join(d, "*")) if os.path.isdir(x) and os.path.basename(x) != "SharedRules"):
            for f in ("ClearSpeak_Rules.yaml", "SimpleSpeak_Rules.yaml", "overview.yaml"):
                if os.path.exists(os.path.join(sub, f)):
                    roots.append(os.path.join(sub, f))
    for d in sorted(glob.glob(os.path.join(C.RULES, "Braille", "*"))):
        f = os.path.join(d, os.path.basename(d) + "_Rules.yaml")
        if os.path.exists(f):
            roots.append(f)
    return roots


def gen_rule_sets():
    """Gen/RuleSets.v: every shipped intent / speech / overview / braille rule set as the list of its rules in load order
    (name, tag, id) with the ids of the rules whose match is "." (it holds for every element)"""
    sets = RuleSets()
    defs, items, sizes = [], [], {}
    for i, root in enumerate(shipped_roots()):
        tab = sets.table(root)
        rules = sets.rules[os.path.realpath(root)]
        dots = [j for j, r in enumerate(rules) if r["match"].strip() == "."]
        rel = os.path.relpath(root, C.RULES)
        defs.append("Definition rs%d : list rule := %s." % (i, clist("Build_rule %s %s %d" % (cstr(n), cstr(t), rid) for n, t, rid in tab)))
        items.append("(%s, rs%d, [%s])" % (cstr(rel), i, "; ".join(map(str, dots))))
        sizes[rel] = len(tab)
    body = HEADER + "From MC Require Import Lib.Base Model.RuleTable.\n" + "\n".join(defs) + \
        "\nDefinition shipped_rule_sets : list (str * list rule * list N) := " + clist(items) + ".\n"
    C.write_if_changed(os.path.join(C.GEN, "RuleSets.v"), body)
    return sizes
