"""C05 -- speech is clean, non-empty text in every language.
Coq: the final clean-up of speak_rules removes every concatenation / optional marker from ANY string and keeps every
other non-blank character in order (Props/C05.v); over ALL literal texts of every language's rule and Unicode files
(regenerated on every run through yaml-rust): no text contains a private-use code point, an invisible operator, the
navigation brackets or markup -- so no rule can put a marker into the speech.
Oracle (search + support): corpus x languages x styles x verbosity x capital / override preferences, speech, overview
and navigation speech: non-empty, no private-use code point, no [[ ]], no invisible operator, no markup with TTS=None."""
import json
import os
import random
import sys

from . import common as C
from . import exprs as X
from . import speechtexts as ST

sys.path.insert(0, C.VERIF)
from gen.coqfmt import HEADER, clist, cstr, comment


def generate(res):
    ok, log = C.build_harness()
    if not ok:
        raise RuntimeError("harness build failed: " + log)
    texts, files, bad = ST.texts()
    if bad:
        raise RuntimeError("rule files that yaml-rust cannot read: %r" % bad[:3])
    body = HEADER + comment("literal texts (t / ct / ot) of Rules/Languages/<lang>/**/*.yaml, through yaml-rust") + "\n"
    for lang, d in texts.items():
        allt = sorted(d["t"] | d["ct"] | d["ot"])
        # the alphabet of the language's texts (every code point that occurs in one) and the texts with a square bracket
        alphabet = sorted({ord(c) for t in allt for c in t})
        body += "Definition alphabet_%s : list N := [%s].\n" % (lang, "; ".join(str(c) for c in alphabet))
        body += "Definition bracket_texts_%s : list (list N) := %s.\n" % (lang, clist((cstr(t) for t in allt if "[" in t or "]" in t), per_line=4))
        body += "Definition ot_%s : list (list N) := %s.\n" % (lang, clist((cstr(t) for t in sorted(d["ot"])), per_line=6))
    body += "Definition speech_alphabets : list (list N) := [%s].\n" % "; ".join("alphabet_" + l for l in texts)
    body += "Definition speech_bracket_texts : list (list (list N)) := [%s].\n" % "; ".join("bracket_texts_" + l for l in texts)
    body += "Definition speech_ot : list (list (list N)) := [%s].\n" % "; ".join("ot_" + l for l in texts)
    C.write_if_changed(os.path.join(C.GEN, "SpeechTexts.v"), body)
    if res is not None:
        res.extra.setdefault("gen_sources", []).append({"files": len(files), "languages": {l: len(d["t"] | d["ct"] | d["ot"]) for l, d in texts.items()}})
    return texts


BAD_RANGES = [(0xE000, 0xF8FF), (0xF0000, 0x10FFFF), (0x2061, 0x2064)]
ODD_CHARS = ["&#x2A0C;", "&#x1D4D0;", "&#x29F4;", "&#x2B1A;", "&#xE000;", "&#x10FFFD;", "&#x0378;", "&#x2063;", "&#xFFFD;", "&#x1F600;", "&#x20D7;"]


def dirty(s):
    """what makes a speech string unclean, or None"""
    for ch in s:
        o = ord(ch)
        if any(a <= o <= b for a, b in BAD_RANGES):
            return "the code point U+%04X" % o
    if "[[" in s or "]]" in s:
        return "navigation brackets"
    if "<" in s or ">" in s:
        return "markup"
    return None


def configs(rng, tier):
    langs = ST.languages()
    out = []
    for lang in langs:
        for style in ("ClearSpeak", "SimpleSpeak"):
            for verb in ("Terse", "Medium", "Verbose"):
                out.append({"Language": lang, "SpeechStyle": style, "Verbosity": verb})
    # TTS: the engine is chosen case-insensitively ("None" is the spelling of the interface documentation), the rules compare
    # the raw value: both spellings must give plain text
    extra = [("TTS", "None"), ("TTS", "NONE"), ("TTS", "none"),
             ("CapitalLetters_UseWord", "false"), ("CapitalLetters_UseWord", "true"), ("SpeechOverrides_CapitalLetters", "cap"),
             ("CapitalLetters_Pitch", "20"), ("CapitalLetters_Beep", "true"), ("SubjectArea", "General"), ("MathRate", "80"), ("PauseFactor", "200"),
             ("Bookmark", "true"), ("Bookmark", "True"), ("Pitch", "10"), ("Volume", "50"), ("Impairment", "LearningDisability"), ("Impairment", "LowVision")]
    for c in out:
        k, v = rng.choice(extra)
        c[k] = v
    # the engine preference in its documented spelling, once per language
    for lang in langs:
        out.append({"Language": lang, "SpeechStyle": "ClearSpeak", "Verbosity": "Medium", "TTS": rng.choice(["None", "NONE"])})
    # every preference a speech engine would use, all at once, with no engine: still only words
    for lang in (langs if tier != "quick" else rng.sample(langs, 3) + ["en"]):
        out.append({"Language": lang, "SpeechStyle": rng.choice(["ClearSpeak", "SimpleSpeak"]), "Verbosity": "Medium", "Bookmark": "true", "CapitalLetters_Pitch": "30",
                    "CapitalLetters_Beep": "true", "MathRate": "120", "PauseFactor": "150", "Pitch": "5"})
    if tier == "quick":
        keep = [c for c in out if c["Verbosity"] == "Medium"]
        rest = [c for c in out if c["Verbosity"] != "Medium"]
        out = keep + rng.sample(rest, 6)
    return out


def oracle(res):
    rng = random.Random(res.seed * 577 + 5)
    bodies = list(X.FIXED) + [X.gen(rng, 3) for _ in range(12 if res.tier == "quick" else 150)]
    bodies += ["<mrow><mi>x</mi><mo>+</mo><mo>%s</mo><mi>%s</mi></mrow>" % (rng.choice(ODD_CHARS), rng.choice(ODD_CHARS)) for _ in range(6 if res.tier == "quick" else 40)]
    bodies += ["<mtext>a%sb</mtext>" % c for c in ("&#xF8FD;", "&#xF8FE;", "&#xF8FA;&#xF8FA;", "&#xE00A;")]
    # an expression that is a single token: each kind alone must be spoken
    bodies += ["<mi>x</mi>", "<mi>Q</mi>", "<mn>5</mn>", "<mo>+</mo>", "<mtext>if</mtext>", "<mi>&#x3B1;</mi>", "<mi mathvariant='bold'>v</mi>"]
    # invisible operators inside multi-character tokens, and leading an expression
    for inv in ("&#x2061;", "&#x2062;", "&#x2063;", "&#x2064;"):
        bodies += ["<mrow><mtext>1%s1/2 cups</mtext><mo>+</mo><mn>3%s12</mn></mrow>" % (inv, inv),
                   "<mrow><mo>%s</mo><mi>y</mi><mo>=</mo><mn>2</mn><mi>x</mi></mrow>" % inv,
                   "<mrow><mi>%s%s</mi><mo>+</mo><mi>ab%sc</mi></mrow>" % (inv, inv, inv)]
    # tokens that carry an intent property (units above all: a unit that is in no table is spoken from its own text, with a
    # plural ending), holding invisible operators, private-use characters, characters only the full table knows
    for prop in (":unit", ":literal", ":prefix", ":postfix", ":function", ":silent"):
        for text in ("q&#x2062;b", "&#xF000;", "x&#x2061;y", "&#x2135;", "k&#x2064;m", "&#x2A0C;"):
            bodies += ["<mrow><mn>2</mn><mi intent='%s'>%s</mi></mrow>" % (prop, text), "<mrow><mn>1</mn><mi intent='%s'>%s</mi><mo>+</mo><mn>3.5</mn><mi mathvariant='normal' intent='%s'>%s</mi></mrow>" % (prop, text, prop, text)]
    # author ids of every kind (the id is how navigation marks its node: an id that is empty, blank, odd or repeated marks nothing in plain speech)
    bodies += ["<mrow><mi id=''>x</mi><mo>+</mo><mn>1</mn></mrow>", "<mrow id=''><mfrac id=''><mn>1</mn><mi>x</mi></mfrac><mo id=' '>+</mo><mi>y</mi></mrow>",
               "<mrow id='a'><mi id='a'>x</mi><mo id='a'>-</mo><msup id=''><mi id='[[x]]'>y</mi><mn id='0'>2</mn></msup></mrow>",
               "<msqrt id=''><mrow><mi id=''>a</mi><mo>+</mo><mi id=''>b</mi></mrow></msqrt>"]
    found = 0
    sessions = []
    cfgs = configs(rng, res.tier)
    for i, cfg in enumerate(cfgs):
        ops = [["set_rules_dir", C.RULES], ["set_preference", "TTS", "None"]] + [["set_preference", k, v] for k, v in cfg.items()]
        for b in bodies:
            ops += [["set_mathml", X.math(b)], ["get_spoken_text"], ["get_overview_text"], ["do_navigate_command", "ZoomIn"], ["do_navigate_command", "MoveNext"]]
        sessions.append({"id": i, "ops": ops})
    for cfg, r in zip(cfgs, C.run_harness(sessions)):
        if "res" not in r or not r["res"]:
            res.extra.setdefault("crashed_sessions", []).append(cfg)
            continue
        rr = r["res"][2 + len(cfg):]
        for j, b in enumerate(bodies):
            sm, sp, ov, n1, n2 = rr[5 * j:5 * j + 5]
            if "ok" not in sm:
                continue
            own = dirty(json.loads(json.dumps(b)))      # the input's own odd characters may be spoken as themselves
            for what, o in (("speech", sp), ("overview", ov), ("navigation speech", n1), ("navigation speech", n2)):
                if "panic" in o:
                    res.extra.setdefault("panics", []).append([cfg["Language"], b[:60], o["panic"][:80]])
                    continue
                if "ok" not in o:
                    if what == "speech":
                        res.extra.setdefault("speech_errors", []).append([cfg["Language"], b[:60], str(o.get("err", ""))[:100]])
                    continue
                s = o["ok"]
                res.add_case((cfg["Language"], cfg["SpeechStyle"], cfg["Verbosity"], what, b), len(b) > 80, "%s %s: %s" % (cfg["Language"], what, s[:40]))
                why = dirty(s)
                if what == "speech" and not s.strip():
                    why = "empty speech"
                own_private = why and why.startswith("the code point") and not (0x2061 <= int(why.split("U+")[1], 16) <= 0x2064) \
                    and ("&#x%s;" % why.split("U+")[1]).lower() in b.lower()
                if why and not own_private:
                    found += 1
                    res.violation("%s under %s has %s: %r for %s" % (what, cfg, why, s[:120], b[:120]),
                                  {"kind": "speech", "prefs": cfg, "mathml": X.math(b), "what": what, "why": why, "got": s})
                    if found >= 3:
                        return found
    return found


KF_GAP = "private-use-character-missing-from-a-translation"


def table_gap_oracle(res):
    """a character that every other language's Unicode tables define and one language's do not is spoken as itself there:
    for the private-use code points (Symbol-font pieces, the library's own markers) that is a marker character in the speech"""
    from . import ruleeval as RE
    base = os.path.join(C.RULES, "Languages")
    tabs = {}
    for l in ST.languages():
        d = os.path.join(base, *l.split("-"))
        t = set()
        for f in ("unicode.yaml", "unicode-full.yaml"):
            p = os.path.join(d, f)
            if os.path.exists(p):
                t |= set(RE.load_unicode(p))
        if t:
            tabs[l] = t
    found = 0
    for l, t in sorted(tabs.items()):
        others = [tabs[m] for m in tabs if m != l]
        if len(others) < 3:
            continue
        gaps = sorted(c for c in set.intersection(*others) if c not in t)
        res.extra.setdefault("unicode_table_gaps", {})[l] = len(gaps)
        gaps = [c for c in gaps if dirty(chr(c))] + [c for c in gaps if not dirty(chr(c))][:10]
        for c in gaps[:60]:
            r = C.one_session([["set_preference", "TTS", "None"], ["set_preference", "Language", l], ["set_mathml", "<math><mi>x</mi><mo>&#x%X;</mo><mi>y</mi></math>" % c], ["get_spoken_text"]])["res"]
            sp = r[3].get("ok")
            res.add_case(("table-gap", l, c), nontrivial=True)
            # a plain symbol spoken as itself is a gap of the translation, not a marker in the speech: only what C05 forbids is reported
            if sp is not None and dirty(sp):
                kf = next((k for k in C.known_findings("C05") if k["id"] == KF_GAP), None)
                if kf and ("0x%x" % c) in kf.get("gaps", {}).get(l, []):
                    res.known("%s: %s has no words for U+%04X" % (KF_GAP, l, c))
                    continue
                found += 1
                res.violation("%s: U+%04X has words in every other language's Unicode tables but not here: the speech of 'x %s y' is %r" % (l, c, chr(c), sp[:80]),
                              {"kind": "speech", "prefs": {"Language": l, "SpeechStyle": "ClearSpeak", "Verbosity": "Medium"},
                               "mathml": "<math><mi>x</mi><mo>&#x%X;</mo><mi>y</mi></math>" % c, "what": "speech", "why": "the character itself", "got": sp})
                if found >= 3:
                    return found
    return found


def run(res):
    res.rule = ("every language x {ClearSpeak, SimpleSpeak} x verbosity (quick: Medium + 6 sampled) with one capital-letter / override / rate "
                "preference each, TTS=None; corpus: 25 fixed + seeded textbook expressions + characters only in the full Unicode table or in "
                "no table + the library's own marker characters as input text; speech, overview and two navigation commands; non-trivial = long expressions")
    generate(res)

    def on_broken(log):
        return oracle(res) + table_gap_oracle(res) > 0
    proved = C.check_proofs(res, "C05", ["Props/C05.vo"], "Props/C05.v", search=on_broken)
    if proved:
        oracle(res)
        table_gap_oracle(res)
    res.trusted += ["harness op h_yaml_texts (yaml-rust) for the literal texts of the rule files"]
    res.assumptions += ["what the rules and the Unicode tables say for a character that is in no table, and TTS markup (C13), are exercised by the oracle, not proved",
                        "a character of the INPUT that is itself private-use and in no table is spoken as itself: not counted"]


def replay(path):
    rep = json.load(open(path, encoding="utf-8"))
    ok, log = C.build_harness()
    if not ok:
        print("harness build failed", log)
        return 2
    if rep.get("kind") == "speech":
        ops = [["set_preference", "TTS", "None"]] + [["set_preference", k, v] for k, v in rep["prefs"].items()] + [["set_mathml", rep["mathml"]]]
        ops += [["get_spoken_text"]] if rep["what"] == "speech" else [["get_overview_text"]] if rep["what"] == "overview" else [["do_navigate_command", "ZoomIn"], ["do_navigate_command", "MoveNext"]]
        r = C.one_session(ops)["res"]
        print(json.dumps(r[-2:], ensure_ascii=False)[:800])
        return 1 if any("ok" in o and (dirty(o["ok"]) or not o["ok"].strip()) for o in r[-2:]) else 0
    print("replay names a broken obligation, not an input:", rep.get("what"))
    return 1
