// Correspondence / oracle harness for the MathCAT verification machinery.
// Input (stdin): one JSON object per line  {"id": <any>, "ops": [[name, arg...], ...], "stack_mb": <opt>}
// Every line is a *session*: it runs in a fresh thread (MathCAT's state is thread_local, so a fresh
// thread is a fresh session).  Output (stdout): one JSON object per line, in input order:
//   {"id": <same>, "res": [ {"ok": payload} | {"err": "msg"} | {"panic": "file:line: msg"} , ...]}
// Every op runs under catch_unwind with a panic hook that records location and message.
use serde_json::{json, Value};
use std::cell::RefCell;
use std::io::{BufRead, Write};
use std::panic;
use std::sync::{Arc, Mutex};

mod ops;

thread_local! {
    pub static LAST_PANIC: RefCell<Option<String>> = RefCell::new(None);
}

fn run_session(sess: &Value) -> Value {
    let empty = vec![];
    let ops_list = sess.get("ops").and_then(|o| o.as_array()).unwrap_or(&empty);
    let mut res = Vec::with_capacity(ops_list.len());
    for op in ops_list {
        let opv = op.as_array().cloned().unwrap_or_default();
        LAST_PANIC.with(|p| *p.borrow_mut() = None);
        let r = panic::catch_unwind(panic::AssertUnwindSafe(|| ops::dispatch(&opv)));
        match r {
            Ok(Ok(v)) => res.push(json!({ "ok": v })),
            Ok(Err(e)) => res.push(json!({ "err": e })),
            Err(_) => {
                let msg = LAST_PANIC.with(|p| p.borrow().clone()).unwrap_or_else(|| "unknown panic".to_string());
                res.push(json!({ "panic": msg }));
            }
        }
    }
    json!({"id": sess.get("id").cloned().unwrap_or(Value::Null), "res": res})
}

fn main() {
    panic::set_hook(Box::new(|info| {
        let loc = info.location().map(|l| format!("{}:{}", l.file(), l.line())).unwrap_or_default();
        let msg = if let Some(s) = info.payload().downcast_ref::<&str>() {
            s.to_string()
        } else if let Some(s) = info.payload().downcast_ref::<String>() {
            s.clone()
        } else {
            "<non-string panic payload>".to_string()
        };
        if std::env::var_os("VERIF_BACKTRACE").is_some() {
            eprintln!("panic at {}: {}\n{}", loc, msg, std::backtrace::Backtrace::force_capture());
        }
        LAST_PANIC.with(|p| *p.borrow_mut() = Some(format!("{}: {}", loc, msg)));
    }));
    let args: Vec<String> = std::env::args().collect();
    let nthreads: usize = args.get(1).and_then(|s| s.parse().ok()).unwrap_or(16);
    let stdin = std::io::stdin();
    let lines: Vec<String> = stdin.lock().lines().map(|l| l.unwrap()).filter(|l| !l.trim().is_empty()).collect();
    let n = lines.len();
    let lines = Arc::new(lines);
    let results: Arc<Mutex<Vec<Option<String>>>> = Arc::new(Mutex::new(vec![None; n]));
    let next = Arc::new(Mutex::new(0usize));
    let mut workers = vec![];
    for _ in 0..nthreads.max(1) {
        let lines = lines.clone();
        let results = results.clone();
        let next = next.clone();
        workers.push(std::thread::spawn(move || loop {
            let i = {
                let mut g = next.lock().unwrap();
                let i = *g;
                *g += 1;
                i
            };
            if i >= lines.len() {
                break;
            }
            let sess: Value = match serde_json::from_str(&lines[i]) {
                Ok(v) => v,
                Err(e) => {
                    results.lock().unwrap()[i] = Some(json!({"id": null, "bad_input": e.to_string()}).to_string());
                    continue;
                }
            };
            let stack_mb = sess.get("stack_mb").and_then(|v| v.as_u64()).unwrap_or(64) as usize;
            let handle = std::thread::Builder::new()
                .stack_size(stack_mb * 1024 * 1024)
                .spawn(move || run_session(&sess).to_string())
                .unwrap();
            let out = match handle.join() {
                Ok(s) => s,
                Err(_) => json!({"id": null, "session_panic": true}).to_string(),
            };
            results.lock().unwrap()[i] = Some(out);
        }));
    }
    for w in workers {
        let _ = w.join();
    }
    let stdout = std::io::stdout();
    let mut out = stdout.lock();
    for r in results.lock().unwrap().iter() {
        writeln!(out, "{}", r.clone().unwrap_or_else(|| "null".to_string())).unwrap();
    }
}
