// Operation dispatch: public API calls and (cfg mathcat_verif) hook calls.
use libmathcat::errors::Error;
use libmathcat::interface::*;
use serde_json::{json, Value};

fn s(v: &[Value], i: usize) -> String {
    v.get(i).and_then(|x| x.as_str()).unwrap_or("").to_string()
}
fn n(v: &[Value], i: usize) -> usize {
    v.get(i).and_then(|x| x.as_u64()).unwrap_or(0) as usize
}
fn b(v: &[Value], i: usize) -> bool {
    v.get(i).and_then(|x| x.as_bool()).unwrap_or(false)
}
fn os<'a>(v: &'a [Value], i: usize) -> Option<&'a str> {
    v.get(i).and_then(|x| x.as_str())
}
fn e2s(e: Error) -> String {
    errors_to_string(&e)
}

thread_local! {
    /// generated-id prefix of the last successful set_mathml of this session (ids are "M" + 7 chars + "-" + n)
    static ID_PREFIX: std::cell::RefCell<String> = std::cell::RefCell::new(String::new());
}

/// "ID-3" -> the real generated id of the current expression
fn denorm(id: &str) -> String {
    if let Some(rest) = id.strip_prefix("ID-") {
        return ID_PREFIX.with(|p| p.borrow().clone()) + rest;
    }
    id.to_string()
}

/// every literal text (`t:`, `ct:`, `ot:`, any case) of a YAML rule / unicode file, parsed with yaml-rust (the
/// library's own parser crate); also the targets of `include:` and the TTS string values (audio, voice, gender)
fn yaml_texts(path: &str) -> Result<Value, String> {
    use yaml_rust::{Yaml, YamlLoader};
    let content = std::fs::read_to_string(path).map_err(|e| format!("HARNESS: can't read {}: {}", path, e))?;
    let docs = YamlLoader::load_from_str(&content).map_err(|e| format!("HARNESS: yaml error in {}: {}", path, e))?;
    let mut out: Vec<Value> = vec![];
    fn walk(y: &Yaml, out: &mut Vec<Value>) {
        match y {
            Yaml::Array(a) => a.iter().for_each(|v| walk(v, out)),
            Yaml::Hash(h) => {
                for (k, v) in h {
                    if let (Some(key), Some(text)) = (k.as_str(), v.as_str()) {
                        let lower = key.to_lowercase();
                        if ["t", "ct", "ot", "include", "audio", "voice", "gender", "spell"].contains(&lower.as_str()) {
                            out.push(json!([lower, text]));
                        }
                    }
                    if let Some(key) = k.as_str() {
                        if key.chars().count() <= 12 && !v.is_array() && v.as_hash().is_none() && v.as_str().is_none() {
                            // numbers / booleans are not texts
                        }
                    }
                    walk(v, out);
                }
            }
            _ => (),
        }
    }
    for d in &docs {
        walk(d, &mut out);
    }
    Ok(Value::Array(out))
}

/// every entry of a Unicode rule file (yaml-rust, the library's own parser crate): the key and whether its replacement
/// speaks under every condition -- some item is a text / xpath / spell item, or a test all of whose branches exist and speak
fn unicode_entries(path: &str) -> Result<Value, String> {
    use yaml_rust::{Yaml, YamlLoader};
    let content = std::fs::read_to_string(path).map_err(|e| format!("HARNESS: can't read {}: {}", path, e))?;
    let docs = YamlLoader::load_from_str(&content).map_err(|e| format!("HARNESS: yaml error in {}: {}", path, e))?;
    fn list_speaks(y: &Yaml) -> bool {
        match y {
            Yaml::Array(a) => a.iter().any(item_speaks),
            Yaml::Hash(_) => item_speaks(y),
            _ => false,
        }
    }
    fn clause_speaks(h: &yaml_rust::yaml::Hash) -> (bool, bool) {
        // (every branch present in this clause speaks, the clause has a final else)
        let mut all = true;
        let mut has_else = false;
        for (k, v) in h {
            let key = k.as_str().unwrap_or("").to_lowercase();
            match key.as_str() {
                "then" | "else" => { all &= list_speaks(v); if key == "else" { has_else = true; } }
                "then_test" | "else_test" => { all &= test_speaks(v); if key == "else_test" { has_else = true; } }
                _ => (),
            }
        }
        (all, has_else)
    }
    fn test_speaks(y: &Yaml) -> bool {
        match y {
            Yaml::Hash(h) => { let (all, e) = clause_speaks(h); all && e }
            Yaml::Array(a) => {
                let mut all = true;
                let mut has_else = false;
                for c in a {
                    if let Yaml::Hash(h) = c { let (x, e) = clause_speaks(h); all &= x; has_else |= e; }
                }
                all && has_else
            }
            _ => false,
        }
    }
    fn item_speaks(y: &Yaml) -> bool {
        if let Yaml::Hash(h) = y {
            for (k, v) in h {
                let key = k.as_str().unwrap_or("").to_lowercase();
                match key.as_str() {
                    "t" | "ct" | "ot" => if v.as_str().map(|s| !s.trim().is_empty()).unwrap_or(false) { return true; },
                    "x" | "spell" | "pronounce" | "translate" => return true,
                    "test" => if test_speaks(v) { return true; },
                    "pitch" | "rate" | "volume" | "audio" | "gender" | "voice" | "with" =>
                        if let Yaml::Hash(inner) = v {
                            for (k2, v2) in inner {
                                if k2.as_str() == Some("replace") && list_speaks(v2) { return true; }
                            }
                        },
                    _ => (),
                }
            }
        }
        false
    }
    let mut out: Vec<Value> = vec![];
    for d in &docs {
        if let Yaml::Array(entries) = d {
            for e in entries {
                if let Yaml::Hash(h) = e {
                    for (k, v) in h {
                        if let Some(key) = k.as_str() {
                            if key != "include" {
                                out.push(json!([key, list_speaks(v)]));
                            }
                        }
                    }
                }
            }
        }
    }
    Ok(Value::Array(out))
}

/// every entry of a Unicode rule file as (key, replacement AST); items: {"t": nonempty} | "x" | "s" (silent) |
/// {"w": [items]} (wrapper with replace:) | {"test": [[items of a branch], ...], "else": [items] | null}
fn unicode_ast(path: &str) -> Result<Value, String> {
    use yaml_rust::{Yaml, YamlLoader};
    let content = std::fs::read_to_string(path).map_err(|e| format!("HARNESS: can't read {}: {}", path, e))?;
    let docs = YamlLoader::load_from_str(&content).map_err(|e| format!("HARNESS: yaml error in {}: {}", path, e))?;
    fn list(y: &Yaml) -> Vec<Value> {
        match y {
            Yaml::Array(a) => a.iter().flat_map(item).collect(),
            Yaml::Hash(_) => item(y),
            _ => vec![],
        }
    }
    fn test(y: &Yaml) -> Value {
        let mut branches: Vec<Value> = vec![];
        let mut els: Value = Value::Null;
        let mut clause = |h: &yaml_rust::yaml::Hash| {
            for (k, v) in h {
                match k.as_str().unwrap_or("").to_lowercase().as_str() {
                    "then" => branches.push(Value::Array(list(v))),
                    "then_test" => branches.push(json!([test(v)])),
                    "else" => els = Value::Array(list(v)),
                    "else_test" => els = json!([test(v)]),
                    _ => (),
                }
            }
        };
        match y {
            Yaml::Hash(h) => clause(h),
            Yaml::Array(a) => for c in a { if let Yaml::Hash(h) = c { clause(h); } },
            _ => (),
        }
        json!({"test": branches, "else": els})
    }
    fn item(y: &Yaml) -> Vec<Value> {
        let mut out = vec![];
        if let Yaml::Hash(h) = y {
            for (k, v) in h {
                match k.as_str().unwrap_or("").to_lowercase().as_str() {
                    "t" | "ct" | "ot" => out.push(json!({"t": v.as_str().map(|s| !s.trim().is_empty()).unwrap_or(false)})),
                    "x" | "spell" | "pronounce" | "translate" => out.push(json!("x")),
                    "test" => out.push(test(v)),
                    "pitch" | "rate" | "volume" | "audio" | "gender" | "voice" | "with" => {
                        let mut body = vec![];
                        if let Yaml::Hash(inner) = v {
                            for (k2, v2) in inner {
                                if k2.as_str() == Some("replace") { body = list(v2); }
                            }
                        }
                        out.push(json!({"w": body}));
                    }
                    _ => out.push(json!("s")),
                }
            }
        }
        out
    }
    let mut out: Vec<Value> = vec![];
    for d in &docs {
        if let Yaml::Array(entries) = d {
            for e in entries {
                if let Yaml::Hash(h) = e {
                    for (k, v) in h {
                        if let Some(key) = k.as_str() {
                            if key != "include" {
                                out.push(json!([key, list(v)]));
                            }
                        }
                    }
                }
            }
        }
    }
    Ok(Value::Array(out))
}

/// A rule file or Unicode file as the rule engine builds it (second implementation of Replacement::build /
/// TestArray::build / SpeechPattern::build / UnicodeDef::build on the YAML text, written with the library's YAML crate):
/// a list of {"include": file} | {"name", "tag": [..], "match", "replace": items} | {"char": key, "replace": items}.
/// item = {"k": "T"} | {"k": "X", "x": xpath} | {"k": "S", "cmd", "body": items} | {"k": "N", "body": items} |
///        {"k": "?", "entries": [{"cond": bool, "then": part, "else": part}]} | {"k": "W", "body"} | {"k": "V"} |
///        {"k": "+", "x", "body"} | {"k": "L"} | {"k": "!", "key"} (not a replacement the engine accepts)
/// part = null | {"r": items} | {"t": entries}
fn rules_tast(path: &str) -> Result<Value, String> {
    use yaml_rust::{Yaml, YamlLoader};
    let content = std::fs::read_to_string(path).map_err(|e| format!("HARNESS: can't read {}: {}", path, e))?;
    let docs = YamlLoader::load_from_str(&content).map_err(|e| format!("HARNESS: yaml error in {}: {}", path, e))?;
    fn list(y: &Yaml) -> Vec<Value> {
        match y {
            Yaml::Array(a) => a.iter().map(item).collect(),
            _ => vec![item(y)],
        }
    }
    fn part(h: &Yaml, rkey: &str, tkey: &str) -> Value {
        let r = &h[rkey];
        let t = &h[tkey];
        if !t.is_badvalue() && r.is_badvalue() { json!({"t": entries(t)}) }
        else if !r.is_badvalue() && t.is_badvalue() { json!({"r": list(r)}) }
        else { Value::Null }
    }
    fn entries(y: &Yaml) -> Vec<Value> {
        let tests: Vec<&Yaml> = match y { Yaml::Hash(_) => vec![y], Yaml::Array(a) => a.iter().collect(), _ => vec![] };
        let mut out = vec![];
        for t in tests {
            let if_part = &t[if out.is_empty() {"if"} else {"else_if"}];
            if !if_part.is_badvalue() {
                out.push(json!({"cond": true, "then": part(t, "then", "then_test"), "else": part(t, "else", "else_test")}));
            } else {
                out.push(json!({"cond": false, "then": Value::Null, "else": part(t, "else", "else_test")}));
            }
        }
        out
    }
    fn body(v: &Yaml, key: &str) -> Vec<Value> { if v[key].is_badvalue() { vec![] } else { list(&v[key]) } }
    fn item(y: &Yaml) -> Value {
        let h = match y { Yaml::Hash(h) if h.len() == 1 => h, _ => return json!({"k": "!", "key": "(shape)"}) };
        let (k, v) = h.iter().next().unwrap();
        let key = k.as_str().unwrap_or("");
        match key {
            "t" | "T" | "ct" | "CT" | "ot" | "OT" => {
                // the literal as the engine stores it (Replacement::build): ct / ot carry their indicator characters
                let raw = v.as_str().unwrap_or("");
                let stored = match key { "t" | "T" => raw.to_string(), "ct" | "CT" => format!("\u{F8FE}{}", raw), _ => format!("\u{F8FD}{}\u{F8FD}", raw) };
                json!({"k": "T", "ne": !raw.trim().is_empty(), "text": stored, "plain": v.as_str().is_some()})
            }
            "x" => json!({"k": "X", "x": v.as_str().unwrap_or("")}),
            "pause" | "rate" | "pitch" | "volume" | "audio" | "gender" | "voice" | "spell" | "SPELL" | "bookmark" | "pronounce" | "PRONOUNCE" =>
                json!({"k": "S", "cmd": key.to_ascii_lowercase(), "body": if v.as_hash().is_some() && key.to_ascii_lowercase() != "pronounce" { body(v, "replace") } else { vec![] }}),
            "intent" => json!({"k": "N", "body": body(v, "children")}),
            "test" => json!({"k": "?", "entries": entries(v)}),
            "with" => json!({"k": "W", "body": body(v, "replace")}),
            "set_variables" => json!({"k": "V"}),
            "insert" => json!({"k": "+", "x": v["nodes"].as_str().unwrap_or(""), "body": body(v, "replace")}),
            "translate" => json!({"k": "L"}),
            _ => json!({"k": "!", "key": key}),
        }
    }
    let mut out: Vec<Value> = vec![];
    for d in &docs {
        if let Yaml::Array(es) = d {
            for e in es {
                if let Yaml::Hash(h) = e {
                    let get = |key: &str| h.get(&Yaml::String(key.to_string()));
                    if let Some(inc) = get("include") { out.push(json!({"include": inc.as_str().unwrap_or("")})); continue; }
                    if get("name").is_some() || get("tag").is_some() {
                        let tags: Vec<String> = match get("tag") {
                            Some(Yaml::String(s)) => vec![s.clone()],
                            Some(Yaml::Array(a)) => a.iter().filter_map(|x| x.as_str().map(|s| s.to_string())).collect(),
                            _ => vec![],
                        };
                        let m = match get("match") {
                            Some(Yaml::String(s)) => s.clone(),
                            Some(Yaml::Array(a)) => a.iter().filter_map(|x| x.as_str()).collect::<Vec<_>>().join(" "),
                            _ => String::new(),
                        };
                        out.push(json!({"name": get("name").and_then(|x| x.as_str()).unwrap_or(""), "tag": tags, "match": m,
                                        "replace": get("replace").map(list).unwrap_or_default()}));
                    } else if h.len() == 1 {
                        let (k, v) = h.iter().next().unwrap();
                        match k {
                            Yaml::String(s) => out.push(json!({"char": s, "replace": list(v)})),
                            Yaml::Integer(i) => out.push(json!({"code": i, "replace": list(v)})),
                            _ => (),
                        }
                    }
                }
            }
        }
    }
    Ok(Value::Array(out))
}

/// every rule of a speech / braille rule file as {name, tag, match, replace}: replace is the AST of unicode_ast with
/// computed items carrying their xpath ({"x": "*[2]"}); include: entries are reported as {"include": file}
fn rules_ast(path: &str) -> Result<Value, String> {
    use yaml_rust::{Yaml, YamlLoader};
    let content = std::fs::read_to_string(path).map_err(|e| format!("HARNESS: can't read {}: {}", path, e))?;
    let docs = YamlLoader::load_from_str(&content).map_err(|e| format!("HARNESS: yaml error in {}: {}", path, e))?;
    fn list(y: &Yaml) -> Vec<Value> {
        match y {
            Yaml::Array(a) => a.iter().flat_map(item).collect(),
            Yaml::Hash(_) => item(y),
            _ => vec![],
        }
    }
    fn test(y: &Yaml) -> Value {
        let mut branches: Vec<Value> = vec![];
        let mut els: Value = Value::Null;
        let mut clause = |h: &yaml_rust::yaml::Hash| {
            for (k, v) in h {
                match k.as_str().unwrap_or("").to_lowercase().as_str() {
                    "then" => branches.push(Value::Array(list(v))),
                    "then_test" => branches.push(json!([test(v)])),
                    "else" => els = Value::Array(list(v)),
                    "else_test" => els = json!([test(v)]),
                    _ => (),
                }
            }
        };
        match y {
            Yaml::Hash(h) => clause(h),
            Yaml::Array(a) => for c in a { if let Yaml::Hash(h) = c { clause(h); } },
            _ => (),
        }
        json!({"test": branches, "else": els})
    }
    fn item(y: &Yaml) -> Vec<Value> {
        let mut out = vec![];
        if let Yaml::Hash(h) = y {
            for (k, v) in h {
                match k.as_str().unwrap_or("").to_lowercase().as_str() {
                    "t" | "ct" | "ot" => out.push(json!({"t": v.as_str().map(|s| !s.trim().is_empty()).unwrap_or(false)})),
                    "x" => out.push(json!({"x": v.as_str().unwrap_or("")})),
                    "spell" | "pronounce" | "translate" => out.push(json!({"x": ""})),
                    "test" => out.push(test(v)),
                    "insert" => {
                        // insert: nodes: xpath, replace: [...] -- speaks the nodes with something between them
                        let mut nodes = String::new();
                        if let Yaml::Hash(inner) = v { for (k2, v2) in inner { if k2.as_str() == Some("nodes") { nodes = v2.as_str().unwrap_or("").to_string(); } } }
                        out.push(json!({"x": nodes}));
                    }
                    "pitch" | "rate" | "volume" | "audio" | "gender" | "voice" | "with" | "intent" => {
                        let mut body = vec![];
                        if let Yaml::Hash(inner) = v {
                            for (k2, v2) in inner {
                                if k2.as_str() == Some("replace") || k2.as_str() == Some("children") { body = list(v2); }
                            }
                        }
                        out.push(json!({"w": body}));
                    }
                    _ => out.push(json!("s")),
                }
            }
        }
        out
    }
    let mut out: Vec<Value> = vec![];
    for d in &docs {
        if let Yaml::Array(entries) = d {
            for e in entries {
                if let Yaml::Hash(h) = e {
                    let get = |key: &str| h.get(&Yaml::String(key.to_string()));
                    if let Some(inc) = get("include") { out.push(json!({"include": inc.as_str().unwrap_or("")})); continue; }
                    let tags: Vec<String> = match get("tag") {
                        Some(Yaml::String(s)) => vec![s.clone()],
                        Some(Yaml::Array(a)) => a.iter().filter_map(|x| x.as_str().map(|s| s.to_string())).collect(),
                        _ => vec![],
                    };
                    let m = match get("match") {
                        Some(Yaml::String(s)) => s.clone(),
                        Some(Yaml::Array(a)) => a.iter().filter_map(|x| x.as_str()).collect::<Vec<_>>().join(" "),
                        _ => String::new(),
                    };
                    let replace = get("replace").map(list).unwrap_or_default();
                    out.push(json!({"name": get("name").and_then(|x| x.as_str()).unwrap_or(""), "tag": tags, "match": m, "replace": replace}));
                }
            }
        }
    }
    Ok(Value::Array(out))
}

thread_local! {
    static LAST_MATHML: std::cell::RefCell<String> = std::cell::RefCell::new(String::new());
}

/// id of the n-th (mod count) token element of the last MathML returned by set_mathml
fn nth_leaf_id(n: usize) -> Option<String> {
    LAST_MATHML.with(|m| {
        let m = m.borrow();
        let mut ids = vec![];
        for tag in ["<mi ", "<mn ", "<mo ", "<mtext "] {
            let mut from = 0;
            while let Some(i) = m[from..].find(tag) {
                let start = from + i;
                let end = m[start..].find('>').map(|e| start + e).unwrap_or(m.len());
                if let Some(j) = m[start..end].find(" id='") {
                    let v = &m[start + j + 5..end];
                    if let Some(k) = v.find('\'') {
                        ids.push((start, v[..k].to_string()));
                    }
                }
                from = end;
            }
        }
        ids.sort();
        if ids.is_empty() { None } else { Some(ids[n % ids.len()].1.clone()) }
    })
}

fn remember_prefix(mathml: &str) {
    LAST_MATHML.with(|m| *m.borrow_mut() = mathml.to_string());
    if let Some(i) = mathml.find("id='M") {
        let start = i + 4;
        if mathml.len() >= start + 9 && mathml.as_bytes()[start + 8] == b'-' {
            ID_PREFIX.with(|p| *p.borrow_mut() = mathml[start..start + 9].to_string());
        }
    }
}

/// what an editor does: take the MathML that set_mathml returned last (its ids included), edit it, and set it again.
/// mode "append": new tokens (no ids) after the content; "prepend": before it; "wrap": the content becomes the child of a
/// new element `extra`; "strip": every n-th id attribute (n = extra) is removed.  Returns the new canonical MathML.
fn set_mathml_reusing_last(mode: &str, extra: &str) -> Result<Value, String> {
    let last = LAST_MATHML.with(|m| m.borrow().clone());
    let open_end = match last.find('>') { Some(i) => i + 1, None => return Err("HARNESS: no previous MathML".to_string()) };
    let close = match last.rfind("</math>") { Some(i) => i, None => return Err("HARNESS: no previous MathML".to_string()) };
    let (head, body, tail) = (&last[..open_end], &last[open_end..close], &last[close..]);
    let edited = match mode {
        "append" => format!("{}{}{}{}", head, body, extra, tail),
        "prepend" => format!("{}{}{}{}", head, extra, body, tail),
        "wrap" => format!("{}<{}>{}</{}>{}", head, extra, body, extra, tail),
        "strip" => {
            let n: usize = extra.parse().unwrap_or(2).max(1);
            let mut out = String::new();
            let mut rest = last.as_str();
            let mut k = 0;
            while let Some(i) = rest.find(" id='") {
                let end = rest[i + 5..].find('\'').map(|e| i + 5 + e + 1).unwrap_or(rest.len());
                k += 1;
                out.push_str(&rest[..i]);
                if k % n != 0 { out.push_str(&rest[i..end]); }
                rest = &rest[end..];
            }
            out.push_str(rest);
            out
        }
        _ => return Err(format!("HARNESS: unknown mode {}", mode)),
    };
    let r = set_mathml(edited.clone()).map_err(e2s)?;
    remember_prefix(&r);
    Ok(json!([edited, r]))
}

pub fn dispatch(op: &[Value]) -> Result<Value, String> {
    let name = s(op, 0);
    match name.as_str() {
        "set_rules_dir" => set_rules_dir(s(op, 1)).map(|_| Value::Null).map_err(e2s),
        "set_mathml" => set_mathml(s(op, 1)).map(|m| { remember_prefix(&m); Value::String(m) }).map_err(e2s),
        "v_set_navigation_node_norm" => set_navigation_node(denorm(&s(op, 1)), n(op, 2)).map(|_| Value::Null).map_err(e2s),
        "v_set_nav_nth_leaf" => match nth_leaf_id(n(op, 1)) {
            Some(id) => set_navigation_node(id, n(op, 2)).map(|_| Value::Null).map_err(e2s),
            None => Err("HARNESS: no leaf".to_string()),
        },
        "h_yaml_texts" => yaml_texts(&s(op, 1)),
        "h_unicode_entries" => unicode_entries(&s(op, 1)),
        "h_unicode_ast" => unicode_ast(&s(op, 1)),
        "h_rules_ast" => rules_ast(&s(op, 1)),
        "v_route_dump" => { libmathcat::verif::braille::want_route_dump(b(op, 1)); Ok(Value::Null) }
        "v_take_route_dump" => Ok(match libmathcat::verif::braille::take_route_dump() {
            Some((mid, blen, nodes)) => json!({"math": mid, "blen": blen, "nodes": nodes.into_iter().map(|(i, l, s_, e, x, k)| json!([i, l, s_, e, x, k])).collect::<Vec<_>>()}),
            None => Value::Null,
        }),
        "h_rules_tast" => rules_tast(&s(op, 1)),
        "h_set_mathml_reusing_last" => set_mathml_reusing_last(&s(op, 1), &s(op, 2)),
        "v_trace_eval" => { libmathcat::verif::speech::trace_eval(b(op, 1)); Ok(Value::Null) }
        "v_take_eval_log" => Ok(json!(libmathcat::verif::speech::take_eval_log())),
        // file-system steps of a fault history (C14): they act on a private copy of Rules/ only
        "h_write" => std::fs::write(s(op, 1), s(op, 2)).map(|_| Value::Null).map_err(|e| format!("HARNESS: {}", e)),
        "h_remove" => std::fs::remove_file(s(op, 1)).map(|_| Value::Null).map_err(|e| format!("HARNESS: {}", e)),
        "h_rename" => std::fs::rename(s(op, 1), s(op, 2)).map(|_| Value::Null).map_err(|e| format!("HARNESS: {}", e)),
        "h_copy" => std::fs::copy(s(op, 1), s(op, 2)).map(|_| Value::Null).map_err(|e| format!("HARNESS: {}", e)),
        "v_get_braille_norm" => get_braille(denorm(&s(op, 1))).map(Value::String).map_err(e2s),
        "get_spoken_text" => get_spoken_text().map(Value::String).map_err(e2s),
        "get_overview_text" => get_overview_text().map(Value::String).map_err(e2s),
        "get_braille" => get_braille(s(op, 1)).map(Value::String).map_err(e2s),
        "get_navigation_braille" => get_navigation_braille().map(Value::String).map_err(e2s),
        "get_preference" => get_preference(s(op, 1)).map(Value::String).map_err(e2s),
        "set_preference" => set_preference(s(op, 1), s(op, 2)).map(|_| Value::Null).map_err(e2s),
        "do_navigate_command" => do_navigate_command(s(op, 1)).map(Value::String).map_err(e2s),
        "do_navigate_keypress" => do_navigate_keypress(n(op, 1), b(op, 2), b(op, 3), b(op, 4), b(op, 5))
            .map(Value::String)
            .map_err(e2s),
        "set_navigation_node" => set_navigation_node(s(op, 1), n(op, 2)).map(|_| Value::Null).map_err(e2s),
        "get_navigation_mathml" => get_navigation_mathml().map(|(m, o)| json!([m, o])).map_err(e2s),
        "get_navigation_mathml_id" => get_navigation_mathml_id().map(|(m, o)| json!([m, o])).map_err(e2s),
        "get_braille_position" => get_braille_position().map(|(a, b)| json!([a, b])).map_err(e2s),
        "get_navigation_node_from_braille_position" => get_navigation_node_from_braille_position(n(op, 1))
            .map(|(m, o)| json!([m, o]))
            .map_err(e2s),
        "get_version" => Ok(Value::String(get_version())),
        // ---- hooks ----
        "v_plane1" => Ok(Value::String(libmathcat::verif::canonicalize::plane1(&s(op, 1), os(op, 2)))),
        "v_tts_tag" => Ok(Value::String(libmathcat::verif::tts::tag(&s(op, 1), &s(op, 2), &s(op, 3), &s(op, 4), b(op, 5)))),
        "v_tts_merge_pauses" => Ok(Value::String(libmathcat::verif::tts::merge_pauses(&s(op, 1), &s(op, 2)))),
        "v_tts_auto_pause" => Ok(Value::String(libmathcat::verif::tts::auto_pause(&s(op, 1), &s(op, 2), &s(op, 3)))),
        "v_prefs_dump" => Ok(json!(libmathcat::verif::prefs::dump().into_iter().map(|(a, b, c, d)| json!([a, b, c, d])).collect::<Vec<_>>())),
        "v_prefs_files" => Ok(json!(libmathcat::verif::prefs::files().into_iter().map(|(a, b)| json!([a, b])).collect::<Vec<_>>())),
        "v_nav_state" => {
            let (ps, cs, pm, mode, ov) = libmathcat::verif::navigate::nav_state();
            Ok(json!({"ps": ps, "cs": cs, "marks": pm, "mode": mode, "overview": ov, "log": libmathcat::verif::navigate::take_log()}))
        }
        "v_highlight_chars" => libmathcat::verif::braille::highlight_chars(&s(op, 1), &s(op, 2), b(op, 3))
            .map(|(t, a, z)| json!([t, a, z]))
            .map_err(e2s),
        "v_braille_cleanup" => Ok(Value::String(libmathcat::verif::braille::cleanup(&s(op, 1), &s(op, 2)))),
        "v_take_merge_log" => Ok(json!(libmathcat::verif::canonicalize::take_merge_log())),
        "v_number_patterns" => Ok(json!(libmathcat::verif::canonicalize::number_patterns(&s(op, 1), &s(op, 2), &s(op, 3)))),
        "v_intent_lex" => libmathcat::verif::infer_intent::lex(&s(op, 1)).map(|v| json!(v.into_iter().map(|(k, t)| json!([k, t])).collect::<Vec<_>>())).map_err(e2s),
        "v_highlight_cell" => {
            let (h, hi, un) = libmathcat::verif::braille::highlight_cell(char::from_u32(n(op, 1) as u32).unwrap_or(' '));
            Ok(json!([h, hi as u32, un as u32]))
        }
        "v_add_ids_only" => libmathcat::verif::interface::add_ids_only(&s(op, 1)).map(Value::String).map_err(e2s),
        "v_key_command" => libmathcat::verif::navigate::key_command(n(op, 1), b(op, 2), b(op, 3), b(op, 4), b(op, 5)).map(Value::String).map_err(e2s),
        "v_canon_stage" => libmathcat::verif::interface::canonicalize_stage(&s(op, 1), &s(op, 2)).map(Value::String).map_err(e2s),
        "v_definitions_set" => Ok(json!(libmathcat::verif::canonicalize::definitions_set(&s(op, 1)))),
        "v_take_array_log" => Ok(json!(libmathcat::verif::speech::take_array_log())),
        "v_take_load_log" => Ok(json!(libmathcat::verif::speech::take_load_log())),
        "v_take_load_log_full" => Ok(json!(libmathcat::verif::speech::take_load_log_full())),
        "h_sleep" => { std::thread::sleep(std::time::Duration::from_millis(n(op, 1) as u64)); Ok(Value::Null) }
        _ => Err(format!("HARNESS: unknown op '{}'", name)),
    }
}
