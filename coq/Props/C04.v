(* C04 -- speech voices every operand (assembly layer of replace_array_string).  Statements only. *)
From MC Require Import Lib.Base Model.SpeechAsm Gen.SpeechTexts Proofs.SpeechAsmP Proofs.SpeechTextsP.
Local Open Scope N_scope.

(* For ANY list of replacement strings: if in each string the text before the optional indicator and the optional word
   itself carry no digit, the removal of repetitive optional words and the joining lose no digit and invent none. *)
Theorem assembly_keeps_digits : forall strs, forallb optional_harmless strs = true ->
  digits (join_sp (fix_optional strs)) = digits (concat strs).
Proof. exact L_join_keeps_digits. Qed.
Print Assumptions assembly_keeps_digits.

(* The guard cannot be dropped: what stands before the optional indicator is dropped together with a repetitive
   optional word ("over the" + "7.5 plus <the> fraction" loses 7.5).  This is the recorded finding. *)
Theorem optional_text_drops_what_precedes_it :
  exists y, is_repetitive w_prev w_opt = Some y /\ digits y = [] /\ digits w_opt = [55; 53].
Proof. exact L_prefix_dropped. Qed.
Print Assumptions optional_text_drops_what_precedes_it.

(* the optional words of every language's rule files (regenerated on every run) carry no digit *)
Theorem optional_words_have_no_digits : forallb (forallb no_digits) speech_ot = true.
Proof. exact all_ot_digit_free. Qed.
Print Assumptions optional_words_have_no_digits.

(* the final clean-up keeps every character that is not a marker or a blank (hence every digit) *)
Theorem cleanup_keeps_operands : forall s, filter plain_char (cleanup s) = filter plain_char s.
Proof. exact L_cleanup_keeps_text. Qed.
Print Assumptions cleanup_keeps_operands.
