(* C04 -- speech voices every operand (assembly layer of replace_array_string).  Statements only. *)
From MC Require Import Lib.Base Model.SpeechAsm Gen.SpeechTexts Proofs.SpeechAsmP Proofs.SpeechTextsP.
From MC Require Import Model.RuleAst Proofs.RuleAstP Model.RuleTable Proofs.RuleTableP Gen.RuleSets Proofs.RuleSetsP.
Local Open Scope N_scope.

(* For ANY list of replacement strings: if in each string the text before the optional indicator and the optional word
   itself carry no digit, the removal of repetitive optional words and the joining lose no digit and invent none. *)
Theorem assembly_keeps_digits : forall strs, forallb optional_harmless strs = true ->
  digits (join_sp (fix_optional strs)) = digits (concat strs).
Proof. exact L_join_keeps_digits. Qed.
Print Assumptions assembly_keeps_digits.

(* The guard cannot be dropped: what stands before the optional indicator is dropped together with a repetitive
   optional word ("over the" + "7.5 plus <the> fraction" loses 7.5).  This is the recorded finding. *)
Theorem optional_text_drops_what_precedes_it :
  exists y, is_repetitive w_prev w_opt = Some y /\ digits y = [] /\ digits w_opt = [55; 53].
Proof. exact L_prefix_dropped. Qed.
Print Assumptions optional_text_drops_what_precedes_it.

(* the optional words of every language's rule files (regenerated on every run) carry no digit *)
Theorem optional_words_have_no_digits : forallb (forallb no_digits) speech_ot = true.
Proof. exact all_ot_digit_free. Qed.
Print Assumptions optional_words_have_no_digits.

(* the final clean-up keeps every character that is not a marker or a blank (hence every digit) *)
Theorem cleanup_keeps_operands : forall s, filter plain_char (cleanup s) = filter plain_char s.
Proof. exact L_cleanup_keeps_text. Qed.
Print Assumptions cleanup_keeps_operands.

(* ------------------------------------------------------------------------------------------------------------------
   The rule engine (match_pattern / find_match, SpeechPattern::build, the evaluation of replacements): models
   Model/RuleTable.v and Model/RuleAst.v, tied to the engine's own trace by Tie/RuleEvalTie.v.  XPath is not modelled:
   every statement holds for every outcome of every match, condition and node selection.
   ------------------------------------------------------------------------------------------------------------------ *)

(* for EVERY shipped intent / speech / overview / braille rule set (regenerated from the rule files on every run) and
   every element: a rule is found, whatever the other matches evaluate to -- "No match found" cannot happen *)
Theorem matching_is_total : forall path rs dots, In (path, rs, dots) shipped_rule_sets ->
  forall tag os,
  (forall n r, nth_error (candidates (build rs) tag) n = Some r -> In (r_id r) dots -> nth n os false = true) ->
  first_hit (candidates (build rs) tag) os <> None.
Proof. exact L_matching_is_total. Qed.
Print Assumptions matching_is_total.

(* the rule applied is the first candidate whose match holds; every candidate before it was tried and failed *)
Theorem first_match_wins : forall cs os c, first_hit cs os = Some c ->
  exists pre post, cs = pre ++ c :: post /\ tried cs os = pre ++ [c] /\
                   firstn (List.length pre) os = repeat false (List.length pre) /\ nth (List.length pre) os false = true.
Proof. exact L_first_match_wins. Qed.
Print Assumptions first_match_wins.

(* for EVERY list of rules read: under one tag no two rules have the same name; the definition read last is the one
   in force, an earlier one of the same name is gone, and the redefinition stands where the first one stood *)
Theorem names_unique_under_a_tag : forall rs g, NoDup (map r_name (get (build rs) g)).
Proof. exact L_names_unique_under_a_tag. Qed.
Print Assumptions names_unique_under_a_tag.

Theorem last_definition_is_in_force : forall pre r post,
  Forall (fun r' => r_tag r' <> r_tag r \/ r_name r' <> r_name r) post ->
  In r (get (build (pre ++ r :: post)) (r_tag r)) /\
  (forall r0, In r0 (get (build (pre ++ r :: post)) (r_tag r)) -> r_name r0 = r_name r -> r0 = r).
Proof. exact L_last_definition. Qed.
Print Assumptions last_definition_is_in_force.

Theorem redefinition_keeps_the_place : forall r r0 a b, r_name r0 = r_name r -> ~ In (r_name r) (map r_name a) ->
  put r (a ++ r0 :: b) = a ++ r :: b.
Proof. exact L_redefinition_keeps_the_place. Qed.
Print Assumptions redefinition_keeps_the_place.

(* for EVERY replacement and every stream of outcomes: the items of a list are evaluated in order, each on the outcomes
   the previous ones left; a test gives the part of the first entry that decides (the then part of the first entry whose
   condition holds, or the else part of an entry before it); an insert over k nodes hands each of the k nodes to the
   rules.  No item of the chosen path is skipped. *)
Theorem items_are_evaluated_in_order : forall a b s,
  tr_items (app_items a b) s =
  (fst (tr_items a s) ++ fst (tr_items b (snd (tr_items a s))), snd (tr_items b (snd (tr_items a s)))).
Proof. exact L_items_in_order. Qed.
Print Assumptions items_are_evaluated_in_order.

Theorem test_gives_first_deciding_part : forall es s,
  snd (tr_entries es s) = snd (tr_part (match decide es s with Some p => p | None => PNone end) (drop (visited es s) s)) /\
  exists pre, fst (tr_entries es s) = pre ++ fst (tr_part (match decide es s with Some p => p | None => PNone end) (drop (visited es s) s)) /\
              Forall (fun x => x = ev_entry \/ x = ev_true) pre.
Proof. exact L_test_gives_first_deciding_part. Qed.
Print Assumptions test_gives_first_deciding_part.

Theorem insert_selects_every_node : forall body k s, k <> 0%N -> (forall s', selections (fst (tr_items body s')) = O) ->
  selections (fst (tr_item (IInsert body) (k :: s))) = N.to_nat k.
Proof. exact L_insert_selects_every_node. Qed.
Print Assumptions insert_selects_every_node.
