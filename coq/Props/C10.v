(* C10 -- results depend only on the current expression and preferences (the caching layer).  Statements only. *)
From MC Require Import Lib.Base Model.Caches Proofs.CachesP.
Local Open Scope N_scope.

(* whatever was asked before, whatever loads failed before, with or without the emptiness guard: the answer to a check
   is the fresh load of the key asked for *)
Theorem cache_answers_fresh : forall V (load : str -> option V) guard s k, slot_inv load s ->
  snd (fst (check load guard s k)) = load k.
Proof. exact L_answer_is_fresh. Qed.
Print Assumptions cache_answers_fresh.

(* ... for whole histories, of any length *)
Theorem history_answers_are_fresh : forall V (load : str -> option V) guard ks s, slot_inv load s ->
  map fst (snd (run load guard s ks)) = map load ks.
Proof. exact L_history_answers_are_fresh. Qed.
Print Assumptions history_answers_are_fresh.

(* the invariant behind it holds initially and is kept by every check *)
Theorem cache_invariant : forall V (load : str -> option V),
  slot_inv load empty_slot /\ forall guard s k, slot_inv load s -> slot_inv load (fst (fst (check load guard s k))).
Proof. intros V load. split; [apply empty_inv | apply check_inv]. Qed.
Print Assumptions cache_invariant.

(* a failed load is retried by the next check *)
Theorem failed_load_is_retried : forall V (load : str -> option V) guard s k, slot_inv load s ->
  snd (fst (check load guard s k)) = None ->
  forall k', snd (check load guard (fst (fst (check load guard s k))) k') = true.
Proof. exact L_failure_is_retried. Qed.
Print Assumptions failed_load_is_retried.

(* asking again for what is loaded costs nothing and changes nothing *)
Theorem second_check_is_free : forall V (load : str -> option V) guard s k v,
  fst (check load guard s k) = (Slot (Some k) (Some v), Some v) ->
  check load guard (Slot (Some k) (Some v)) k = (Slot (Some k) (Some v), Some v, false).
Proof. exact L_second_check_is_free. Qed.
Print Assumptions second_check_is_free.
