(* C10 -- results depend only on the current expression and preferences (the caching layer).  Statements only. *)
From MC Require Import Lib.Base Model.Caches Proofs.CachesP.
Local Open Scope N_scope.

(* a cache with the emptiness guard (rule tables, full Unicode tables, definitions): whatever was asked before,
   whatever loads failed before, the answer to a check is the fresh load of the key asked for *)
Theorem guarded_cache_answers_fresh : forall V (load : str -> option V) s k, slot_inv load s ->
  snd (fst (check load true s k)) = load k.
Proof. exact L_guarded_answer_is_fresh. Qed.
Print Assumptions guarded_cache_answers_fresh.

(* ... for whole histories, of any length *)
Theorem history_answers_are_fresh : forall V (load : str -> option V) ks s, slot_inv load s ->
  map fst (snd (run load true s ks)) = map load ks.
Proof. exact L_history_answers_are_fresh. Qed.
Print Assumptions history_answers_are_fresh.

(* the invariant behind it holds initially and is kept by every check *)
Theorem cache_invariant : forall V (load : str -> option V),
  slot_inv load empty_slot /\ forall guard s k, slot_inv load s -> slot_inv load (fst (fst (check load guard s k))).
Proof. intros V load. split; [apply empty_inv | apply check_inv]. Qed.
Print Assumptions cache_invariant.

(* a cache without the guard (the short Unicode tables, the number patterns): the same, as long as no load has failed *)
Theorem unguarded_cache_answers_fresh : forall V (load : str -> option V) s k, slot_inv load s ->
  (s_key s <> None -> s_val s <> None) -> snd (fst (check load false s k)) = load k.
Proof. exact L_unguarded_answer_is_fresh. Qed.
Print Assumptions unguarded_cache_answers_fresh.

(* asking again for what is loaded costs nothing and changes nothing *)
Theorem second_check_is_free : forall V (load : str -> option V) guard s k v,
  fst (check load guard s k) = (Slot (Some k) (Some v), Some v) ->
  check load guard (Slot (Some k) (Some v)) k = (Slot (Some k) (Some v), Some v, false).
Proof. exact L_second_check_is_free. Qed.
Print Assumptions second_check_is_free.
