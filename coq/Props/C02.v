(* C02 -- returned MathML is well-formed canonical MathML (serialization and the parser's part).  Statements only. *)
From MC Require Import Lib.Base Lib.Tree Gen.OpDict Gen.EscapeTab Model.ParserCore Model.Parser Model.ParserSpec Model.PrettyPrint
     Proofs.PrettyPrintP Proofs.ParserArity Proofs.ParserPlaced.
Local Open Scope N_scope.

(* the escape table of handle_special_chars (regenerated from src/pretty_print.rs on every run): every entry has the
   form &name; and the XML reference decoder reads it back as the character it replaces; the ampersand, both angle
   brackets, the apostrophe and the double quote all have an entry *)
Theorem escape_table_sound : table_okb = true.
Proof. exact table_ok. Qed.
Print Assumptions escape_table_sound.

(* for EVERY text or attribute value: what mml_to_string writes decodes back to exactly that string ... *)
Theorem written_text_reads_back : forall s, unescape (Datatypes.S (List.length (escape s))) (escape s) = Some s.
Proof. exact L_unescape_escape. Qed.
Print Assumptions written_text_reads_back.

(* ... and contains no left angle bracket, no apostrophe (the attribute delimiter of format_attrs) and no double quote:
   a text cannot open a tag and an attribute value cannot end early *)
Theorem written_text_has_no_delimiter : forall s c, In c (escape s) -> delimiter c = false.
Proof. exact L_escape_no_delimiter. Qed.
Print Assumptions written_text_has_no_delimiter.
Theorem attribute_delimiter_is_escaped : delimiter attr_quote = true.
Proof. reflexivity. Qed.
Print Assumptions attribute_delimiter_is_escaped.

(* the parser, for EVERY tree: an element that is not an mrow keeps its tag, its attributes and its number of children
   (fractions, roots, scripts, under/over, tables keep the arity validation gave them) *)
Theorem parser_keeps_arity : forall fuel parent idx t t', canon fuel parent idx t = Ok t' ->
  str_eqb (ptag t) s_mrow = false -> ptag t' = ptag t /\ List.length (pkids t') = List.length (pkids t) /\ pattrs t' = pattrs t.
Proof. exact L_canon_keeps_arity. Qed.
Print Assumptions parser_keeps_arity.

(* every row the parser builds for a well-placed input (Props/C03.v) has at least two children *)
Theorem built_rows_have_two_children : forall t, row_okb t = true -> (2 <= List.length (pkids t))%nat.
Proof. exact L_row_ok_two_children. Qed.
Print Assumptions built_rows_have_two_children.
