(* C02 -- returned MathML is well-formed canonical MathML (serialization and the parser's part).  Statements only. *)
From MC Require Import Lib.Base Lib.Tree Gen.OpDict Gen.EscapeTab Model.ParserCore Model.Parser Model.ParserSpec Model.PrettyPrint
     Proofs.PrettyPrintP Proofs.ParserArity Proofs.ParserPlaced Gen.AssureSets Model.Assure Proofs.AssureP.
Local Open Scope N_scope.

(* the escape table of handle_special_chars (regenerated from src/pretty_print.rs on every run): every entry has the
   form &name; and the XML reference decoder reads it back as the character it replaces; the ampersand, both angle
   brackets, the apostrophe and the double quote all have an entry *)
Theorem escape_table_sound : table_okb = true.
Proof. exact table_ok. Qed.
Print Assumptions escape_table_sound.

(* for EVERY text or attribute value: what mml_to_string writes decodes back to exactly that string ... *)
Theorem written_text_reads_back : forall s, unescape (Datatypes.S (List.length (escape s))) (escape s) = Some s.
Proof. exact L_unescape_escape. Qed.
Print Assumptions written_text_reads_back.

(* ... and contains no left angle bracket, no apostrophe (the attribute delimiter of format_attrs) and no double quote:
   a text cannot open a tag and an attribute value cannot end early *)
Theorem written_text_has_no_delimiter : forall s c, In c (escape s) -> delimiter c = false.
Proof. exact L_escape_no_delimiter. Qed.
Print Assumptions written_text_has_no_delimiter.
Theorem attribute_delimiter_is_escaped : delimiter attr_quote = true.
Proof. reflexivity. Qed.
Print Assumptions attribute_delimiter_is_escaped.

(* the parser, for EVERY tree: an element that is not an mrow keeps its tag, its attributes and its number of children
   (fractions, roots, scripts, under/over, tables keep the arity validation gave them) *)
Theorem parser_keeps_arity : forall fuel parent idx t t', canon fuel parent idx t = Ok t' ->
  str_eqb (ptag t) s_mrow = false -> ptag t' = ptag t /\ List.length (pkids t') = List.length (pkids t) /\ pattrs t' = pattrs t.
Proof. exact L_canon_keeps_arity. Qed.
Print Assumptions parser_keeps_arity.

(* every row the parser builds for a well-placed input (Props/C03.v) has at least two children *)
Theorem built_rows_have_two_children : forall t, row_okb t = true -> (2 <= List.length (pkids t))%nat.
Proof. exact L_row_ok_two_children. Qed.
Print Assumptions built_rows_have_two_children.

(* the validation in front of everything (assure_mathml, name sets regenerated from the source), for EVERY tree it
   accepts and EVERY element of the part that is kept (of a semantics element: its presentation child): an element with
   a fixed number of children has that number; the children of mmultiscripts are a base, pairs and at most one
   mprescripts followed by pairs; a token has no child or one text child, an empty element none; the name is a MathML
   presentation element (or semantics); with the parser keeping arities (above) this is where the arities of the
   returned tree come from *)
Theorem validated_elements_have_their_arity : forall t g e kids, assure t = true -> kept t (El g e kids) ->
  (in_names g fixed_children = true -> List.length kids = fixed_count g) /\
  (g = s_mmultiscripts -> paired kids) /\
  (in_names g leaf_nodes = true -> (if in_names g empty_elements then kids = [] else kids = [] \/ kids = [Tx]) /\ g <> s_annotation) /\
  (in_names g leaf_nodes = true \/ g = s_semantics \/ in_names g all_mathml_elements = true).
Proof. exact L_validated_arities. Qed.
Print Assumptions validated_elements_have_their_arity.

(* a second mprescripts is refused wherever it stands *)
Theorem two_prescripts_are_refused : forall e a p b q c, is_pre p = true -> is_pre q = true ->
  assure (El s_mmultiscripts e (a ++ p :: b ++ q :: c)) = false.
Proof. exact L_two_prescripts_refused. Qed.
Print Assumptions two_prescripts_are_refused.
