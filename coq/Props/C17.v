(* C17 -- equivalent XML spellings give identical results (entity part and pre-parse rewriting).
   Only statements, `exact`, Print Assumptions. *)
From MC Require Import Lib.Base Gen.Entities Gen.RefEntities Model.Prep Proofs.PrepP Gen.AssureSets Model.Trim Proofs.TrimP.
Local Open Scope N_scope.

(* Every one of the table's names means what the HTML5/W3C reference says (up to the documented leading space
   before a combining mark), and every reference name is in the table. *)
Theorem entities_agree : forall nm v, lookupS nm entities = Some v ->
  exists r m, lookupS nm ref_entities = Some r /\ xml_decode v = Some m /\ (m = r \/ m = 32 :: r).
Proof. exact L_entities_agree. Qed.
Print Assumptions entities_agree.

Theorem ref_complete : forall nm r, In (nm, r) ref_entities -> exists v, lookupS nm entities = Some v.
Proof. exact L_ref_complete. Qed.
Print Assumptions ref_complete.

(* In ANY context a named reference to a table entry is replaced by the table's text and nothing else changes... *)
Theorem entity_in_any_context : forall pre post nm v, lookupS nm entities = Some v ->
  subst_entities (pre ++ AMP :: nm ++ SEMI :: post) =
  (fst (subst_entities pre) ++ v ++ fst (subst_entities post), snd (subst_entities pre) ++ snd (subst_entities post)).
Proof. exact L_entity_in_any_context. Qed.
Print Assumptions entity_in_any_context.

(* ... a numeric character reference in the same place is left for the XML parser ... *)
Theorem numeric_ref_untouched : forall pre rest,
  subst_entities (pre ++ AMP :: 35 :: rest) =
  (fst (subst_entities pre) ++ AMP :: 35 :: fst (subst_entities rest), snd (subst_entities pre) ++ snd (subst_entities rest)).
Proof. exact L_numeric_ref_untouched. Qed.
Print Assumptions numeric_ref_untouched.

(* ... and the inserted text is XML-safe (no '<', every '&' opens a numeric reference), so the parser reads the
   meaning stated by entities_agree: named and numeric spellings denote the same character data. *)
Theorem entities_xml_safe : forall nm v, lookupS nm entities = Some v ->
  ~ In 60 v /\ exists m, xml_decode v = Some m.
Proof. exact L_values_xml_safe. Qed.
Print Assumptions entities_xml_safe.

(* An entity name the library does not know is reported, wherever it occurs. *)
Theorem unknown_entity_err : forall pre post nm, nm <> [] -> forallb in_class nm = true -> lookupS nm entities = None ->
  snd (subst_entities (pre ++ AMP :: nm ++ SEMI :: post)) <> [].
Proof. exact L_unknown_entity_err. Qed.
Print Assumptions unknown_entity_err.

Theorem plain_text_untouched : forall s, memN AMP s = false -> subst_entities s = (s, []).
Proof. exact L_plain_text_untouched. Qed.
Print Assumptions plain_text_untouched.

(* trim_element, the first thing done to the parsed XML (token names regenerated from the source), for EVERY document:
   the same document without its comments and processing instructions -- wherever they stand, between elements, inside
   the text of a token, inside HTML embedded in a token -- and without the text between elements (indentation, stray
   words) trims to the same tree (an empty token text and no text are the same thing downstream) *)
Theorem comments_pis_and_stray_text_do_not_matter : forall t, erase (trim (bare false t)) = erase (trim t).
Proof. exact L_spelling_does_not_matter. Qed.
Print Assumptions comments_pis_and_stray_text_do_not_matter.

(* blanks, tabs and line ends around a token's text do not matter (inside, every run counts as one blank) *)
Theorem blanks_around_token_text_do_not_matter : forall pad s pad', forallb is_ws pad = true -> forallb is_ws pad' = true ->
  norm_ws (pad ++ s ++ pad') = norm_ws s.
Proof. exact L_blanks_around_do_not_matter. Qed.
Print Assumptions blanks_around_token_text_do_not_matter.
