(* C15 -- every shipped language, style and braille code loads and works (the file-location layer and the generated
   obligations over the shipped rule tree).  Statements only. *)
From MC Require Import Lib.Base Model.FindFile Proofs.FindFileP Gen.RulesTree Proofs.RulesTreeP Model.RuleAst Proofs.RuleAstP Gen.UnicodeEntries Proofs.UnicodeEntriesP.
From Coq Require Import String.
Local Open Scope N_scope.

(* whatever the file system and whatever name is asked for: what is located exists *)
Theorem located_exists : forall is_file is_dir has_style base parts default file r,
  find_file is_file is_dir has_style base parts default file = Some r ->
  match r with Found p => is_file p = true | AnyStyleIn d => has_style d = true end.
Proof. exact L_located_exists. Qed.
Print Assumptions located_exists.

(* a regional variant: the region's file first, else the language's *)
Theorem region_first : forall is_file is_dir has_style base l r default file,
  is_dir (base ++ [l; r]) = true -> is_file (base ++ [l; r] ++ [file]) = true ->
  find_file is_file is_dir has_style base [l; r] default file = Some (Found (base ++ [l; r] ++ [file])).
Proof. exact L_region_first. Qed.
Print Assumptions region_first.
Theorem region_falls_back_to_language : forall is_file is_dir has_style base l r default file,
  is_dir (base ++ [l; r]) = true -> is_file (base ++ [l; r] ++ [file]) = false -> is_file (base ++ [l] ++ [file]) = true ->
  find_file is_file is_dir has_style base [l; r] default file = Some (Found (base ++ [l] ++ [file])).
Proof. exact L_language_next. Qed.
Print Assumptions region_falls_back_to_language.
Theorem unknown_region_is_the_language : forall is_file is_dir has_style base l r default file,
  is_dir (base ++ [l; r]) = false -> is_dir (base ++ [l]) = true -> is_file (base ++ [l] ++ [file]) = true ->
  find_file is_file is_dir has_style base [l; r] default file = Some (Found (base ++ [l] ++ [file])).
Proof. exact L_region_missing_uses_language. Qed.
Print Assumptions unknown_region_is_the_language.

(* an unknown language is the default language *)
Theorem unknown_language_is_default : forall is_file is_dir has_style base parts dp file,
  lang_dir is_dir base parts = None ->
  find_file is_file is_dir has_style base parts (Some dp) file = find_file is_file is_dir has_style base dp (Some dp) file.
Proof. exact L_unknown_is_default. Qed.
Print Assumptions unknown_language_is_default.

(* on the shipped tree: EVERY language name gets every speech file located ... *)
Theorem every_language_name_is_located : forall parts st file, In st two_styles -> In file (speech_files st) ->
  t_find rules_files speech_base parts english file <> None.
Proof. exact L_every_name_is_located. Qed.
Print Assumptions every_language_name_is_located.

(* ... and a name with no directory at all is selected, and served exactly as English *)
Theorem unknown_language_is_english : forall parts st, In st two_styles ->
  lang_dir T_dir speech_base parts = None ->
  t_locate rules_files speech_base parts english (speech_files st) =
  t_locate rules_files speech_base english english (speech_files st) /\
  t_locate rules_files speech_base parts english (speech_files st) <> None.
Proof. exact L_unknown_language_is_english. Qed.
Print Assumptions unknown_language_is_english.

(* every shipped language and region, with each style name, is served from its own directory *)
Theorem shipped_languages_are_complete :
  forallb (fun lang => forallb (own_files lang) two_styles) shipped_languages = true.
Proof. exact shipped_languages_accept_both_style_names. Qed.
Print Assumptions shipped_languages_are_complete.

(* every shipped braille code is served from its own directory -- except a code whose directory name has a '-'
   (known finding), which is served from the directory named by the part before the '-' *)
Theorem shipped_codes_are_complete :
  forallb (fun c => match c with [code] => own_code code || hyphenated c | _ => false end) shipped_codes = true.
Proof. exact shipped_codes_use_their_own_files. Qed.
Print Assumptions shipped_codes_are_complete.

(* every directory under Languages/ can be selected by its name, except one that holds no rule file (known finding) *)
Theorem language_directories_are_selectable :
  forallb (fun l => selectable l || negb (T_yaml (speech_base ++ [l]))) language_directories = true.
Proof. exact language_directories_selectable. Qed.
Print Assumptions language_directories_are_selectable.

(* every character of every language's Unicode tables is spoken whatever its conditions evaluate to, unless it is a
   space, an invisible operator, a private-use marker or the comma (whose silence is decided by context): the
   replacements are generated as rule ASTs, the analysis runs inside Coq and its meaning is a theorem about the
   evaluation of a replacement under an arbitrary stream of condition outcomes *)
Theorem no_character_is_silenced : forallb (fun f => forallb entry_ok (snd f)) unicode_entries = true.
Proof. exact L_no_character_is_silenced. Qed.
Print Assumptions no_character_is_silenced.

Theorem every_character_speaks : forall file entries c rs, In (file, entries) unicode_entries -> In (c, rs) entries ->
  may_be_silent c = false -> forall s, (0 < spoken (fst (tr_items rs s)))%nat.
Proof. exact L_every_character_speaks. Qed.
Print Assumptions every_character_speaks.

(* the analysis is sound for every replacement, not only the generated ones *)
Theorem speaks_analysis_is_sound : forall rs, speaks_items rs = true -> forall s, (0 < spoken (fst (tr_items rs s)))%nat.
Proof. exact L_speaks_list_sound. Qed.
Print Assumptions speaks_analysis_is_sound.
