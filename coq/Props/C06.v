(* C06 -- braille renders every operand (clean-up layer).  Statements only.
   A clean-up step is read as actions over the top-level pieces of its regex (Keep a re-emitted capture, Drop a
   deleted piece with the characters it can contain, Ins literal replacement text); [step_rel] relates a string to
   every result of replacing any non-overlapping instances, so the theorems hold whatever matches the engine picks. *)
From MC Require Import Lib.Base Model.BrailleClean Gen.BrailleSteps Proofs.BrailleCleanP Proofs.BrailleStepsP.
Local Open Scope N_scope.

(* the general fact: a chain whose steps delete and insert only characters outside a class leaves the sub-sequence of
   the characters of that class unchanged *)
Theorem chain_keeps_projection : forall keep steps s s', forallb (step_okb keep) steps = true -> chain_rel steps s s' ->
  proj keep s' = proj keep s.
Proof. exact chain_keeps. Qed.
Print Assumptions chain_keeps_projection.

(* Nemeth: all 26 steps of nemeth_cleanup (regenerated from src/braille.rs): no digit cell is deleted, duplicated,
   reordered or invented, for every raw string *)
Theorem nemeth_keeps_digits : forall raw out, chain_rel nemeth_steps raw out ->
  proj (keep_digits nemeth_digits) out = proj (keep_digits nemeth_digits) raw.
Proof. exact L_nemeth_keeps_digits. Qed.
Print Assumptions nemeth_keeps_digits.

(* LaTeX, ASCIIMath: the clean-up only moves blanks: everything else survives in order *)
Theorem latex_keeps_text : forall raw out, chain_rel latex_steps raw out -> proj keep_text out = proj keep_text raw.
Proof. exact L_latex_keeps_text. Qed.
Print Assumptions latex_keeps_text.
Theorem asciimath_keeps_text : forall raw out, chain_rel asciimath_steps raw out -> proj keep_text out = proj keep_text raw.
Proof. exact L_asciimath_keeps_text. Qed.
Print Assumptions asciimath_keeps_text.
Theorem blank_free_text_is_its_projection : forall s, forallb keep_text s = true -> proj keep_text s = s.
Proof. exact L_proj_id. Qed.
Print Assumptions blank_free_text_is_its_projection.

(* every code with an indicator table: the final substitution neither deletes nor inserts a digit cell *)
Theorem final_substitutions_keep_digits :
  step_okb (keep_digits nemeth_digits) nemeth_final && step_okb (keep_digits ueb_digits) ueb_final &&
  step_okb (keep_digits cmu_digits) cmu_final && step_okb (keep_digits vietnam_digits) vietnam_final &&
  step_okb (keep_digits swedish_digits) swedish_final = true.
Proof. exact finals_ok. Qed.
Print Assumptions final_substitutions_keep_digits.
Theorem final_substitution_reading : forall code_final digits raw out, step_okb (keep_digits digits) code_final = true ->
  step_rel code_final raw out -> proj (keep_digits digits) out = proj (keep_digits digits) raw.
Proof. exact L_final_keeps_digits. Qed.
Print Assumptions final_substitution_reading.
