(* C11 -- navigation always rests on a node of the current expression.  Statements only.
   Quantified over every expression (id list + root id), every command string, every behaviour of the navigation
   rules within [out_ok] (they name a node of the expression or the "not set" id), every state. *)
From MC Require Import Lib.Base Model.Nav Proofs.NavP Model.KeyMap Proofs.KeyMapP Gen.KeyTab Model.KeyPress Proofs.KeyPressP.
From Coq Require Import String.
Local Close Scope string_scope.
Local Open Scope N_scope.

Theorem nav_inv : forall ids root cmd outs st, in_ids root ids = true -> Inv ids st -> (forall j, out_ok ids (outs j)) ->
  Inv ids (fst (nav_command ids root cmd outs st)).
Proof. exact L_nav_inv. Qed.
Print Assumptions nav_inv.

Theorem position_retrievable : forall ids root st, in_ids root ids = true -> Inv ids st ->
  in_ids (node (cur root st)) ids = true.
Proof. exact L_position_retrievable. Qed.
Print Assumptions position_retrievable.

Theorem new_expression_resets : forall ids' root' st,
  Inv ids' (new_expression st) /\ cur root' (new_expression st) = mkpos root' 0.
Proof. exact L_new_expression_resets. Qed.
Print Assumptions new_expression_resets.

Theorem readonly_no_move : forall ids root cmd outs st, is_move cmd = false -> str_eqb cmd s_MoveLastLocation = false ->
  cur root (fst (nav_command ids root cmd outs st)) = cur root st.
Proof. exact L_readonly_no_move. Qed.
Print Assumptions readonly_no_move.

Theorem placemarker_set : forall ids root cmd outs st i n,
  starts_with s_SetPlacemarker cmd = true -> is_move cmd = false -> str_eqb cmd s_MoveLastLocation = false ->
  last_digit cmd = Some i -> (i < List.length (marks st))%nat ->
  in_ids (node (cur root st)) ids = true -> first_done ids (outs 0%nat) -> r_node (outs 0%nat) = Some n ->
  nth i (marks (fst (nav_command ids root cmd outs st))) default_pos = mkpos n (r_off (outs 0%nat)).
Proof. exact L_placemarker_set. Qed.
Print Assumptions placemarker_set.

Theorem move_to_marker : forall ids root cmd outs st m,
  is_move cmd = true -> ps st <> [] -> in_ids (node (cur root st)) ids = true -> first_done ids (outs 0%nat) ->
  r_node (outs 0%nat) = Some (node m) -> r_off (outs 0%nat) = off m -> str_eqb (node m) illegal = false ->
  node (cur root (fst (nav_command ids root cmd outs st))) = node m.
Proof. exact L_move_to_marker. Qed.
Print Assumptions move_to_marker.

Theorem undo_returns : forall ids root outs st p c,
  ps st <> [] -> in_ids (node (cur root st)) ids = true -> first_done ids (outs 0%nat) ->
  cur root (fst (nav_command ids root s_MoveLastLocation outs (push p c st))) = cur root st.
Proof. exact L_undo_returns. Qed.
Print Assumptions undo_returns.

Theorem nav_total : forall ids root cmd outs st, lens st ->
  (3 + (if str_eqb cmd s_MoveLastLocation then 1 else 0) <= List.length (ps st))%nat ->
  snd (nav_command ids root cmd outs st) <> Panic.
Proof. exact L_nav_total. Qed.
Print Assumptions nav_total.

Theorem nav_total_first : forall ids root cmd outs st,
  in_ids (node (cur root (let s := match ps st with [] => push (mkpos root 0) s_None st | _ => st end in
                          if str_eqb cmd s_MoveLastLocation then pop s else s))) ids = true ->
  first_done ids (outs 0%nat) -> str_eqb cmd s_MoveLastLocation = false ->
  snd (nav_command ids root cmd outs st) <> Panic.
Proof. exact L_nav_total_first. Qed.
Print Assumptions nav_total_first.

(* after the repairs of pop_stack: EVERY command in EVERY state completes or returns an error -- no unwrap of the
   navigation stack can fail, whatever the history and whatever the rules answer *)
Theorem nav_never_panics : forall ids root cmd outs st, snd (nav_command ids root cmd outs st) <> Panic.
Proof. exact L_nav_never_panics. Qed.
Print Assumptions nav_never_panics.

(* the scenario in which the unwraps were reachable before the repairs now completes *)
Theorem silent_first_try_completes :
  snd (nav_command [S "r"%string] (S "r"%string) (S "ReadCurrent"%string) silent_then_done init_state) = Done /\
  snd (nav_command [S "r"%string] (S "r"%string) (S "MoveLastLocation"%string) silent_then_done init_state) = Done.
Proof. exact L_silent_first_try_completes. Qed.
Print Assumptions silent_first_try_completes.

(* the key table of the documentation (Model/KeyMap.v; tied cell by cell to do_navigate_keypress by Tie/KeyMapTie.v): no key
   combination is documented twice, and a digit jumps to the marker that Ctrl + the same digit sets while Shift and Ctrl+Shift
   only read and describe it *)
Theorem no_key_combination_is_documented_twice : NoDup (map cell_key documented).
Proof. exact L_no_cell_documented_twice. Qed.
Print Assumptions no_key_combination_is_documented_twice.

Theorem digit_keys_are_the_place_marker_row : forall d, (d < 10)%N ->
  decode documented (48 + d) false false = Some (S "MoveTo" ++ [48 + d])%list /\
  decode documented (48 + d) true false = Some (S "SetPlacemarker" ++ [48 + d])%list /\
  decode documented (48 + d) false true = Some (S "Read" ++ [48 + d])%list /\
  decode documented (48 + d) true true = Some (S "Describe" ++ [48 + d])%list.
Proof. exact L_digit_row. Qed.
Print Assumptions digit_keys_are_the_place_marker_row.

(* every documented cell of the key table (docs/nav-commands.md as Model/KeyMap.v) is what the code's own table
   (regenerated from src/navigate.rs on every run) gives: pressing the key hands on exactly the documented command *)
Theorem documented_key_is_its_command : forall k ct sh name, In (k, ct, sh, name) documented ->
  press k sh ct false false = PCommand name.
Proof. exact L_documented_key_is_its_command. Qed.
Print Assumptions documented_key_is_its_command.
