(* C16 -- split numbers fold into the same number as the unsplit form.  Statements only. *)
From MC Require Import Lib.Base Lib.Regex Model.NumberFold Proofs.NumberFoldP.
Local Open Scope N_scope.

(* the matcher that decides the locale patterns in the model is correct for every expression and string *)
Theorem matcher_correct : forall s r, matchb r s = true <-> Matches r s.
Proof. exact matchb_correct. Qed.
Print Assumptions matcher_correct.

(* folding never absorbs anything that is not part of a syntactically valid number of the locale: a span is merged
   only if the text that was checked matches one of the locale's number patterns ... *)
Theorem fold_sound : forall c dom span, is_likely c dom span = true ->
  likely_pattern c (trim (checked_text false span)) = true.
Proof. exact L_fold_sound. Qed.
Print Assumptions fold_sound.

(* ... and the right-sibling scan only ever absorbs separator-free numbers and mo / mtext tokens that carry one of
   the locale's separators -- whatever the row looks like *)
Theorem scan_absorbs_only_number_parts : forall c nc l hd,
  forallb (absorbable c) (firstn (fst (scan c nc hd l)) l) = true.
Proof. exact L_scan_absorbs_only_number_parts. Qed.
Print Assumptions scan_absorbs_only_number_parts.

(* a comma-separated span directly enclosed by two fences is never folded, whatever the numbers are *)
Theorem fenced_span_not_merged : forall c dom span p n f l,
  span = f :: l -> rev span <> [] ->
  memN 44 (trim (checked_text false span)) = true ->
  firstn (idx f) dom <> [] -> rev (firstn (idx f) dom) = p :: rev (removelast (firstn (idx f) dom)) ->
  skipn (Datatypes.S (idx (last span f))) dom = n :: tl (skipn (Datatypes.S (idx (last span f))) dom) ->
  is_fence_mo p = true -> is_fence_mo n = true ->
  is_likely c dom span = false.
Proof. exact L_fenced_span_not_merged. Qed.
Print Assumptions fenced_span_not_merged.

Theorem fenced_comma_list_kept : forall c a b,
  is_likely c [mo [40] true 0; mn a 1; mo [44] false 2; mn b 3; mo [41] true 4] [mn a 1; mo [44] false 2; mn b 3] = true ->
  memN 44 (trim (a ++ [44] ++ b)) = true -> False.
Proof. exact L_fenced_comma_list_kept. Qed.
Print Assumptions fenced_comma_list_kept.

(* every number of the locale grammar (lead group of 1-3 digits, any number of separator + 3-digit groups, optional
   decimal mark and fraction) matches the block pattern -- for every separator setting *)
Theorem grammar_number_matches : forall blk dc lead gs frac d,
  digits lead -> (1 <= List.length lead <= 3)%nat -> groups blk gs -> In d dc -> digits frac ->
  matchb (number_pattern blk dc 3 3) (lead ++ gs) = true /\
  matchb (number_pattern blk dc 3 3) (lead ++ gs ++ d :: frac) = true.
Proof. exact L_grammar_number_matches. Qed.
Print Assumptions grammar_number_matches.
