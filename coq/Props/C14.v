(* C14 -- broken rule files give errors, and recovery is complete (the caching layer over a changing file system).
   Statements only; the proofs are in Proofs/CachesFSP.v. *)
From MC Require Import Lib.Base Model.CachesFS Proofs.CachesFSP.
Local Open Scope N_scope.

(* file checking enabled: for every history of file-system states (faults, repairs, anything), files asked for and
   earlier failures, every answer is what the files of the moment give -- an error exactly while the load fails,
   the value of the repaired files as soon as they are repaired *)
Theorem timed_history_is_fresh : forall V guard (h : list (call V)) past (s : fslot V),
  finv (fun x => In x past) s -> faithful_hist past h -> forallb timed h = true ->
  map fst (snd (frun guard s h)) = map fresh h.
Proof. exact L_timed_history_is_fresh. Qed.
Print Assumptions timed_history_is_fresh.

(* re-pointing: asking for another head file than the one on record gives the fresh load, in every mode *)
Theorem repoint_answer_is_fresh : forall V ig guard (fs : fsys V) (s : fslot V) k,
  (forall k' t r, fs_files s = (k', t) :: r -> k' <> k) ->
  snd (fst (fcheck ig guard fs s k)) = option_map fst (f_load fs k).
Proof. exact L_repoint_answer_is_fresh. Qed.
Print Assumptions repoint_answer_is_fresh.

(* every mode, every history: an answer is a complete successful load of the file asked for (never a half-read table,
   never the table of another file), an error is a present failure of that file *)
Theorem history_answers_are_loads : forall V guard (h : list (call V)) past (s : fslot V),
  finv (fun x => In x past) s -> answers_ok V past h (snd (frun guard s h)).
Proof. exact L_history_answers_are_loads. Qed.
Print Assumptions history_answers_are_loads.

(* a failed load leaves nothing behind and is retried by the next call *)
Theorem failed_load_is_retried : forall V ig guard (P : fsys V -> Prop) (fs : fsys V) (s : fslot V) k,
  finv P s -> snd (fst (fcheck ig guard fs s k)) = None ->
  fst (fst (fcheck ig guard fs s k)) = fempty /\
  forall ig' (fs' : fsys V) k', snd (fcheck ig' guard fs' fempty k') = true /\
                                snd (fst (fcheck ig' guard fs' fempty k')) = option_map fst (f_load fs' k').
Proof. exact L_failure_is_retried. Qed.
Print Assumptions failed_load_is_retried.

(* the invariant is kept by every check *)
Theorem slot_invariant : forall V ig guard (P : fsys V -> Prop) (fs : fsys V) (s : fslot V) k, finv P s ->
  finv (fun x => x = fs \/ P x) (fst (fst (fcheck ig guard fs s k))).
Proof. exact fcheck_inv. Qed.
Print Assumptions slot_invariant.

(* keeping the record of the previous load after a failure (the library before the repair) breaks recovery *)
Theorem kept_record_is_stale :
  let '(s1, _, _) := fcheck_keep true false demo_fs fempty [1] in
  let '(s2, v2, _) := fcheck_keep true false demo_fs s1 [2] in
  let '(_, v3, b3) := fcheck_keep true false demo_fs s2 [1] in
  v2 = None /\ v3 = None /\ b3 = false /\ option_map fst (f_load demo_fs [1]) = Some 1.
Proof. exact L_kept_record_is_stale. Qed.
Print Assumptions kept_record_is_stale.
