(* C20 -- braille highlighting and cursor routing are safe and side-effect free (arithmetic part).  Statements only. *)
From MC Require Import Lib.Base Gen.HighlightTabs Model.Highlight Proofs.HighlightP.
Local Open Scope N_scope.

(* every 6-dot cell: highlighting can be undone and is recognised; a plain cell is not "highlighted" *)
Theorem highlight_roundtrip : forall c, 0x2800 <= c -> c <= 0x283F ->
  unhighlight (highlight c) = c /\ is_highlighted (highlight c) = true /\ is_highlighted c = false /\ unhighlight c = c.
Proof. exact L_highlight_roundtrip. Qed.
Print Assumptions highlight_roundtrip.

(* with no highlighted cell (highlighting off, or no node with the given id) the braille is returned untouched and the
   reported range is the whole string *)
Theorem no_highlight_identity : forall s n u fill, forallb (fun c => negb (is_highlighted c)) s = true ->
  highlight_braille_chars s n u fill = HOk s 0 (bytes s / 3).
Proof. exact L_no_highlight_identity. Qed.
Print Assumptions no_highlight_identity.

(* for EVERY string (braille cells or passed-through characters of any width), code and style the function returns:
   none of its slices or subtractions can fail *)
Theorem highlight_total : forall s n u fill, highlight_braille_chars s n u fill <> HPanic.
Proof. exact L_highlight_total. Qed.
Print Assumptions highlight_total.

Theorem lookback_bounded_nemeth : forall r f, (i_start_nemeth r f <= List.length r)%nat.
Proof. exact i_start_nemeth_le. Qed.
Print Assumptions lookback_bounded_nemeth.

Theorem lookback_bounded_ueb : forall fuel r, (i_start_ueb fuel r <= List.length r)%nat.
Proof. exact i_start_ueb_le. Qed.
Print Assumptions lookback_bounded_ueb.

(* whichever exit point get_navigation_node_from_braille_position leaves through (`?`, return, bail!, or the end),
   the BrailleNavHighlight preference is not left overridden *)
Theorem route_restores_pref : forall k, run_events false route_events k = false.
Proof. exact L_route_restores_pref. Qed.
Print Assumptions route_restores_pref.
