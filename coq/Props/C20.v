(* C20 -- braille highlighting and cursor routing are safe and side-effect free (arithmetic part).  Statements only. *)
From MC Require Import Lib.Base Gen.HighlightTabs Model.Highlight Proofs.HighlightP Model.Route Proofs.RouteP.
Local Open Scope N_scope.

(* every 6-dot cell: highlighting can be undone and is recognised; a plain cell is not "highlighted" *)
Theorem highlight_roundtrip : forall c, 0x2800 <= c -> c <= 0x283F ->
  unhighlight (highlight c) = c /\ is_highlighted (highlight c) = true /\ is_highlighted c = false /\ unhighlight c = c.
Proof. exact L_highlight_roundtrip. Qed.
Print Assumptions highlight_roundtrip.

(* with no highlighted cell (highlighting off, or no node with the given id) the braille is returned untouched and the
   reported range is the whole string *)
Theorem no_highlight_identity : forall s n u fill, forallb (fun c => negb (is_highlighted c)) s = true ->
  highlight_braille_chars s n u fill = HOk s 0 (bytes s / 3).
Proof. exact L_no_highlight_identity. Qed.
Print Assumptions no_highlight_identity.

(* for EVERY string (braille cells or passed-through characters of any width), code and style the function returns:
   none of its slices or subtractions can fail *)
Theorem highlight_total : forall s n u fill, highlight_braille_chars s n u fill <> HPanic.
Proof. exact L_highlight_total. Qed.
Print Assumptions highlight_total.

Theorem lookback_bounded_nemeth : forall r f, (i_start_nemeth r f <= List.length r)%nat.
Proof. exact i_start_nemeth_le. Qed.
Print Assumptions lookback_bounded_nemeth.

Theorem lookback_bounded_ueb : forall fuel r, (i_start_ueb fuel r <= List.length r)%nat.
Proof. exact i_start_ueb_le. Qed.
Print Assumptions lookback_bounded_ueb.

(* whichever exit point get_navigation_node_from_braille_position leaves through (`?`, return, bail!, or the end),
   the BrailleNavHighlight preference is not left overridden *)
Theorem route_restores_pref : forall k, run_events false route_events k = false.
Proof. exact L_route_restores_pref. Qed.
Print Assumptions route_restores_pref.

(* ------------------------------------------------------------------------------------------------------------------
   Cursor routing (Model/Route.v: get_navigation_node_from_braille_position / find_navigation_node with its guesses and
   its narrowing of the range of children; tied by Tie/RouteTie.v).  What the braille rules produce is data of the model:
   the statements hold for EVERY annotated tree -- whatever cells each element occupies, whatever the estimates are -- every
   target cell and every fuel.
   ------------------------------------------------------------------------------------------------------------------ *)

(* what a probe answers is right about the target: "found" means the target lies in the cells of the node named, "look
   left" that it lies before them, "look right" that it lies after them (or nothing was highlighted); the node named
   lies below the node probed *)
Theorem probe_is_sound : forall fuel blen t target a, find fuel blen t target = Some a ->
  below t (a_node a) /\ sound blen target a.
Proof. exact L_find_sound. Qed.
Print Assumptions probe_is_sound.

(* routing names the <math> element with offset 0, or an element of the expression whose cells contain the target cell,
   with the offset of the target inside those cells *)
Theorem routing_is_sound : forall fuel blen mid top target i off, route fuel blen mid top target = Some (i, off) ->
  (i = mid /\ off = 0) \/
  (exists n, below top n /\ i = r_id n /\ r_st n + off = target /\ target <= r_en n).
Proof. exact L_route_sound. Qed.
Print Assumptions routing_is_sound.

(* the id handed out belongs to the expression *)
Theorem routed_id_belongs_to_the_expression : forall fuel blen mid top target i off, route fuel blen mid top target = Some (i, off) ->
  i = mid \/ In i (ids top).
Proof. exact L_route_id_in_expression. Qed.
Print Assumptions routed_id_belongs_to_the_expression.
