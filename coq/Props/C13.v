(* C13 -- speech-engine markup is well formed and never changes the words.  Statements only. *)
From MC Require Import Lib.Base Gen.TtsTabs Model.Tts Proofs.TtsP.
Local Open Scope N_scope.

(* Every start/end template of both markup engines (regenerated from tts.rs): the end template closes exactly the
   element the start template opens, an empty element has no end, attributes are name=quoted-value with matching
   quotes and no repetition, and the element belongs to the engine's vocabulary. *)
Theorem tag_tables_match : forall e c st en, In (e, c, st, en) tag_table ->
  row_ok st en = true /\ row_in_vocab e st = true.
Proof. exact L_tag_tables_match. Qed.
Print Assumptions tag_tables_match.

(* numeric attribute values are the number followed by a fixed unit -- nothing is written before the number *)
Theorem numeric_attr_values : forall e c st en, In (e, c, st, en) tag_table -> numeric_values_ok st = true.
Proof. exact L_numeric_attr_values. Qed.
Print Assumptions numeric_attr_values.

(* For EVERY derivation (any nesting of TTS commands, text and bookmarks) the emitted tags are properly nested. *)
Theorem emit_well_nested : forall e d, balanced (emit e d) = true.
Proof. exact L_emit_well_nested. Qed.
Print Assumptions emit_well_nested.

(* Removing the tags leaves exactly the words of the no-engine run, pauses aside. *)
Theorem strip_tags_words : forall e d, e = 1 \/ e = 2 ->
  nonempty_texts (emit e d) = nonempty_texts (emit 0 (drop_pause_leads d)).
Proof. exact L_strip_tags_words. Qed.
Print Assumptions strip_tags_words.

Theorem merge_pauses_preserves_balance : forall p l, balanced (merge_toks p false l) = balanced l.
Proof. exact L_merge_pauses_preserves_balance. Qed.
Print Assumptions merge_pauses_preserves_balance.

Theorem merge_pauses_keeps_words : forall p b l, nonblank_texts (merge_toks p b l) = nonblank_texts l.
Proof. exact L_merge_pauses_keeps_words. Qed.
Print Assumptions merge_pauses_keeps_words.
