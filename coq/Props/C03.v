(* C03 -- row structure follows the operator dictionary.  Statements only.
   Model: Model/ParserCore.v (shift/reduce machine) + Model/Parser.v (classification, canonicalize_mrows), a port of
   src/canonicalize.rs over the GENERATED operator dictionary; vocabulary of the statements: Model/ParserSpec.v. *)
From MC Require Import Lib.Base Lib.Tree Gen.OpDict Model.ParserCore Model.Parser Model.ParserSpec
     Proofs.ParserNary Proofs.ParserP Proofs.ParserGood Proofs.ParserPlaced Proofs.ParserSep.
Local Open Scope N_scope.

(* The generated dictionary: every entry has one to three forms, each of them prefix / infix / postfix / left fence /
   right fence; fences have a priority in 1..20 and every other operator a priority above 20 (so a closing fence
   reduces everything inside its pair and nothing outside). *)
Theorem dictionary_wellformed : forallb entry_okb opdict = true.
Proof. exact opdict_ok. Qed.
Print Assumptions dictionary_wellformed.

(* ... hence OperatorVersions::new cannot reach its panic! for any operator text *)
Theorem operator_versions_never_panic : forall s chain, dict_get s = Some chain ->
  exists v, operator_versions chain (None, None, None) = Ok v.
Proof. exact dictionary_versions_total. Qed.
Print Assumptions operator_versions_never_panic.

(* "is the same n-ary operator" (is_nary: same dictionary cell, or both +/-, or both times) is an equivalence, *)
Theorem nary_equivalence :
  (forall a, is_nary a a = true) /\ (forall a b, is_nary a b = is_nary b a) /\
  (forall a b c, is_nary a b = true -> is_nary b c = true -> is_nary a c = true).
Proof. exact (conj is_nary_refl (conj is_nary_sym is_nary_trans)). Qed.
Print Assumptions nary_equivalence.

(* ... and operators that merge into one row have one priority and one form: "operators side by side in one row
   belong to one precedence class" *)
Theorem nary_one_priority : forall a b, good a -> good b -> is_nary a b = true -> o_prio a = o_prio b /\ o_ty a = o_ty b.
Proof. exact good_nary. Qed.
Print Assumptions nary_one_priority.

(* One step of the shift/reduce machine (any decision that fits the stack: an operand where one is expected, an infix
   or postfix operator or right fence after an operand, a prefix operator or left fence, an implied operator between
   operands) keeps the invariant: every frame is a well-formed partial row, priorities do not decrease from the bottom
   of the stack to the top, every finished row is well formed. *)
Theorem machine_step_keeps_rows_canonical : forall st d st',
  inv good st -> wf_dec good st d -> act st d = Ok st' -> inv good st'.
Proof. exact mact_inv. Qed.
Print Assumptions machine_step_keeps_rows_canonical.

(* For every tree, of any size and nesting: if the classifier places each child of each row where its form fits
   ([well_placed], an executable check; see plain_rows_are_well_placed in Tie/C03Tie.v for non-vacuity), then in the
   result every row with operators is one of prefix [p e], postfix [e s], fenced [l e r], infix [e0 o1 e1 .. ok ek]
   with all oi of one n-ary class and priority r; every operand followed by an operator binds strictly tighter than
   r; the last operand binds at least as tightly (equal priority, different operator: nested to the right); a prefix
   row may be the last operand of anything. *)
Theorem rows_follow_priorities : forall t t',
  well_placed t = true -> canon (psize (lift t)) [] 0%nat (lift t) = Ok t' -> deep_okb t' = true.
Proof.
  intros t t' H C. unfold well_placed in H. apply andb_true_iff in H. destruct H as [_ H]. exact (canon_deep _ _ _ _ _ H C).
Qed.
Print Assumptions rows_follow_priorities.

(* adjacent operands are always separated by an operator *)
Theorem operands_are_separated : forall t, row_okb t = true -> separatedb (pkids t) = true.
Proof. exact row_ok_separated. Qed.
Print Assumptions operands_are_separated.

(* a row that starts with a left fence holds the fence, at most one operand, and (if closed) the right fence *)
Theorem fences_enclose_their_contents : forall t l lf rest, pkids t = l :: rest -> pann l = Some lf -> is_left_fence lf = true ->
  row_okb t = true -> fenced_shapeb (pkids t) = true.
Proof. exact row_ok_fenced. Qed.
Print Assumptions fences_enclose_their_contents.
