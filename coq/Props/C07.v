(* C07 -- braille output uses only the target alphabet (clean-up layer).  Statements only. *)
From MC Require Import Lib.Base Model.BrailleAlpha Gen.BrailleTabs Proofs.BrailleAlphaP.
Local Open Scope N_scope.

(* the final indicator substitution, for EVERY string: if every character is a braille cell or an indicator the table
   (or a preference) turns into cells, the result consists of braille cells only *)
Theorem final_subst_clears_class : forall table cls prefs s,
  forallb (char_ok table cls prefs) s = true -> forallb is_cell (final_subst table cls prefs s) = true.
Proof. exact final_subst_cells. Qed.
Print Assumptions final_subst_clears_class.

Theorem final_subst_no_dots78 : forall table cls prefs s,
  forallb (char_ok_plain table cls prefs) s = true ->
  forallb (fun x => is_cell x && negb (has_dots78 x)) (final_subst table cls prefs s) = true.
Proof. exact final_subst_plain. Qed.
Print Assumptions final_subst_no_dots78.

Theorem trimming_keeps_cells : forall (f : N -> bool) s, forallb is_cell s = true -> forallb is_cell (filter f s) = true.
Proof. exact filter_keeps_cells. Qed.
Print Assumptions trimming_keeps_cells.

(* per code, over the tables / classes regenerated from braille.rs and ALL literal texts of its rule and Unicode
   files: table and class are in step, every text (known findings aside) only contains characters that end up as
   braille cells, and no text carries a dots-7-8 cell *)
Theorem nemeth_tables_and_texts : code_ok nemeth_table nemeth_class nemeth_prefs nemeth_exempt nemeth_texts nemeth_literals = true.
Proof. exact nemeth_ok. Qed.
Print Assumptions nemeth_tables_and_texts.
Theorem ueb_tables_and_texts : code_ok ueb_table ueb_class ueb_prefs ueb_exempt ueb_texts ueb_literals = true.
Proof. exact ueb_ok. Qed.
Print Assumptions ueb_tables_and_texts.
Theorem vietnam_tables_and_texts : code_ok vietnam_table vietnam_class vietnam_prefs vietnam_exempt vietnam_texts vietnam_literals = true.
Proof. exact vietnam_ok. Qed.
Print Assumptions vietnam_tables_and_texts.
Theorem cmu_tables_and_texts : code_ok cmu_table cmu_class cmu_prefs cmu_exempt cmu_texts cmu_literals = true.
Proof. exact cmu_ok. Qed.
Print Assumptions cmu_tables_and_texts.
Theorem swedish_tables_and_texts : code_ok swedish_table swedish_class swedish_prefs swedish_exempt swedish_texts swedish_literals = true.
Proof. exact swedish_ok. Qed.
Print Assumptions swedish_tables_and_texts.

Theorem text_reading : forall table cls prefs exempt texts lits t,
  code_ok table cls prefs exempt texts lits = true -> In t texts -> in_strs t exempt = false ->
  text_ok table cls prefs t = true /\ forallb (fun c => negb (has_dots78 c)) t = true.
Proof. exact code_ok_text. Qed.
Print Assumptions text_reading.
