(* C08 -- no API call crashes the host; errors are reported and recoverable.  Statements only.
   What is proved is about the models of the shift/reduce parser core (C03), the navigation state machine (C11), the
   preference maps (C12) and their composition into one session; everything else on the paths from the interface
   (clean-up passes, chemistry, intent, XPath evaluation, braille back ends) is decided by the history oracle only.
   A key press (CKey) is a call of the session model: the key is translated by the table regenerated from the source
   (Model/KeyPress.v), then the command runs on the navigation model. *)
From MC Require Import Lib.Base Lib.Tree Gen.OpDict Model.ParserCore Model.Parser Model.ParserSpec
     Proofs.ParserP Proofs.ParserGood Proofs.ParserTotal Model.Prefs Model.Nav Model.Session Proofs.PrefsP Proofs.NavP Proofs.SessionP
     Gen.KeyTab Model.KeyPress Proofs.KeyPressP.
Local Open Scope N_scope.

(* PROGRESS of the shift/reduce machine: under the stack invariant every well-formed decision is carried out -- no
   add_child on a full frame, no remove_last_operand on an empty one, no pop of an empty stack, no children()[0] of a
   childless script, enough fuel for reduce ... *)
Theorem machine_step_never_panics : forall st d,
  inv good st -> wf_dec good st d -> shape_dec d -> exists st', act st d = ParserCore.Ok st'.
Proof. exact (act_total good good_nary good_not_illegal). Qed.
Print Assumptions machine_step_never_panics.

(* ... hence every well-formed decision sequence, of any length, runs to its end and ends in a state that meets the
   invariant again (progress + preservation) *)
Theorem machine_run_never_panics : forall ds st,
  inv good st -> wf_run good st ds -> Forall shape_dec ds -> exists st', ParserP.run st ds = ParserCore.Ok st' /\ inv good st'.
Proof. exact (run_total good good_nary (proj2 (proj2 (proj2 (proj2 good_named)))) good_not_illegal). Qed.
Print Assumptions machine_run_never_panics.

(* reduce never runs out of fuel and never pops the last frame *)
Theorem reduce_never_panics : forall cur st, sinv (closedb cur) st -> Forall fdeep st -> top_full st ->
  exists st', reduce cur st = ParserCore.Ok st'.
Proof. exact reduce_total. Qed.
Print Assumptions reduce_never_panics.

(* OperatorVersions::new cannot reach its panic! for any operator text of the generated dictionary *)
Theorem operator_versions_never_panic : forall s chain, dict_get s = Some chain ->
  exists v, operator_versions chain (None, None, None) = ParserCore.Ok v.
Proof. exact dictionary_versions_total. Qed.
Print Assumptions operator_versions_never_panic.

(* navigation: EVERY command in EVERY state, whatever the rules answer: no unwrap of the position stack can fail *)
Theorem navigation_never_panics : forall ids root cmd outs st, snd (nav_command ids root cmd outs st) <> Nav.Panic.
Proof. exact L_nav_never_panics. Qed.
Print Assumptions navigation_never_panics.

(* the whole session: whatever the history of set_preference (any name, any value), set_mathml (accepted or
   rejected), navigation commands, set_navigation_node and getters -- no call panics *)
Theorem session_never_panics : forall udp fl cl ff h s c, wf (s_prefs s) ->
  snd (Session.step udp fl cl ff (Session.run udp fl cl ff s h) c) <> APanic.
Proof. exact L_session_never_panics. Qed.
Print Assumptions session_never_panics.

(* an expression that is rejected changes nothing *)
Theorem rejected_expression_changes_nothing : forall udp fl cl ff s,
  Session.step udp fl cl ff s (CSetMathml None) = (s, AErr).
Proof. exact L_rejected_changes_nothing. Qed.
Print Assumptions rejected_expression_changes_nothing.

(* recovery: after ANY history, errors included, an accepted expression leaves the preferences of the set_preference
   calls made, the new expression, and a navigation state that remembers nothing but its mode *)
Theorem recovery_after_any_history : forall udp fl cl ff h s e,
  let s1 := Session.run udp fl cl ff s h in
  Session.step udp fl cl ff s1 (CSetMathml (Some e)) =
    (mkses (Prefs.run udp fl cl ff (s_prefs s) (pref_ops h)) (Some e)
           (mkst [] [] (repeat default_pos MAX_PLACE_MARKERS) (mode (s_nav s1)) (overview (s_nav s1))), AOk).
Proof. exact L_recovery. Qed.
Print Assumptions recovery_after_any_history.

(* do_navigate_keypress up to the command it hands on (key table and name table regenerated from src/navigate.rs on every
   run; an index below its base or past its table, a name lookup that falls into a panic arm are PPanic in the model):
   for EVERY key code and EVERY combination of Shift, Control, Alt and Meta the key press is refused with an error or
   stands for a command name -- it never panics ... *)
Theorem key_press_never_panics : forall k sh ct al me, press k sh ct al me <> PPanic.
Proof. exact L_press_never_panics. Qed.
Print Assumptions key_press_never_panics.

(* ... and the name is one the navigation knows (NAV_COMMANDS, regenerated) or the placeholder "Error", which
   do_navigate_command_string refuses with an error *)
Theorem key_press_names_a_known_command : forall k sh ct al me s, press k sh ct al me = PCommand s ->
  s = final_string \/ In s nav_commands.
Proof. exact L_press_names_a_command. Qed.
Print Assumptions key_press_names_a_known_command.

(* a key with Alt (but an arrow key with Control as well) or with Meta is refused *)
Theorem alt_and_meta_are_refused : forall k sh ct al me,
  (al = true /\ ct && memN k alt_control_keys = false) \/ me = true -> press k sh ct al me = PErr.
Proof. exact L_alt_and_meta_are_refused. Qed.
Print Assumptions alt_and_meta_are_refused.

(* a key no arm of the table mentions is refused *)
Theorem unlisted_keys_are_refused : forall k sh ct al me, ~ In k arm_keys -> press k sh ct al me = PErr.
Proof. exact L_unlisted_key_is_refused. Qed.
Print Assumptions unlisted_keys_are_refused.
