(* C09 -- every node gets a unique id and author ids are kept (id assignment part).  Statements only. *)
From MC Require Import Lib.Base Lib.Tree Gen.ElemSets Model.Ids Proofs.IdsP.
Local Open Scope N_scope.

(* for EVERY tree -- no, some, all or duplicated author ids -- the ids of the result are pairwise distinct *)
Theorem ids_unique : forall t, NoDup (ids_of t).
Proof. exact L_ids_unique. Qed.
Print Assumptions ids_unique.

(* every element (down to and including the token elements) carries an id *)
Theorem every_element_has_id : forall t, List.length (ids_of t) = visited t.
Proof. exact L_every_element_has_id. Qed.
Print Assumptions every_element_has_id.

(* an author id stays on its element unless an earlier element already carries the same id *)
Theorem author_id_kept : forall t count seen a, attr_get s_id (attrs_of t) = Some a -> ~ In (Auth a) seen ->
  hd (Gen 0) (fst (fst (add_ids t count seen))) = Auth a.
Proof. exact L_author_id_kept. Qed.
Print Assumptions author_id_kept.
