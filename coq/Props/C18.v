(* C18 -- mathvariant maps characters to the right Unicode math letters.
   This file holds only the property theorems: statement, `exact lemma`, Print Assumptions. *)
From MC Require Import Lib.Base Gen.MathVariant Gen.UcdMath Model.MathVariant Proofs.MathVariantP.
Local Open Scope N_scope.

(* Where Unicode assigns a character to (style, letter), that character is produced
   (plain-italic Latin, MathML's default identifier style, is left as it is). *)
Theorem variant_matches_ucd : forall sty c u, In (sty, c, u) ucd_map ->
  plane1_char sty c = expected_when_ucd sty c u.
Proof. exact L_variant_matches_ucd. Qed.
Print Assumptions variant_matches_ucd.

(* Where Unicode has none: unchanged, bold Greek for bold-script / bold-fraktur, upright digit for italic styles. *)
Theorem variant_fallback_documented : forall sty c, In sty ucd_styles -> In c ucd_domain -> ucd sty c = None ->
  fallback_ok sty c (plane1_char sty c) = true.
Proof. exact L_variant_fallback_documented. Qed.
Print Assumptions variant_fallback_documented.

Theorem variant_plain_italic_identity : forall c, is_latin c = true -> plane1_char st_italic c = c.
Proof. exact L_variant_plain_italic_identity. Qed.
Print Assumptions variant_plain_italic_identity.

(* for EVERY variant string (mapped, unknown, absent) and EVERY text: each produced code point is either a
   code point of the input or a valid, assigned scalar value (this is the from_u32_unchecked obligation). *)
Theorem variant_valid_assigned : forall (variant : option str) (text : str) (r : N),
  In r (plane1 variant text) -> In r text \/ (valid_scalar r = true /\ assigned r = true).
Proof. exact L_variant_valid_assigned. Qed.
Print Assumptions variant_valid_assigned.

Theorem variant_injective_on_domain : forall sty c1 c2,
  (In c1 table_domain \/ In c1 ucd_domain) -> (In c2 table_domain \/ In c2 ucd_domain) ->
  plane1_char sty c1 = plane1_char sty c2 -> c1 = c2.
Proof. exact L_variant_injective_on_domain. Qed.
Print Assumptions variant_injective_on_domain.

Theorem unknown_variant_identity : forall v text, ~ In v (map fst math_variants) -> plane1 (Some v) text = text.
Proof. exact L_unknown_variant_identity. Qed.
Print Assumptions unknown_variant_identity.

Theorem mapped_variants_are_the_unicode_styles : forall s,
  (exists s', In s' ucd_styles /\ str_eqb s s' = true) <-> (exists s', In s' (map fst math_variants) /\ str_eqb s s' = true).
Proof. exact L_mapped_variants_are_the_unicode_styles. Qed.
Print Assumptions mapped_variants_are_the_unicode_styles.

(* no table index can make the [u32;3] lookup panic *)
Theorem tables_in_range : (forall c off tbl, In (c, (off, tbl)) shift_amounts -> tbl < 3) /\ digamma_idx < 3.
Proof. exact L_tables_in_range. Qed.
Print Assumptions tables_in_range.
