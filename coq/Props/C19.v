(* C19 -- illegal intent values are ignored or reported as configured (lexer / parser / attribute handling).
   Statements only.  The speech-rule engine and the argument search are oracles (Section variables of the model). *)
From MC Require Import Lib.Base Lib.Tree Gen.IntentRe Gen.ElemSets Model.Intent Proofs.IntentP.
Local Open Scope N_scope.

(* every token consumes at least one code point, so lexing any string terminates ... *)
Theorem lex_progress : forall s t r, lex1 s = Some (t, r) -> (List.length r < List.length s)%nat.
Proof. exact L_lex_progress. Qed.
Print Assumptions lex_progress.

(* ... within as many steps as the string has code points *)
Theorem lex_fuel_suffices : forall fuel s, (List.length s <= fuel)%nat -> lex_all fuel s = lex_all (List.length s) s.
Proof. exact L_lex_fuel_suffices. Qed.
Print Assumptions lex_fuel_suffices.

(* the parser never runs out of its budget: for EVERY token sequence and every behaviour of the oracles it returns a
   tree or an error (no unbounded recursion on any intent value, however deeply nested) *)
Theorem intent_fuel_suffices : forall find_arg match_self self_name toks,
  build_intent find_arg match_self self_name (3 * List.length toks + 3) toks <> PFuel.
Proof. exact L_intent_fuel_suffices. Qed.
Print Assumptions intent_fuel_suffices.

(* what is accepted is grammatical: the whole token sequence derives from the intent grammar *)
Theorem grammar_sound : forall find_arg match_self self_name s t,
  parse find_arg match_self self_name s = Some t ->
  exists toks, lex s = Some toks /\ Expr toks.
Proof. exact L_grammar_sound. Qed.
Print Assumptions grammar_sound.

(* the element's attributes are back as they were at every exit of the two code paths that edit them temporarily
   (property-only intent in build_intent; recovery path of infer_intent) *)
Theorem tree_restored : forall k,
  attrs_after false false property_branch_events k = (false, false) /\ attrs_after false false recovery_events k = (false, false).
Proof. exact L_tree_restored. Qed.
Print Assumptions tree_restored.
