(* C19 -- illegal intent values are ignored or reported as configured (lexer / parser / attribute handling).
   Statements only.  The speech-rule engine and the argument search are oracles (Section variables of the model). *)
From MC Require Import Lib.Base Lib.Tree Gen.IntentRe Gen.ElemSets Model.Intent Proofs.IntentP Model.FindArg Proofs.FindArgP.
Local Open Scope N_scope.

(* every token consumes at least one code point, so lexing any string terminates ... *)
Theorem lex_progress : forall s t r, lex1 s = Some (t, r) -> (List.length r < List.length s)%nat.
Proof. exact L_lex_progress. Qed.
Print Assumptions lex_progress.

(* ... within as many steps as the string has code points *)
Theorem lex_fuel_suffices : forall fuel s, (List.length s <= fuel)%nat -> lex_all fuel s = lex_all (List.length s) s.
Proof. exact L_lex_fuel_suffices. Qed.
Print Assumptions lex_fuel_suffices.

(* the parser never runs out of its budget: for EVERY token sequence and every behaviour of the oracles it returns a
   tree or an error (no unbounded recursion on any intent value, however deeply nested) *)
Theorem intent_fuel_suffices : forall find_arg match_self self_name toks,
  build_intent find_arg match_self self_name (3 * List.length toks + 3) toks <> PFuel.
Proof. exact L_intent_fuel_suffices. Qed.
Print Assumptions intent_fuel_suffices.

(* what is accepted is grammatical: the whole token sequence derives from the intent grammar *)
Theorem grammar_sound : forall find_arg match_self self_name s t,
  parse find_arg match_self self_name s = Some t ->
  exists toks, lex s = Some toks /\ Expr toks.
Proof. exact L_grammar_sound. Qed.
Print Assumptions grammar_sound.

(* the element's attributes are back as they were at every exit of the two code paths that edit them temporarily
   (property-only intent in build_intent; recovery path of infer_intent) *)
Theorem tree_restored : forall k,
  attrs_after false false property_branch_events k = (false, false) /\ attrs_after false false recovery_events k = (false, false).
Proof. exact L_tree_restored. Qed.
Print Assumptions tree_restored.

(* ------------------------------------------------------------------------------------------------------------------
   find_arg (Model/FindArg.v, tied by Tie/C19Tie.v): which element a reference $name stands for.  For EVERY tree, whatever
   args and intents its elements carry:
   ------------------------------------------------------------------------------------------------------------------ *)

(* the reference is the first element, in document order, that carries the name and is not inside an element with an
   intent of its own or with another arg; it is dangling exactly when there is no such element *)
Theorem reference_is_first_visible_argument : forall name t, resolve name t = hd_error (visible_from name t).
Proof. exact L_resolve_is_first_visible. Qed.
Print Assumptions reference_is_first_visible_argument.

(* nothing below an element that carries an intent of its own, or another arg, can satisfy a reference from above
   ("nests illegally") *)
Theorem intent_hides_what_is_below : forall name a k l, arg_is name a = false -> visible name (AT a true k l) = [].
Proof. exact L_hidden_by_intent. Qed.
Print Assumptions intent_hides_what_is_below.

Theorem other_arg_hides_what_is_below : forall name n i k l, (n =? name) = false -> visible name (AT (Some n) i k l) = [].
Proof. exact L_hidden_by_other_arg. Qed.
Print Assumptions other_arg_hides_what_is_below.

(* what a reference resolves to carries the name, and lies below the element that carries the intent *)
Theorem resolved_element_carries_the_name : forall name t r, resolve name t = Some r -> In r (flat_map (labels_with name) (a_kids t)).
Proof. exact L_resolved_carries_the_name. Qed.
Print Assumptions resolved_element_carries_the_name.
