(* C01 -- canonicalization never loses or invents visible content (the mrow parser).  Statements only.
   Model: Model/ParserCore.v + Model/Parser.v (tied to the library by Tie/C03Tie.v). *)
From MC Require Import Lib.Base Lib.Tree Gen.OpDict Model.ParserCore Model.Parser Proofs.ParserYield.
Local Open Scope N_scope.

(* For EVERY tree (any size, any nesting, any attributes, well formed or not) and whatever the classifier decides: when
   the parser returns a tree, its texts in document order are the input's texts -- each token canonicalized where it
   stands (mathvariant restyling, minus sign / accent variants) -- plus inserted invisible operators (U+2061..U+2064)
   and nothing else.  Rows are re-bracketed, never emptied; scripts lifted off a closing fence keep their order. *)
Theorem parser_keeps_texts : forall fuel parent idx t t', canon fuel parent idx t = Ok t' ->
  strip (texts t') = strip (ctexts parent idx t).
Proof. exact canon_yield. Qed.
Print Assumptions parser_keeps_texts.

(* the pieces: one step of the shift/reduce machine appends exactly the texts of the decision; reductions, shifts and
   the lifting of a script off a closing fence move nothing *)
Theorem machine_step_appends : forall d st st', implied_ok d -> act st d = Ok st' ->
  strip (stack_yield st') = strip (stack_yield st ++ dec_texts d).
Proof. exact act_yield. Qed.
Print Assumptions machine_step_appends.

Theorem classifier_only_inserts_invisible_operators : forall rc st prev c rest d, classify rc st prev c rest = Ok d ->
  strip (dec_texts d) = strip (texts c) /\ implied_ok d.
Proof. exact classify_yield. Qed.
Print Assumptions classifier_only_inserts_invisible_operators.

Theorem lifting_a_script_keeps_order : forall m m', potentially_lift_script m = Ok m' -> texts m' = texts m.
Proof. exact lift_script_texts. Qed.
Print Assumptions lifting_a_script_keeps_order.
