(* C05 -- speech is clean text (assembly and rule-text layer).  Statements only. *)
From MC Require Import Lib.Base Model.SpeechAsm Gen.SpeechTexts Proofs.SpeechAsmP Proofs.SpeechTextsP.
Local Open Scope N_scope.

(* speak_rules' final clean-up, for EVERY string: no concatenation or optional-text marker is left, *)
Theorem cleanup_removes_markers : forall s, ~ In OPT (cleanup s) /\ ~ In CONCAT (cleanup s).
Proof. exact L_cleanup_no_markers. Qed.
Print Assumptions cleanup_removes_markers.

(* ... and nothing else is lost: every character that is not a marker or a blank survives, in order *)
Theorem cleanup_keeps_text : forall s, filter plain_char (cleanup s) = filter plain_char s.
Proof. exact L_cleanup_keeps_text. Qed.
Print Assumptions cleanup_keeps_text.

(* the alphabet of every language's rule and Unicode files (every code point that occurs in a literal t / ct / ot text,
   regenerated on every run): no private-use code point, no invisible operator, no '<' '>'; and no text has [[ or ]] *)
Theorem rule_texts_are_clean : forallb (forallb char_cleanb) speech_alphabets = true.
Proof. exact all_texts_clean. Qed.
Print Assumptions rule_texts_are_clean.
Theorem rule_texts_have_no_navigation_brackets :
  forallb (forallb (fun t => no_double 91 t && no_double 93 t)) speech_bracket_texts = true.
Proof. exact no_nav_brackets. Qed.
Print Assumptions rule_texts_have_no_navigation_brackets.

Theorem rule_text_reading : forall lang c, In lang speech_alphabets -> In c lang -> in_ranges c bad_ranges = false.
Proof. exact L_text_reading. Qed.
Print Assumptions rule_text_reading.
