(* C12 -- preferences read back as set, persist, and bad settings are rejected.  Statements only.
   All theorems hold for EVERY decimal-point table, float-name list, file-lookup oracle and float formatter, every
   state and every name/value; the finite facts about the shipped defaults are the last two theorems. *)
From MC Require Import Lib.Base Model.Prefs Proofs.PrefsP Gen.PrefsTabs Proofs.PrefsInit.
Local Open Scope N_scope.

Theorem set_get : forall udp fl cl ff st n v st',
  set_preference udp fl cl ff st n v = (st', Ok) -> get_preference st' n = Some (normalize fl ff n v).
Proof. exact L_set_get. Qed.
Print Assumptions set_get.

Theorem set_frame : forall udp fl cl ff st n v st' o m,
  set_preference udp fl cl ff st n v = (st', o) -> o <> Panic ->
  str_eqb m n = false -> derived n m = false -> get_preference st' m = get_preference st m.
Proof. exact L_set_frame. Qed.
Print Assumptions set_frame.

Theorem persist : forall udp fl cl ff st k,
  get_preference (fst (step udp fl cl ff st OtherCall)) k = get_preference st k.
Proof. exact L_persist. Qed.
Print Assumptions persist.

Theorem reject_unknown : forall udp fl cl ff st n v, pref_lookup st n = None -> in_strs n fl = false ->
  set_preference udp fl cl ff st n v = (st, Err).
Proof. exact L_reject_unknown. Qed.
Print Assumptions reject_unknown.

Theorem reject_wrong_kind : forall udp fl cl ff st n v,
  (str_eqb (lower v) s_true || str_eqb (lower v) s_false = true -> is_boolean_pref st n = false ->
     str_eqb n s_Language || str_eqb n s_LanguageAuto = false -> set_preference udp fl cl ff st n v = (st, Err)) /\
  (str_eqb (lower v) s_true || str_eqb (lower v) s_false = false -> is_boolean_pref st n = true ->
     in_strs n fl = false -> str_eqb n s_Language || str_eqb n s_LanguageAuto = false ->
     set_preference udp fl cl ff st n v = (st, Err)).
Proof. exact L_reject_wrong_kind. Qed.
Print Assumptions reject_wrong_kind.

Theorem reject_leaves_state : forall udp fl cl ff st n v st',
  set_preference udp fl cl ff st n v = (st', Err) -> st' = st.
Proof. exact L_reject_leaves_state. Qed.
Print Assumptions reject_leaves_state.

(* no call panics in any state reachable from a well-formed one, and well-formedness is kept *)
Theorem prefs_total : forall udp fl cl ff ops st o, wf st ->
  snd (step udp fl cl ff (run udp fl cl ff st ops) o) <> Panic /\ wf (run udp fl cl ff st ops).
Proof. intros. split; [apply L_run_no_panic | apply L_run_wf]; assumption. Qed.
Print Assumptions prefs_total.

Theorem known_monotone : forall udp fl cl ff st n v k,
  snd (set_preference udp fl cl ff st n v) <> Panic -> known st k -> known (fst (set_preference udp fl cl ff st n v)) k.
Proof. exact L_known_monotone. Qed.
Print Assumptions known_monotone.

(* the shipped initial state (dumped from the library) is well formed, and every float-valued name is known in it *)
Theorem init_wf : wf {| user := init_user; api := init_api |}.
Proof. exact L_init_wf. Qed.
Print Assumptions init_wf.

Theorem float_names_known : forall n, In n float_names -> known {| user := init_user; api := init_api |} n.
Proof. exact L_float_names_known. Qed.
Print Assumptions float_names_known.
