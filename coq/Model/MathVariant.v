(* Model of canonicalize_plane1 / shift_text / shift_char (src/canonicalize.rs) over the GENERATED tables. *)
From MC Require Import Lib.Base Gen.MathVariant.
Local Open Scope N_scope.

Definition nth3 (i : N) (m : N * N * N) : N :=
  match m with (a, b, c) => if i =? 0 then a else if i =? 1 then b else if i =? 2 then c else 0 end.
(* Rust indexes a [u32;3] with offsets.table / a literal index: an index > 2 would panic.  The generated
   obligation [tables_in_range] (Props/C18.v) shows every index in the source tables is < 3. *)

Definition shift_char (c : N) : N :=
  match lookupN c exceptions with Some v => v | None => c end.

Definition shift_one (m : N * N * N) (c : N) : N :=
  match lookupN c shift_amounts with
  | None => if nth3 digamma_idx m =? digamma_cond
            then match lookupN c digammas with Some d => d | None => c end
            else c
  | Some (off, tbl) => let start := nth3 tbl m in
                       if start =? 0 then c else shift_char (start + off)
  end.

Definition shift_text (m : N * N * N) (s : str) : str := map (shift_one m) s.

(* `variant = None`: the element has no mathvariant attribute. *)
Definition plane1 (variant : option str) (text : str) : str :=
  match variant with
  | None => text
  | Some v => match lookupS v math_variants with
              | None => text
              | Some m => shift_text m text
              end
  end.

Definition plane1_char (v : str) (c : N) : N :=
  match lookupS v math_variants with None => c | Some m => shift_one m c end.

(* the characters the implementation's table maps (its domain) *)
Definition table_domain : list N := map fst shift_amounts ++ map fst digammas.
