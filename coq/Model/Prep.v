(* Model of the entity substitution at the head of set_mathml (src/interface.rs):
     HTML_ENTITIES.replace_all(&mathml_str, |cap| match HTML_ENTITIES_MAPPING.get(&cap[1]) {..})
   with HTML_ENTITIES = `&([CLASS]+?);`, CLASS and the table regenerated in Gen/Entities.v.
   A match is '&', a non-empty run of CLASS characters, ';'.  Because neither '&' nor ';' is in CLASS
   (obligation class_excludes_delims) a match never contains a second '&' and the lazy `+?` has exactly one way
   to succeed, so leftmost non-overlapping matching is: cut the string at every '&' and treat each piece alone. *)
From MC Require Import Lib.Base Gen.Entities.
Local Open Scope N_scope.

Definition AMP : N := 38.
Definition SEMI : N := 59.
Definition in_class (c : N) : bool := in_ranges c entity_class.

Fixpoint take_class (s : str) : str * str :=
  match s with
  | [] => ([], [])
  | c :: t => if in_class c then let (a, b) := take_class t in (c :: a, b) else ([], s)
  end.

(* the piece following an '&': Some (name, what follows the ';') when the regex matches there *)
Definition match_entity (seg : str) : option (str * str) :=
  let (nm, rest) := take_class seg in
  match nm, rest with
  | _ :: _, c :: rest' => if c =? SEMI then Some (nm, rest') else None
  | _, _ => None
  end.

(* split at every '&': (text before the first '&', pieces after each '&') *)
Fixpoint split_amp (s : str) : str * list str :=
  match s with
  | [] => ([], [])
  | c :: t => let (h, segs) := split_amp t in
              if c =? AMP then ([], h :: segs) else (c :: h, segs)
  end.

(* result text and the list of unknown names met (Rust keeps only the last one in error_message and bails) *)
Definition seg_subst (seg : str) : str * list str :=
  match match_entity seg with
  | Some (nm, rest) =>
      match lookupS nm entities with
      | Some v => (v ++ rest, [])
      | None => (AMP :: seg, [nm])
      end
  | None => (AMP :: seg, [])
  end.

Definition subst_entities (s : str) : str * list str :=
  let (h, segs) := split_amp s in
  let rs := map seg_subst segs in
  (h ++ concat (map fst rs), concat (map snd rs)).

(* ---- XML character-reference decoding of character data (what the parser does next; sxd_document is trusted,
        this model is used to state what a replacement text MEANS and for the correspondence check) ---- *)
Definition hex_val (c : N) : option N :=
  if (48 <=? c) && (c <=? 57) then Some (c - 48)
  else if (65 <=? c) && (c <=? 70) then Some (c - 55)
  else if (97 <=? c) && (c <=? 102) then Some (c - 87)
  else None.
Definition dec_val (c : N) : option N := if (48 <=? c) && (c <=? 57) then Some (c - 48) else None.

(* read digits up to ';' : returns (value, rest after ';') *)
Fixpoint read_num (base : N) (dig : N -> option N) (acc : N) (seen : bool) (s : str) : option (N * str) :=
  match s with
  | [] => None
  | c :: t => if c =? SEMI then (if seen then Some (acc, t) else None)
              else match dig c with
                   | Some d => read_num base dig (acc * base + d) true t
                   | None => None
                   end
  end.

(* decode one piece following an '&' : `#xH+;` or `#D+;` ; anything else is an XML error (named references other
   than the five predefined ones are errors; the five predefined are not produced by the table) *)
Definition decode_seg (seg : str) : option str :=
  match seg with
  | 35 :: 120 :: t => match read_num 16 hex_val 0 false t with Some (v, rest) => Some (v :: rest) | None => None end
  | 35 :: t => match read_num 10 dec_val 0 false t with Some (v, rest) => Some (v :: rest) | None => None end
  | _ => None
  end.

Fixpoint decode_segs (segs : list str) : option str :=
  match segs with
  | [] => Some []
  | s :: r => match decode_seg s, decode_segs r with
              | Some a, Some b => Some (a ++ b)
              | _, _ => None
              end
  end.

Definition xml_decode (s : str) : option str :=
  let (h, segs) := split_amp s in
  match decode_segs segs with Some r => Some (h ++ r) | None => None end.

(* outcome of the entity step followed by character-data decoding, for text without markup *)
Inductive prep_out := UnknownEntity (names : list str) | XmlError | Text (t : str).
Definition prep_text (s : str) : prep_out :=
  match subst_entities s with
  | (r, []) => match xml_decode r with Some t => Text t | None => XmlError end
  | (_, errs) => UnknownEntity errs
  end.

(* whitespace handling of trim_element / make_leaf_element for a leaf: runs of space, tab, LF, CR collapse to one
   space and leading/trailing ones are trimmed *)
Definition is_ws (c : N) : bool := (c =? 32) || (c =? 9) || (c =? 10) || (c =? 13).
Fixpoint ws_go (pending started : bool) (s : str) : str :=
  match s with
  | [] => []
  | c :: t => if is_ws c then ws_go true started t
              else if pending && started then 32 :: c :: ws_go false true t
              else c :: ws_go false true t
  end.
Definition ws_norm (s : str) : str := ws_go false false s.

(* observable outcome codes used by the correspondence check: 0 unknown entity (with the reported name = the last
   unknown one), 1 XML error, 2 text (whitespace-normalised leaf text) *)
Definition prep_obs (s : str) : N * str :=
  match prep_text s with
  | UnknownEntity names => (0, last names [])
  | XmlError => (1, [])
  | Text t => (2, ws_norm t)
  end.
