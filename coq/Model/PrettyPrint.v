(* C02 model: the escaping of mml_to_string (src/pretty_print.rs: handle_special_chars over the GENERATED table) and a
   reference decoder for XML character data (predefined entities and numeric character references). *)
From MC Require Import Lib.Base Gen.EscapeTab.
Local Open Scope N_scope.

Definition escape_char (c : N) : str := match lookupN c escape_table with Some e => e | None => [c] end.
Definition escape (s : str) : str := flat_map escape_char s.

(* ---- reference decoder ---- *)
Fixpoint find_semi (s : str) : option (str * str) :=
  match s with
  | [] => None
  | x :: r => if x =? 59 then Some ([], r)
              else match find_semi r with Some (a, b) => Some (x :: a, b) | None => None end
  end.

Definition hex_val (c : N) : option N :=
  if (48 <=? c) && (c <=? 57) then Some (c - 48)
  else if (65 <=? c) && (c <=? 70) then Some (c - 55)
  else if (97 <=? c) && (c <=? 102) then Some (c - 87) else None.
Fixpoint hex_num (acc : N) (s : str) : option N :=
  match s with [] => Some acc | c :: r => match hex_val c with Some v => hex_num (16 * acc + v) r | None => None end end.
Fixpoint dec_num (acc : N) (s : str) : option N :=
  match s with [] => Some acc | c :: r => if (48 <=? c) && (c <=? 57) then dec_num (10 * acc + (c - 48)) r else None end.

(* the name between '&' and ';' *)
Definition ref_entity (name : str) : option N :=
  match name with
  | [113; 117; 111; 116] => Some 34          (* quot *)
  | [97; 109; 112] => Some 38                (* amp *)
  | [97; 112; 111; 115] => Some 39           (* apos *)
  | [108; 116] => Some 60                    (* lt *)
  | [103; 116] => Some 62                    (* gt *)
  | 35 :: 120 :: (_ :: _) as h => hex_num 0 h      (* #x... *)
  | 35 :: (_ :: _) as d => dec_num 0 d             (* #... *)
  | _ => None
  end.

Fixpoint unescape (fuel : nat) (s : str) : option str :=
  match fuel with
  | O => None
  | Datatypes.S f =>
      match s with
      | [] => Some []
      | c :: r =>
          if c =? 38 then
            match find_semi r with
            | Some (name, rest) =>
                match ref_entity name with
                | Some v => match unescape f rest with Some t => Some (v :: t) | None => None end
                | None => None
                end
            | None => None
            end
          else if (c =? 60) then None          (* a raw '<' is not character data *)
          else match unescape f r with Some t => Some (c :: t) | None => None end
      end
  end.

(* ---- the obligation on the generated table ---- *)
Definition null_str (s : str) : bool := match s with [] => true | _ => false end.
Definition entry_okb (e : N * str) : bool :=
  match snd e with
  | a :: body =>
      (a =? 38) &&
      match find_semi body with
      | Some (name, rest) => null_str rest && match ref_entity name with Some v => v =? fst e | None => false end
      | None => false
      end
  | [] => false
  end.
Definition table_okb : bool :=
  forallb entry_okb escape_table &&
  forallb (fun c => match lookupN c escape_table with Some _ => true | None => false end) [38; 60; 62; 39; 34].
