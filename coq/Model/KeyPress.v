(* C08 / C11 model: what a key press stands for (src/navigate.rs key_press_to_command_and_param and
   navigation_command_string).  The tables -- key ranges, the command and the parameter for (no modifier, shift, control,
   shift+control), the place-marker index, the name of each (command, parameter) pair -- are regenerated from the source
   on every run (Gen/KeyTab.v); this file is the interpreter: the modifier preamble, the search for the arm, the indexing
   (an index below the base or past the table is a panic: usize arithmetic and slice indexing), the fallbacks of the name
   function (a table guarded by a range test, a panic, the final "Error"). *)
From MC Require Import Lib.Base Gen.KeyTab.
Local Open Scope N_scope.

Inductive kout := KErr | KPanic | KOk (cmd param : N).
Inductive sout := SPanic | SName (s : str).

Definition in_range (k : N) (r : N * N) : bool := (fst r <=? k) && (k <=? snd r).
Definition arm_matches (k : N) (a : list (N * N) * (N * N * N * N) * pspec) : bool := existsb (in_range k) (fst (fst a)).

Definition pick4 (shift ctrl : bool) (a b c d : N) : N :=
  if shift && ctrl then d else if ctrl then c else if shift then b else a.

Definition param_of (k : N) (shift ctrl : bool) (p : pspec) : option N :=
  match p with
  | PFour a b c d => Some (pick4 shift ctrl a b c d)
  | PIndex table base => if k <? base then None else nth_error table (N.to_nat (k - base))
  end.

Definition key_press (k : N) (shift ctrl alt meta : bool) : kout :=
  let alt := if alt && ctrl && memN k alt_control_keys then false else alt in
  if alt || meta then KErr
  else match find (arm_matches k) key_arms with
       | None => KErr
       | Some (_, (a, b, c, d), p) =>
         match param_of k shift ctrl p with
         | Some prm => KOk (pick4 shift ctrl a b c d) prm
         | None => KPanic
         end
       end.

Fixpoint lookup_name (p : N) (l : list (N * str)) : option str :=
  match l with [] => None | (p', s) :: r => if p =? p' then Some s else lookup_name p r end.

Definition command_name (cmd param : N) : sout :=
  match find (fun e => fst (fst e) =? cmd) command_strings with
  | None => SPanic                                   (* the match lists every command *)
  | Some (_, entries, fb) =>
    match lookup_name param entries with
    | Some s => SName s
    | None =>
      match fb with
      | FFinal => SName final_string
      | FPanic => SPanic
      | FAlways s => SName s
      | FTable lo hi names base =>
        if (param <? lo) || (hi <? param) then SPanic
        else if param <? base then SPanic
        else match nth_error names (N.to_nat (param - base)) with Some s => SName s | None => SPanic end
      end
    end
  end.

(* do_navigate_keypress up to the command handed to do_navigate_command_string *)
Inductive pressed := PErr | PPanic | PCommand (s : str).
Definition press (k : N) (shift ctrl alt meta : bool) : pressed :=
  match key_press k shift ctrl alt meta with
  | KErr => PErr
  | KPanic => PPanic
  | KOk c p => match command_name c p with SPanic => PPanic | SName s => PCommand s end
  end.
