(* C14 model: the lazily refreshed caches over a file system that CHANGES between calls.
   A file system of the moment gives, for a head file, the result of reading and compiling it with everything it
   includes (None: the read fails -- missing, empty, truncated, wrong YAML shape, invalid xpath, unknown key, at any
   depth of inclusion), and for every file its modification stamp (0: no such file; SystemTime::UNIX_EPOCH).
   A slot holds the record of the files of the last successful load with their stamps at that time, head file first
   (FilesAndTimes.ft), beside the loaded value.  [fcheck] is SpeechRules::read_files / the full-table check in
   replace_single_char for one cache:
     up to date  <->  the record is not empty, its head is the file the preferences ask for, and -- unless file times
                      are ignored (CheckRuleFiles other than All) -- the head stamp is set and no recorded file has a
                      newer stamp now (FileAndTime::is_up_to_date: recorded >= current)
   A reload clears the value and the record first, so a failed load leaves the empty slot. *)
From MC Require Import Lib.Base.
Local Open Scope N_scope.

Section FS.
  Variable V : Type.
  Record fsys := FSys { f_load : str -> option (V * list str); f_stamp : str -> N }.
  Record fslot := FSlot { fs_files : list (str * N); fs_val : option V }.
  Definition fempty : fslot := FSlot [] None.

  Definition stamps_of (fs : fsys) (files : list str) : list (str * N) := map (fun f => (f, f_stamp fs f)) files.
  Definition current (fs : fsys) (files : list (str * N)) : bool :=
    forallb (fun ft => f_stamp fs (fst ft) <=? snd ft) files.
  Definition up_to_date (ignore_time : bool) (fs : fsys) (s : fslot) (k : str) : bool :=
    match fs_files s with
    | [] => false
    | (k', t0) :: _ => str_eqb k k' && (ignore_time || (negb (t0 =? 0) && current fs (fs_files s)))
    end.
  Definition no_value (s : fslot) : bool := match fs_val s with None => true | Some _ => false end.

  (* the slot afterwards, the value used (None: the call returns an error), whether a (re)load was attempted *)
  Definition fcheck (ignore_time guard : bool) (fs : fsys) (s : fslot) (k : str) : fslot * option V * bool :=
    if (guard && no_value s) || negb (up_to_date ignore_time fs s k) then
      match f_load fs k with
      | Some (v, inc) => (FSlot (stamps_of fs (k :: inc)) (Some v), Some v, true)
      | None => (fempty, None, true)
      end
    else (s, fs_val s, false).

  (* the library before "fix: a failed rule, Unicode or definitions load left the record ...": a failed load keeps
     the record of the files loaded before (CachesFSP.L_kept_record_is_stale) *)
  Definition fcheck_keep (ignore_time guard : bool) (fs : fsys) (s : fslot) (k : str) : fslot * option V * bool :=
    if (guard && no_value s) || negb (up_to_date ignore_time fs s k) then
      match f_load fs k with
      | Some (v, inc) => (FSlot (stamps_of fs (k :: inc)) (Some v), Some v, true)
      | None => (FSlot (fs_files s) None, None, true)
      end
    else (s, fs_val s, false).

  (* a history: every call sees the file system of its moment, the value of CheckRuleFiles of its moment, and asks
     for the file its preferences of the moment name *)
  Definition call := (bool * fsys * str)%type.
  Fixpoint frun (guard : bool) (s : fslot) (h : list call) : fslot * list (option V * bool) :=
    match h with
    | [] => (s, [])
    | (ig, fs, k) :: r =>
        let '(s1, v, b) := fcheck ig guard fs s k in
        let '(s2, out) := frun guard s1 r in (s2, (v, b) :: out)
    end.

  (* what is in the slot is a complete successful load of its head file from a file system of the past *)
  Definition finv (P : fsys -> Prop) (s : fslot) : Prop :=
    s = fempty \/
    exists fs0 k v inc, P fs0 /\ f_load fs0 k = Some (v, inc) /\ s = FSlot (stamps_of fs0 (k :: inc)) (Some v).

  (* the file-system assumption under which time stamps mean anything: if none of the files read for k then has a
     newer stamp now, reading k now gives what it gave then *)
  Definition faithful (P : fsys -> Prop) (fs : fsys) : Prop :=
    forall fs0 k v inc, P fs0 -> f_load fs0 k = Some (v, inc) -> f_stamp fs0 k <> 0 ->
      (forall f, In f (k :: inc) -> f_stamp fs f <= f_stamp fs0 f) -> f_load fs k = Some (v, inc).

  Fixpoint faithful_hist (past : list fsys) (h : list call) : Prop :=
    match h with
    | [] => True
    | (_, fs, _) :: r => faithful (fun x => In x past) fs /\ faithful_hist (fs :: past) r
    end.

  Definition fresh (c : call) : option V := let '(_, fs, k) := c in option_map fst (f_load fs k).
  Definition timed (c : call) : bool := let '(ig, _, _) := c in negb ig.
End FS.
Arguments FSys {V}.
Arguments FSlot {V}.
Arguments f_load {V}.
Arguments f_stamp {V}.
Arguments fs_files {V}.
Arguments fs_val {V}.
Arguments fempty {V}.
Arguments fcheck {V}.
Arguments fcheck_keep {V}.
Arguments frun {V}.
Arguments finv {V}.
Arguments faithful {V}.
Arguments faithful_hist {V}.
Arguments fresh {V}.
Arguments timed {V}.
Arguments stamps_of {V}.
Arguments current {V}.
Arguments up_to_date {V}.

(* for the correspondence with the library's log: one call as the harness saw it -- file times ignored?, the stamps
   of the moment (files not listed: 0), the file asked for, what a load reports when it succeeds (files on record,
   head first; None: the load failed or no load was made) *)
Definition obs_call := (bool * list (str * N) * str * option (list str))%type.
Definition fs_of (o : obs_call) : fsys unit :=
  let '(_, st, _, res) := o in
  FSys (fun _ => match res with Some (_ :: inc) => Some (tt, inc) | _ => None end)
       (fun f => match lookupS f st with Some t => t | None => 0 end).
Definition call_of (o : obs_call) : call unit := let '(ig, _, k, _) := o in (ig, fs_of o, k).
Definition fflags (guard : bool) (h : list obs_call) : list bool :=
  map snd (snd (frun guard fempty (map call_of h))).
