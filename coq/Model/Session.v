(* C08 model: one session of the public interface as the composition of the parts modelled for C12 (preference maps),
   C11 (navigation state) and an expression slot (MATHML_INSTANCE: replaced by set_mathml only after the clean-up of
   the new string succeeded).  What parsing and canonicalization make of a string, and what the navigation rules
   answer, are inputs of the model (oracles); the model is about what the interface does with them. *)
From MC Require Import Lib.Base Model.Prefs Model.Nav Gen.KeyTab Model.KeyPress.
Local Open Scope N_scope.

Section Session.
  Variable use_decimal_point : list str.
  Variable float_names : list str.
  Variable can_load : str -> str -> bool.
  Variable fmt_float : str -> option str.

  Record session := mkses { s_prefs : pstate; s_expr : option (list str * str) (* the ids and the root id *); s_nav : nstate }.

  Inductive call :=
  | CSetPref (name value : str)
  | CSetMathml (r : option (list str * str))            (* None: the string is rejected (not XML, not MathML, arity, ...) *)
  | CNav (cmd : str) (outs : nat -> rule_out)           (* do_navigate_command *)
  | CKey (k : N) (shift ctrl alt meta : bool) (outs : nat -> rule_out)   (* do_navigate_keypress: the key is translated (Model/KeyPress.v), then the command runs *)
  | CSetNode (id : str) (o : N) (leaf_ok : bool)        (* set_navigation_node *)
  | CGet.                                               (* speech, braille, overview, positions, preferences: read only *)
  Inductive answer := AOk | AErr | APanic.

  Definition of_outcome (o : outcome) : answer := match o with Ok => AOk | Err => AErr | Prefs.Panic => APanic end.
  Definition of_status (s : status) : answer := match s with Done => AOk | Retry => AErr | Error => AErr | Nav.Panic => APanic end.

  Definition step (s : session) (c : call) : session * answer :=
    match c with
    | CSetPref n v =>
        let '(p, o) := set_preference use_decimal_point float_names can_load fmt_float (s_prefs s) n v in
        (mkses p (s_expr s) (s_nav s), of_outcome o)
    | CSetMathml None => (s, AErr)
    | CSetMathml (Some e) => (mkses (s_prefs s) (Some e) (new_expression (s_nav s)), AOk)
    | CNav cmd outs =>
        match s_expr s with
        | None => (s, AErr)                               (* "MathML has not been set" *)
        | Some (ids, root) => let '(n, st) := nav_command ids root cmd outs (s_nav s) in (mkses (s_prefs s) (s_expr s) n, of_status st)
        end
    | CKey k sh ct al me outs =>
        match press k sh ct al me with
        | PErr => (s, AErr)                                  (* "Unknown key press/command", "Invalid argument" *)
        | PPanic => (s, APanic)
        | PCommand cmd =>
          match s_expr s with
          | None => (s, AErr)
          | Some (ids, root) => let '(n, st) := nav_command ids root cmd outs (s_nav s) in (mkses (s_prefs s) (s_expr s) n, of_status st)
          end
        end
    | CSetNode id o leaf_ok =>
        match s_expr s with
        | None => (s, AErr)
        | Some (ids, _) => let '(n, st) := set_node ids id o leaf_ok (s_nav s) in (mkses (s_prefs s) (s_expr s) n, of_status st)
        end
    | CGet => (s, AOk)
    end.

  Definition run (s : session) (h : list call) : session := fold_left (fun x c => fst (step x c)) h s.

  (* the preference calls of a history, as the history of the C12 model *)
  Definition pref_ops (h : list call) : list op :=
    map (fun c => match c with CSetPref n v => SetPref n v | _ => OtherCall end) h.
End Session.
