(* C15 / C05 model: the shape of a replacement of the rule files (what the rule engine does with it, conditions
   abstracted) and what it means for it to speak.
   A replacement is a list of items; an item is a literal text (t / ct / ot; empty or not), something computed (x /
   spell / pronounce / translate: taken to speak), something silent (pause, bookmark, set_variables, ...), a wrapper
   around a replacement (pitch / rate / volume / audio / voice / with ... replace:), or a test: branches tried in order
   (if / else_if, each with its then-replacement; then_test / else_test are replacements made of one test) ending in an
   optional else.  Conditions are not modelled: the evaluation below reads their outcomes from an arbitrary stream. *)
From MC Require Import Lib.Base.

Inductive repl :=
| RText (nonempty : bool)
| RXpath
| RSilent
| RWrap (body : repls)
| RTest (bs : branches)
with repls := RNil | RCons (r : repl) (rs : repls)
with branches := BEnd (e : oelse) | BCons (b : repls) (bs : branches)
with oelse := ENone | ESome (rs : repls).

Scheme repl_mut := Induction for repl Sort Prop
with repls_mut := Induction for repls Sort Prop
with branches_mut := Induction for branches Sort Prop
with oelse_mut := Induction for oelse Sort Prop.
Combined Scheme rule_ast_ind from repl_mut, repls_mut, branches_mut, oelse_mut.

(* how many items are spoken when the conditions come out as the stream says (a missing outcome counts as false);
   the rest of the stream is handed on *)
Fixpoint eval (r : repl) (s : list bool) {struct r} : nat * list bool :=
  match r with
  | RText b => (if b then 1%nat else 0%nat, s)
  | RXpath => (1%nat, s)
  | RSilent => (0%nat, s)
  | RWrap body => evals body s
  | RTest bs => evalb bs s
  end
with evals (rs : repls) (s : list bool) {struct rs} : nat * list bool :=
  match rs with
  | RNil => (0%nat, s)
  | RCons r rs' => let (n, s1) := eval r s in let (m, s2) := evals rs' s1 in ((n + m)%nat, s2)
  end
with evalb (bs : branches) (s : list bool) {struct bs} : nat * list bool :=
  match bs with
  | BEnd e => match e with ENone => (0%nat, s) | ESome rs => evals rs s end
  | BCons b bs' =>
      match s with
      | true :: s' => evals b s'
      | false :: s' => evalb bs' s'
      | [] => evalb bs' []
      end
  end.

(* speaks under every condition: some item of the list does; a test does when every branch does and it ends in an
   else that does *)
Fixpoint speaksb (r : repl) : bool :=
  match r with
  | RText b => b
  | RXpath => true
  | RSilent => false
  | RWrap body => speaks_list body
  | RTest bs => speaks_branches bs
  end
with speaks_list (rs : repls) : bool :=
  match rs with RNil => false | RCons r rs' => speaksb r || speaks_list rs' end
with speaks_branches (bs : branches) : bool :=
  match bs with
  | BEnd e => match e with ENone => false | ESome rs => speaks_list rs end
  | BCons b bs' => speaks_list b && speaks_branches bs'
  end.
