(* C04 / C05 / C15 model: a replacement of the rule files as the rule engine builds it, and how the engine evaluates it.

   The shape follows Replacement::build / ReplacementArray::build / TestArray::build / TestOrReplacements::build
   (src/speech.rs) and TTS::build (src/tts.rs):
     item  = t / ct / ot (a literal, empty or not, with its number in a table of literals) | x | a TTS command (spell / pronounce speak by themselves; the others
             wrap an optional replace: body) | intent (children) | test | with (replace) | set_variables |
             insert (nodes, replace) | translate | something the engine rejects
     test  = a list of entries; an entry has a condition (if / else_if) or none, a then part and an optional else part;
             a part is a replacement list (then: / else:) or again a test (then_test: / else_test:).
   Evaluation (SpeechRulesWithContext::replace, TestArray::replace, InsertChildren::replace, TTS::replace_string):
   the items of a list are dispatched in order; a test walks its entries: an entry whose condition holds gives its then
   part, otherwise its else part if it has one -- also when further entries follow -- otherwise the next entry; an
   insert over k > 0 nodes is  x, (body, x) repeated k-1 times.
   XPath is not modelled: the outcome of each condition (0 = false) and the size of each insert's node set (0 = not a
   node set) are read from an arbitrary stream, one number per test entry visited / insert evaluated.  [tr_items] gives
   the sequence of engine events this produces -- exactly what the hook speech::verif::ev records (Tie/RuleEvalTie.v). *)
From MC Require Import Lib.Base.
Local Open Scope N_scope.

Inductive item :=
| IText (nonempty : bool) (lit : N)
| IX
| ITts (speaks : bool) (body : items)
| IIntent (body : items)
| ITest (es : entries)
| IWith (body : items)
| ISetVars
| IInsert (body : items)
| ITranslate
| IBad
with items := INil | ICons (i : item) (r : items)
with entries := ENil | ECons (cond : bool) (th : part) (el : part) (rest : entries)
with part := PNone | PRepl (r : items) | PTest (es : entries).

Scheme item_mut := Induction for item Sort Prop
with items_mut := Induction for items Sort Prop
with entries_mut := Induction for entries Sort Prop
with part_mut := Induction for part Sort Prop.
Combined Scheme rule_ast_ind from item_mut, items_mut, entries_mut, part_mut.

(* events *)
Definition ev_text : N := 1.        (* a literal with something to say *)
Definition ev_text0 : N := 10.      (* an empty literal (the hook cannot tell the two apart: see [norm_ev]) *)
Definition ev_x : N := 2.
Definition ev_tts : N := 3.
Definition ev_tts_sp : N := 13.     (* spell / pronounce (the hook cannot tell: see [norm_ev]) *)
Definition ev_intent : N := 4.
Definition ev_test : N := 5.
Definition ev_with : N := 6.
Definition ev_setvars : N := 7.
Definition ev_insert : N := 8.
Definition ev_translate : N := 9.
Definition ev_bad : N := 0.
Definition ev_entry : N := 20.      (* a test entry is visited *)
Definition ev_true : N := 21.       (* ... and its condition holds *)
Definition ev_nodes (k : N) : N := 100 + k.
Definition ev_lit (id : N) : N := 1000000 + id.      (* which literal a text item says (its number in the tie's table of literals) *)
Definition norm_ev (e : N) : N := if e =? ev_text0 then ev_text else if e =? ev_tts_sp then ev_tts else e.

Definition next (s : list N) : N * list N := match s with o :: s' => (o, s') | [] => (0, []) end.

Fixpoint tr_item (i : item) (s : list N) {struct i} : list N * list N :=
  match i with
  | IText b id => ([if b then ev_text else ev_text0; ev_lit id], s)
  | IX => ([ev_x], s)
  | ITts sp body => let (e, s1) := tr_items body s in ((if sp then ev_tts_sp else ev_tts) :: e, s1)
  | IIntent body => let (e, s1) := tr_items body s in (ev_intent :: e, s1)
  | ITest es => let (e, s1) := tr_entries es s in (ev_test :: e, s1)
  | IWith body => let (e, s1) := tr_items body s in (ev_with :: e, s1)
  | ISetVars => ([ev_setvars], s)
  | IInsert body =>
      let (k, s0) := next s in
      if k =? 0 then ([ev_insert], s0) else
      let (e, s1) := (fix rep (n : nat) (s : list N) {struct n} : list N * list N :=
                        match n with
                        | Datatypes.O => ([], s)
                        | Datatypes.S n' => let (e1, s1) := tr_items body s in let (e2, s2) := rep n' s1 in (e1 ++ ev_x :: e2, s2)
                        end) (N.to_nat k - 1)%nat s0 in
      (ev_insert :: ev_nodes k :: ev_x :: e, s1)
  | ITranslate => ([ev_translate], s)
  | IBad => ([ev_bad], s)
  end
with tr_items (r : items) (s : list N) {struct r} : list N * list N :=
  match r with
  | INil => ([], s)
  | ICons i r' => let (e1, s1) := tr_item i s in let (e2, s2) := tr_items r' s1 in (e1 ++ e2, s2)
  end
with tr_entries (es : entries) (s : list N) {struct es} : list N * list N :=
  match es with
  | ENil => ([], s)
  | ECons c th el rest =>
      let (o, s0) := next s in
      if c && negb (o =? 0) then let (e, s1) := tr_part th s0 in (ev_entry :: ev_true :: e, s1)
      else match el with
           | PNone => let (e, s1) := tr_entries rest s0 in (ev_entry :: e, s1)
           | _ => let (e, s1) := tr_part el s0 in (ev_entry :: e, s1)
           end
  end
with tr_part (p : part) (s : list N) {struct p} : list N * list N :=
  match p with
  | PNone => ([], s)
  | PRepl r => tr_items r s
  | PTest es => tr_entries es s
  end.

(* the events that put something into the speech: a literal that is not empty, a computed item (x -- also the ones
   an insert dispatches --, spell / pronounce, translate) *)
Definition speaking (e : N) : bool := (e =? ev_text) || (e =? ev_x) || (e =? ev_tts_sp) || (e =? ev_translate).
Definition spoken (es : list N) : nat := List.length (filter speaking es).

(* speaks under every outcome: some item of the list does; a test does when the part chosen does, whichever it is *)
Fixpoint speaksb (i : item) : bool :=
  match i with
  | IText b _ => b
  | IX => true
  | ITts sp body => sp || speaks_items body
  | IIntent body => speaks_items body
  | ITest es => speaks_entries es
  | IWith body => speaks_items body
  | ISetVars => false
  | IInsert _ => false        (* an insert whose nodes: is not a node set dispatches nothing *)
  | ITranslate => true
  | IBad => false
  end
with speaks_items (r : items) : bool :=
  match r with INil => false | ICons i r' => speaksb i || speaks_items r' end
with speaks_entries (es : entries) : bool :=
  match es with
  | ENil => false
  | ECons c th el rest =>
      (if c then speaks_part th else true) &&
      match el with PNone => speaks_entries rest | _ => speaks_part el end
  end
with speaks_part (p : part) : bool :=
  match p with PNone => false | PRepl r => speaks_items r | PTest es => speaks_entries es end.

(* the number of x items a replacement dispatches at its own level under the given outcomes (each is one selection of
   nodes handed to the rules again) *)
Definition selections (es : list N) : nat := List.length (filter (N.eqb ev_x) es).
