(* C04 model: how the rule engine files the rules it reads and picks the rule for an element.

   SpeechPattern::build (src/speech.rs): the rules of a rule file -- and, at the place of each include:, of the file
   it names -- are filed one after the other under their tag (a rule with several tags under each); a rule whose name
   is already filed under the tag REPLACES that rule where it stands, any other rule goes to the end of the tag's list.
   match_pattern / find_match: for an element the rules filed under "!*", then those under its tag, then those under
   "*" are tried in order; the first whose match holds gives the replacement; no rule: an error.
   XPath is not modelled: the outcome of each rule's match is read from an arbitrary list (a missing outcome is false). *)
From MC Require Import Lib.Base.
Local Open Scope N_scope.

Record rule := { r_name : str; r_tag : str; r_id : N }.
Definition table := list (str * list rule).

Fixpoint put (r : rule) (rs : list rule) : list rule :=
  match rs with
  | [] => [r]
  | r0 :: rs' => if str_eqb (r_name r0) (r_name r) then r :: rs' else r0 :: put r rs'
  end.
Fixpoint add_rule (t : table) (r : rule) : table :=
  match t with
  | [] => [(r_tag r, [r])]
  | (g, rs) :: t' => if str_eqb g (r_tag r) then (g, put r rs) :: t' else (g, rs) :: add_rule t' r
  end.
Definition build (rs : list rule) : table := fold_left add_rule rs [].

Fixpoint get (t : table) (g : str) : list rule :=
  match t with [] => [] | (g', rs) :: t' => if str_eqb g' g then rs else get t' g end.

Definition s_bang_star : str := [33; 42].
Definition s_star : str := [42].
Definition candidates (t : table) (g : str) : list rule := get t s_bang_star ++ get t g ++ get t s_star.

(* find_match: the rules tried, and the one that matched *)
Fixpoint tried (cs : list rule) (os : list bool) : list rule :=
  match cs with
  | [] => []
  | c :: cs' => match os with
                | true :: _ => [c]
                | false :: os' => c :: tried cs' os'
                | [] => c :: tried cs' []
                end
  end.
Fixpoint first_hit (cs : list rule) (os : list bool) : option rule :=
  match cs with
  | [] => None
  | c :: cs' => match os with
                | true :: _ => Some c
                | false :: os' => first_hit cs' os'
                | [] => None
                end
  end.

(* the tie's view: the ids of the first n candidates *)
Definition tried_ids (t : table) (g : str) (n : nat) : list N := map r_id (firstn n (candidates t g)).
