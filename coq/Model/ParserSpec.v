(* C03 specification vocabulary: what it means for the rows of a parsed tree to follow the operator priorities.

   A row built by the parser ("added": it carries data-changed='added') has one of four shapes, read off the ghost
   annotations of its children:
     prefix   [p e]            p a prefix operator or a left fence
     postfix  [e s]            s a postfix operator or a right fence
     fenced   [l r] / [l e r]  l a left fence, r a right fence
     infix    [e0 o1 e1 ... ok ek]   all oi in one n-ary class with one priority r
   An operand that is itself an added infix row of priority p', or an added prefix row of priority q, is
     closed under r :  r < p'  (r < q)        -- required of every operand that is followed by an operator of the row
     open under r, c:  r < p' or (r = p' and its operators are not n-ary with c)
                                              -- required of the last operand (equal priorities nest to the right)
   Everything else (tokens, 2-D elements, author-bracketed rows, fenced and postfix rows) is solid: it may stand
   anywhere.  [deep_okb t] says that every row inside t that has operator children is well formed in this sense. *)
From MC Require Import Lib.Base Lib.Tree Gen.OpDict Model.ParserCore.
From Coq Require Import String.
Local Close Scope string_scope.
Local Open Scope N_scope.

Definition is_added (t : ptree) : bool :=
  tag_is t s_mrow && match pattr s_changed t with Some v => str_eqb v s_added | None => false end.

Inductive kind := KSolid | KPrefix (q : N) | KInfix (p : N) (c : opinfo).

Definition kind_of (t : ptree) : kind :=
  if negb (is_added t) then KSolid else
  match rev (pkids t) with
  | [b; a] => match pann a, pann b with
              | Some p, None => if is_left_fence p then KSolid else KPrefix (o_prio p)
              | _, _ => KSolid
              end
  | e :: o :: rest =>
      match pann (last rest o) with
      | Some _ => KSolid                                  (* starts with an operator: a fenced row *)
      | None => match pann e, pann o with
                | None, Some c => KInfix (o_prio c) c
                | _, _ => KSolid
                end
      end
  | _ => KSolid
  end.

Definition closedb (r : N) (e : ptree) : bool :=
  match kind_of e with KInfix p _ => r <? p | KPrefix q => r <? q | KSolid => true end.
Definition openb (r : N) (c : opinfo) (e : ptree) : bool :=
  match kind_of e with
  | KInfix p c' => (r <? p) || ((r =? p) && negb (is_nary c' c))
  | _ => true
  end.
Definition solidb (e : ptree) : bool := match kind_of e with KSolid => true | _ => false end.

Definition ann_none (t : ptree) : bool := match pann t with None => true | Some _ => false end.

(* reversed list  oj :: e(j-1) :: ... :: o1 :: e0 :: []  of an infix row of priority r and class c *)
Fixpoint inrowb (r : N) (c : opinfo) (k : list ptree) : bool :=
  match k with
  | o :: e :: k' =>
      match pann o with
      | Some oi => is_nary oi c && (o_prio oi =? r) && ann_none e && closedb r e &&
                   match k' with [] => true | _ => inrowb r c k' end
      | None => false
      end
  | _ => false
  end.

(* the children of a row, LAST child first *)
Definition rowr_okb (k : list ptree) : bool :=
  match k with
  | [b; a] =>
      match pann a, pann b with
      | Some p, None => is_prefix p && openb (o_prio p) p b
      | None, Some s => is_postfix s && closedb (o_prio s) a
      | Some l, Some r => is_left_fence l && is_right_fence r
      | None, None => false
      end
  | e :: o :: rest =>
      match pann (last rest o) with
      | Some l => is_left_fence l && match rest with [_] => true | _ => false end &&
                  match pann e with Some r => is_right_fence r | None => false end &&
                  ann_none o
      | None => ann_none e &&
                match pann o with
                | Some c => openb (o_prio c) c e && inrowb (o_prio c) c (o :: rest)
                | None => false
                end
      end
  | _ => false
  end.

Definition row_okb (t : ptree) : bool := rowr_okb (rev (pkids t)).

(* a row some of whose children were added as operators: built by the parser (whether it still carries
   data-changed='added' or became the author's row when its attributes were restored) *)
Definition is_built (t : ptree) : bool := tag_is t s_mrow && existsb (fun k => negb (ann_none k)) (pkids t).

Fixpoint deep_okb (t : ptree) : bool :=
  match t with
  | PT _ _ _ k _ =>
      (if is_built t then row_okb t else true) &&
      (fix go (l : list ptree) : bool := match l with [] => true | c :: r => deep_okb c && go r end) k
  end.

(* between two neighbouring children of an added row at least one is an operator *)
Fixpoint separatedb (k : list ptree) : bool :=
  match k with
  | a :: ((b :: _) as r) => negb (ann_none a && ann_none b) && separatedb r
  | _ => true
  end.
