(* C11 model: the documented key bindings of navigation (docs/nav-commands.md, "Table of Keybindings").
   One entry per documented cell: (key code, Ctrl, Shift, the navigation command the key stands for).  Cells the table
   leaves blank (Enter with Shift, Backspace with modifiers, "NYI" cells) are not listed: nothing is required of them.
   The tie (Tie/KeyMapTie.v) checks on the library that pressing the key does what the command does. *)
From MC Require Import Lib.Base.
From Coq Require Import String.
Local Open Scope string_scope.
Local Open Scope N_scope.

Definition vk_left := 37. Definition vk_up := 38. Definition vk_right := 39. Definition vk_down := 40.
Definition vk_enter := 13. Definition vk_space := 32. Definition vk_home := 36. Definition vk_end := 35. Definition vk_back := 8.

(* rows: Unmodified, + Ctrl, + Shift, + Ctrl + Shift *)
Definition row (k : N) (none ctrl shift both : option string) : list (N * bool * bool * str) :=
  ((match none with Some c => [(k, false, false, S c)] | None => [] end) ++
   (match ctrl with Some c => [(k, true, false, S c)] | None => [] end) ++
   (match shift with Some c => [(k, false, true, S c)] | None => [] end) ++
   (match both with Some c => [(k, true, true, S c)] | None => [] end))%list.

Definition digit_rows : list (N * bool * bool * str) :=
  flat_map (fun d : N =>
    let n := [48 + d] in
    [(48 + d, false, false, (S "MoveTo" ++ n)%list); (48 + d, true, false, (S "SetPlacemarker" ++ n)%list);
     (48 + d, false, true, (S "Read" ++ n)%list); (48 + d, true, true, (S "Describe" ++ n)%list)])
    [0; 1; 2; 3; 4; 5; 6; 7; 8; 9].

Definition documented : list (N * bool * bool * str) :=
  (row vk_left (Some "MovePrevious") (Some "MoveCellPrevious") (Some "ReadPrevious") (Some "DescribePrevious") ++
  row vk_right (Some "MoveNext") (Some "MoveCellNext") (Some "ReadNext") (Some "DescribeNext") ++
  row vk_up (Some "ZoomOut") (Some "MoveCellUp") (Some "ToggleZoomLockUp") (Some "ZoomOutAll") ++
  row vk_down (Some "ZoomIn") (Some "MoveCellDown") (Some "ToggleZoomLockDown") (Some "ZoomInAll") ++
  row vk_enter (Some "WhereAmI") (Some "WhereAmIAll") None None ++
  row vk_space (Some "ReadCurrent") (Some "ReadCellCurrent") (Some "ToggleSpeakMode") (Some "DescribeCurrent") ++
  row vk_home (Some "MoveStart") (Some "MoveLineStart") (Some "MoveColumnStart") None ++
  row vk_end (Some "MoveEnd") (Some "MoveLineEnd") (Some "MoveColumnEnd") None ++
  row vk_back (Some "MoveLastLocation") None None None ++
  digit_rows)%list.

(* the command a key press stands for *)
Fixpoint decode (t : list (N * bool * bool * str)) (k : N) (ctrl shift : bool) : option str :=
  match t with
  | [] => None
  | (k', c', s', cmd) :: r => if (k =? k') && Bool.eqb ctrl c' && Bool.eqb shift s' then Some cmd else decode r k ctrl shift
  end.
