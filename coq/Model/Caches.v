(* C10 / C14 model: the lazily refreshed caches of the library (rule tables, shared Unicode tables, definition sets,
   number patterns).  Every one of them is a SLOT: the key it was last loaded for (the head file path the preferences
   ask for / the pair of separator preferences) beside the loaded value; a check compares the key asked for with the
   recorded one (FilesAndTimes::is_file_up_to_date under a constant file system; CanonicalizeContextPatternsCache::get).
   [guard] says whether the check also reloads when the value is empty (`self.rules.is_empty() ||`, `ft.is_empty() ||`,
   `unicode_full.is_empty() ||`); the short Unicode tables have no such guard. *)
From MC Require Import Lib.Base.
Local Open Scope N_scope.

Section Slot.
  Variable V : Type.
  Variable load : str -> option V.          (* reading and parsing the file for a key; None: the read fails *)

  Record slot := Slot { s_key : option str; s_val : option V }.
  Definition empty_slot : slot := Slot None None.

  Definition needs_reload (guard : bool) (s : slot) (k : str) : bool :=
    match s_key s with
    | None => true
    | Some k' => negb (str_eqb k k') || (guard && match s_val s with None => true | Some _ => false end)
    end.

  (* one check: the slot afterwards, the value used (None: an error is returned), whether a (re)load happened.
     A reload first clears the value AND the record of what was loaded (`clear()`, `ft.clear()` before the `?`), so a
     failed load leaves an empty slot. *)
  Definition check (guard : bool) (s : slot) (k : str) : slot * option V * bool :=
    if needs_reload guard s k then
      match load k with
      | Some v => (Slot (Some k) (Some v), Some v, true)
      | None => (empty_slot, None, true)
      end
    else (s, s_val s, false).

  (* the variant that keeps the record of the previous load when a load fails (the library before the repair
     "fix: a failed rule, Unicode or definitions load left the record ..."): see CachesP.L_kept_record_is_stale *)
  Definition check_keep (guard : bool) (s : slot) (k : str) : slot * option V * bool :=
    if needs_reload guard s k then
      match load k with
      | Some v => (Slot (Some k) (Some v), Some v, true)
      | None => (Slot (s_key s) None, None, true)
      end
    else (s, s_val s, false).

  Fixpoint run (guard : bool) (s : slot) (ks : list str) : slot * list (option V * bool) :=
    match ks with
    | [] => (s, [])
    | k :: r => let '(s1, v, b) := check guard s k in let '(s2, out) := run guard s1 r in (s2, (v, b) :: out)
    end.

  (* what is in the slot was loaded for the key recorded beside it, and a recorded key has its value *)
  Definition slot_inv (s : slot) : Prop :=
    match s_key s with
    | Some k => exists v, s_val s = Some v /\ load k = Some v
    | None => s_val s = None
    end.
End Slot.
Arguments Slot {V}.
Arguments s_key {V}.
Arguments s_val {V}.
Arguments empty_slot {V}.
Arguments check {V}.
Arguments check_keep {V}.
Arguments run {V}.
Arguments needs_reload {V}.
Arguments slot_inv {V}.

(* the reload flags alone (for the correspondence with the library's log): a healthy file system, value = key *)
Definition flags (guard : bool) (first_is_silent : bool) (ks : list str) : list bool :=
  let out := map snd (snd (run (fun k => Some k) guard empty_slot ks)) in
  if first_is_silent then match out with _ :: r => false :: r | [] => [] end else out.
