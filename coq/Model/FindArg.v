(* C19 model: find_arg (src/infer_intent.rs) -- which element a reference $name of an intent value stands for.

   The search starts at the element that carries the intent (its own arg is not looked at) and walks its descendants in
   document order.  An element whose arg is the name is the answer.  The search does not look inside an element that
   carries another arg, nor inside an element that carries an intent of its own: what is below is theirs ("nests
   illegally" when a reference can only be satisfied there).  Leaves have nothing inside. *)
From MC Require Import Lib.Base.
Local Open Scope N_scope.

(* an element: its arg attribute (a name, as a number), whether it carries an intent attribute, its element children,
   a label that identifies it *)
Inductive atree := AT (arg : option N) (has_intent : bool) (kids : list atree) (label : N).

Definition a_arg (t : atree) := match t with AT a _ _ _ => a end.
Definition a_intent (t : atree) := match t with AT _ i _ _ => i end.
Definition a_kids (t : atree) := match t with AT _ _ k _ => k end.
Definition a_label (t : atree) := match t with AT _ _ _ l => l end.

Definition arg_is (name : N) (a : option N) : bool := match a with Some n => n =? name | None => false end.

(* find_arg(name, t, skip_self, no_check_inside) *)
Fixpoint find (name : N) (t : atree) (skip_self no_check_inside : bool) {struct t} : option N :=
  match t with
  | AT a i kids l =>
      if negb skip_self && arg_is name a then Some l
      else if negb skip_self && no_check_inside && match a with Some _ => true | None => false end then None
      else if no_check_inside && i then None
      else (fix go (ks : list atree) : option N :=
              match ks with
              | [] => None
              | k :: ks' => match find name k false true with Some r => Some r | None => go ks' end
              end) kids
  end.

(* the reference of an intent on the element t *)
Definition resolve (name : N) (t : atree) : option N := find name t true false.

(* specification: the elements a reference can see, in document order *)
Fixpoint visible (name : N) (t : atree) {struct t} : list N :=
  match t with
  | AT a i kids l =>
      if arg_is name a then [l]
      else match a with
           | Some _ => []
           | None => if i then [] else
                     (fix go (ks : list atree) : list N := match ks with [] => [] | k :: ks' => visible name k ++ go ks' end) kids
           end
  end.
Definition visible_from (name : N) (t : atree) : list N := flat_map (visible name) (a_kids t).
