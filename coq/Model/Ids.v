(* C09 model: add_ids / add_ids_to_all (src/interface.rs).  Ids are either author supplied or generated
   (prefix + counter; the prefix is M + 3 time characters + 4 random characters, so a generated id is assumed never to
   equal an author id: the two kinds are different constructors). *)
From MC Require Import Lib.Base Lib.Tree Gen.ElemSets.
From Coq Require Import String.
Local Close Scope string_scope.
Local Open Scope N_scope.

Definition is_leaf (t : tree) : bool := existsb (str_eqb (tag_of t)) mathml_leaf_nodes.

Inductive idv := Auth (s : str) | Gen (k : N).
Definition idv_eqb (a b : idv) : bool :=
  match a, b with Auth x, Auth y => str_eqb x y | Gen x, Gen y => x =? y | _, _ => false end.
Definition mem_id (x : idv) (l : list idv) : bool := existsb (idv_eqb x) l.

Definition s_id := S "id"%string.

(* the id this element ends up with, and the next counter value *)
Definition node_id (t : tree) (count : N) (seen : list idv) : idv * N :=
  match attr_get s_id (attrs_of t) with
  | Some a => if mem_id (Auth a) seen then (Gen count, count + 1) else (Auth a, count)
  | None => (Gen count, count + 1)
  end.

(* ids in document order (elements below a token element are not visited), next counter, ids in use *)
Fixpoint add_ids (t : tree) (count : N) (seen : list idv) : list idv * N * list idv :=
  let (i, c1) := node_id t count seen in
  if is_leaf t then ([i], c1, i :: seen)
  else
    let '(l, c2, s2) :=
      (fix go (ks : list tree) (c : N) (s : list idv) : list idv * N * list idv :=
         match ks with
         | [] => ([], c, s)
         | k :: r => let '(l1, c', s') := add_ids k c s in
                     let '(l2, c'', s'') := go r c' s' in (l1 ++ l2, c'', s'')
         end) (kids_of t) c1 (i :: seen) in
    (i :: l, c2, s2).

Definition add_ids_list (ks : list tree) (c : N) (s : list idv) : list idv * N * list idv :=
  (fix go (ks : list tree) (c : N) (s : list idv) : list idv * N * list idv :=
     match ks with
     | [] => ([], c, s)
     | k :: r => let '(l1, c', s') := add_ids k c s in
                 let '(l2, c'', s'') := go r c' s' in (l1 ++ l2, c'', s'')
     end) ks c s.

Definition ids_of (t : tree) : list idv := fst (fst (add_ids t 0 [])).

(* number of elements that receive an id: every visited element *)
Fixpoint visited (t : tree) : nat :=
  if is_leaf t then 1%nat
  else Datatypes.S ((fix go (ks : list tree) := match ks with [] => 0%nat | k :: r => (visited k + go r)%nat end) (kids_of t)).
