(* C17 model: what is left of the parsed XML before anything else looks at it (trim_element, src/interface.rs).
   A token element (MATHML_LEAF_NODES, regenerated from the source) that has children becomes that element with ONE text:
   the texts of its children in order -- of an element child everything below it (of an mglyph: its alt attribute), of a
   comment or processing instruction nothing -- with every run of blanks, tabs, line feeds and carriage returns turned into
   one blank and the blanks at both ends cut off.  Any other element keeps its element children, trimmed in turn; text,
   comments and processing instructions between them are dropped.  Attributes are not touched (only alt is modelled). *)
From MC Require Import Lib.Base Gen.AssureSets.
From Coq Require Import String.
Local Open Scope string_scope.
Local Open Scope list_scope.
Local Open Scope N_scope.

Inductive xnode :=
| XText : str -> xnode
| XComment : xnode
| XPI : xnode
| XEl : str -> option str -> list xnode -> xnode.          (* name, alt attribute, children *)

Definition in_names (s : str) (l : list str) : bool := existsb (str_eqb s) l.
Definition s_mglyph : str := S "mglyph".

Definition is_ws (c : N) : bool := (c =? 32) || (c =? 9) || (c =? 10) || (c =? 13).

(* WHITESPACE_MATCH.replace_all(text, " ").trim_matches(WHITESPACE): the words of the text joined by single blanks *)
Fixpoint words_from (cur : str) (s : str) : list str :=
  match s with
  | [] => match cur with [] => [] | _ => [cur] end
  | c :: r => if is_ws c then match cur with [] => words_from [] r | _ => cur :: words_from [] r end
              else words_from (cur ++ [c]) r
  end.
Fixpoint join_words (ws : list str) : str :=
  match ws with [] => [] | [w] => w | w :: r => w ++ 32 :: join_words r end.
Definition norm_ws (s : str) : str := join_words (words_from [] s).

(* gather_text: every text below an element *)
Fixpoint gather (t : xnode) : str :=
  match t with
  | XText s => s
  | XEl _ _ kids => (fix go (l : list xnode) : str := match l with [] => [] | k :: r => gather k ++ go r end) kids
  | _ => []
  end.

Definition child_text (c : xnode) : str :=
  match c with
  | XText s => s
  | XEl g alt _ => if str_eqb g s_mglyph then match alt with Some a => a | None => [] end else gather c
  | _ => []
  end.

Fixpoint trim (t : xnode) : xnode :=
  match t with
  | XEl g alt kids =>
      if in_names g leaf_nodes
      then match kids with
           | [] => XEl g alt []
           | _ => XEl g alt [XText (norm_ws (flat_map child_text kids))]
           end
      else XEl g alt ((fix go (l : list xnode) : list xnode :=
                         match l with
                         | [] => []
                         | (XEl _ _ _ as x) :: r => trim x :: go r
                         | _ :: r => go r
                         end) kids)
  | other => other
  end.

(* ---- spellings that must not matter ---- *)
(* the same document without comments and processing instructions anywhere and without text between elements *)
Fixpoint bare (inside : bool) (t : xnode) : xnode :=
  match t with
  | XEl g alt kids =>
      (* below a token only comments and processing instructions go: the text of embedded elements is content *)
      let keep_text := inside || in_names g leaf_nodes in
      XEl g alt ((fix go (l : list xnode) : list xnode :=
                    match l with
                    | [] => []
                    | XComment :: r => go r
                    | XPI :: r => go r
                    | XText s :: r => if keep_text then XText s :: go r else go r
                    | (XEl _ _ _ as x) :: r => bare keep_text x :: go r
                    end) kids)
  | other => other
  end.

(* a token whose text is empty and a token without children are the same thing to everything downstream (and to the
   serializer): the comparison forgets empty texts *)
Fixpoint erase (t : xnode) : xnode :=
  match t with
  | XEl g alt kids =>
      XEl g alt ((fix go (l : list xnode) : list xnode :=
                    match l with
                    | [] => []
                    | XText [] :: r => go r
                    | (XEl _ _ _ as x) :: r => erase x :: go r
                    | x :: r => x :: go r
                    end) kids)
  | other => other
  end.
