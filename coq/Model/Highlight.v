(* C20 model: is_highlighted / highlight / unhighlight and highlight_braille_chars with highlight_first_indicator,
   i_start_nemeth, i_start_ueb, check_for_typeform (src/braille.rs).  Strings are lists of code points; byte offsets
   are computed from UTF-8 widths because the Rust code works on byte indices and divides by 3. *)
From MC Require Import Lib.Base Gen.HighlightTabs.
Local Open Scope N_scope.

Definition is_highlighted (c : N) : bool := (hl_lo <=? c) && (c <=? hl_hi).
Definition highlight (c : N) : N := N.lor c hl_bits.
Definition unhighlight (c : N) : N := if (un_lo <=? c) && (c <=? un_hi) then N.land c un_mask else c.

Definition w (c : N) : N := if c <? 0x80 then 1 else if c <? 0x800 then 2 else if c <? 0x10000 then 3 else 4.
Definition bytes (s : str) : N := fold_right (fun c a => w c + a) 0 s.

Fixpoint find_first (f : N -> bool) (s : str) (i : nat) : option nat :=
  match s with [] => None | c :: t => if f c then Some i else find_first f t (Datatypes.S i) end.
Definition find_last (f : N -> bool) (s : str) : option nat :=
  match find_first f (rev s) 0 with Some k => Some (List.length s - 1 - k)%nat | None => None end.

Definition B (x : N) : N := 0x2800 + x.     (* braille cell with dot pattern x *)
Definition c_cap := B 0x20.   (* ⠠ *)
Definition c_num := B 0x3C.   (* ⠼ *)
Definition c_d456 := B 0x38.  (* ⠸ *)
Definition c_d4 := B 0x08.    (* ⠈ *)
Definition c_d46 := B 0x28.   (* ⠨ *)
Definition c_d56 := B 0x30.   (* ⠰ *)
Definition c_d23 := B 0x06.   (* ⠆ *)
Definition c_d5 := B 0x10.    (* ⠐ *)

(* the reversed prefix is given with the cell nearest to the node first *)
Definition i_start_nemeth (rprefix : str) (first_ch : N) : nat :=
  let '(n1, rest) :=
    match rprefix with
    | c :: t => if (c =? c_cap) || ((c =? c_num) && memN first_ch nemeth_numbers) ||
                   (c =? c_d456) || (c =? c_d4) || (c =? c_d46)
                then (1%nat, t) else (0%nat, rprefix)
    | [] => (0%nat, rprefix)
    end in
  match rest with
  | c :: t =>
      if (c =? c_d56) || (c =? c_d456) || (c =? c_d46) then (n1 + 1)%nat
      else if c =? c_d4 then
        match t with d :: _ => if (d =? c_d4) || (d =? c_d46) then (n1 + 2)%nat else n1 | [] => n1 end
      else if c =? c_cap then
        match t with d :: _ => if d =? c_cap then (n1 + 2)%nat else n1 | [] => n1 end
      else n1
  | [] => n1
  end.

(* check_for_typeform consumes up to two cells after a ⠆ *)
Definition check_for_typeform (r : str) : nat * str :=
  match r with
  | c :: t =>
      if memN c ueb_typeform_prefixes then (2%nat, t)
      else if c =? c_num then
        match t with
        | d :: t' => if memN d ueb_typeform_prefixes || (d =? c_d5) then (3%nat, t') else (0%nat, t')
        | [] => (0%nat, [])
        end
      else (0%nat, t)
  | [] => (0%nat, [])
  end.

Fixpoint i_start_ueb (fuel : nat) (r : str) : nat :=
  match fuel with
  | O => O
  | Datatypes.S fuel' =>
      match r with
      | [] => O
      | c :: t =>
          if memN c ueb_prefixes then Datatypes.S (i_start_ueb fuel' t)
          else if c =? c_d23 then
            let (k, t') := check_for_typeform t in
            if (0 <? k)%nat then (k + i_start_ueb fuel' t')%nat else O
          else O
      end
  end.

Fixpoint set_at (i : nat) (f : N -> N) (s : str) : str :=
  match s, i with
  | [], _ => []
  | c :: t, O => f c :: t
  | c :: t, Datatypes.S i' => c :: set_at i' f t
  end.
Fixpoint map_range (lo hi : nat) (f : N -> N) (i : nat) (s : str) : str :=   (* chars with lo <= index < hi *)
  match s with
  | [] => []
  | c :: t => (if (Nat.leb lo i) && (Nat.ltb i hi) then f c else c) :: map_range lo hi f (Datatypes.S i) t
  end.

Inductive hres := HOk (s : str) (a z : N) | HPanic.

(* first index k (chars) such that byte offset of char k >= target : "advance to a char boundary" *)
Fixpoint boundary_from (target : N) (acc : N) (i : nat) (s : str) : nat :=
  match s with
  | [] => i
  | c :: t => if target <=? acc then i else boundary_from target (acc + w c) (Datatypes.S i) t
  end.

Definition starts_with_cells (p s : str) : bool := str_eqb p (firstn (List.length p) s).

Definition highlight_braille_chars (s : str) (code_is_nemeth code_is_ueb fill : bool) : hres :=
  match find_first is_highlighted s 0, find_last is_highlighted s with
  | Some i, Some j =>
      let start_b := bytes (firstn i s) in
      let end_b := bytes (firstn j s) in
      let target := if lookback_bytes <? start_b then start_b - lookback_bytes else 0 in
      let k0 := boundary_from target 0 0 s in        (* char index where the look-back starts *)
      let k :=
        if (bytes (firstn k0 s) =? 0) && code_is_ueb then
          if starts_with_cells [c_d56; c_d56; c_d56] s then 3%nat
          else if starts_with_cells [c_d56; c_d56] s then 2%nat else k0
        else k0 in
      if Nat.ltb i k then HPanic                      (* &braille[prefix..start] with prefix > start *)
      else
        let rprefix := rev (firstn (i - k) (skipn k s)) in
        let first_ch := unhighlight (nth i s 0) in
        let n := if code_is_nemeth then i_start_nemeth rprefix first_ch else i_start_ueb (Datatypes.S (List.length rprefix)) rprefix in
        if Nat.ltb i n then HPanic                    (* start_index - 3*n underflows *)
        else
          let i' := (i - n)%nat in
          let s1 := if Nat.ltb i' i
                    then set_at i' highlight (if Nat.ltb i j then set_at i unhighlight s else s)
                    else s in
          let a := bytes (firstn i' s1) / 3 in
          let z := end_b / 3 in
          if (i' =? j)%nat || negb fill then HOk s1 a z
          else HOk (map_range i' j highlight 0 s1) a z
  | _, _ => HOk s 0 (bytes s / 3)
  end.


(* ------------------------------------------------------------------ routing: save / override / restore of the
   BrailleNavHighlight preference.  [route_events] (generated) is the order in which the body of
   get_navigation_node_from_braille_position overrides (0) and restores (1) the preference and reaches an exit point
   (2: `?`, return, bail!).  An execution runs the events in order and may leave at any exit point. *)
Fixpoint run_events (overridden : bool) (evs : list N) (leave_at : nat) : bool (* overridden at the point of leaving *) :=
  match evs with
  | [] => overridden
  | e :: t =>
      if e =? 0 then run_events true t leave_at
      else if e =? 1 then run_events false t leave_at
      else match leave_at with O => overridden | Datatypes.S k => run_events overridden t k end
  end.
Fixpoint exits_clean (overridden : bool) (evs : list N) : bool :=
  match evs with
  | [] => negb overridden
  | e :: t =>
      if e =? 0 then exits_clean true t
      else if e =? 1 then exits_clean false t
      else negb overridden && exits_clean overridden t
  end.
