(* C04 / C05 model: how replace_array_string (src/speech.rs) assembles the strings of a rule's replacements, and the
   final clean-up of speak_rules.  Code points; the byte-length tests of the Rust code are kept as byte lengths. *)
From MC Require Import Lib.Base.
Local Open Scope N_scope.

Definition OPT : N := 0xF8FD.        (* OPTIONAL_INDICATOR, around the text of an `ot:` replacement *)
Definition CONCAT : N := 0xF8FE.     (* CONCAT_INDICATOR, before the text of a `ct:` replacement *)
Definition PAUSE : N := 0xF8FA.      (* PAUSE_AUTO_STR is two of these *)

Definition ws_ranges : list (N * N) :=
  [(9, 13); (32, 32); (133, 133); (160, 160); (5760, 5760); (8192, 8202); (8232, 8233); (8239, 8239); (8287, 8287); (12288, 12288)].
Definition is_ws (c : N) : bool := in_ranges c ws_ranges.
Fixpoint trim_start (s : str) : str := match s with c :: r => if is_ws c then trim_start r else s | [] => [] end.
Definition trim_end (s : str) : str := rev (trim_start (rev s)).
Definition trim (s : str) : str := trim_end (trim_start s).
Definition utf8_len1 (c : N) : N := if c <? 128 then 1 else if c <? 2048 then 2 else if c <? 65536 then 3 else 4.
Definition byte_len (s : str) : N := fold_right (fun c a => utf8_len1 c + a) 0 s.

(* split at the first occurrence of c *)
Fixpoint find_c (c : N) (s : str) : option (str * str) :=
  match s with
  | [] => None
  | x :: r => if x =? c then Some ([], r)
              else match find_c c r with Some (a, b) => Some (x :: a, b) | None => None end
  end.

Fixpoint starts_with (p s : str) : bool :=
  match p, s with [], _ => true | x :: p', y :: s' => (x =? y) && starts_with p' s' | _, [] => false end.
Definition ends_with (s w : str) : bool := starts_with (rev w) (rev s).

(* is_repetitive(prev, optional): Some(text that replaces `optional`) when its optional word repeats the end of prev.
   As in the code: what comes BEFORE the indicator is not part of the result. *)
Definition is_repetitive (prev optional : str) : option str :=
  if byte_len optional <=? 6 then None else
  match find_c OPT optional with
  | None => None
  | Some (pre, after1) =>
      match find_c OPT after1 with
      | None => None
      | Some (word, rest) =>
          let p := trim_end prev in
          if (byte_len word <? byte_len p) && ends_with p word then Some (trim_start rest) else None
      end
  end.

(* `for i in 1..len-1`: the first and the last string are never changed; each test sees the already updated previous one *)
Fixpoint fix_go (prev : str) (l : list str) : list str :=
  match l with
  | [] => []
  | [x] => [x]
  | x :: r => let x' := match is_repetitive prev x with Some y => y | None => x end in x' :: fix_go x' r
  end.
Definition fix_optional (l : list str) : list str := match l with [] => [] | a :: r => a :: fix_go a r end.

Fixpoint join_sp (l : list str) : str :=
  match l with [] => [] | [x] => x | x :: r => x ++ 32 :: join_sp r end.

(* ---- the final clean-up of speak_rules: .replace(" \u{F8FE}", "").replace("\u{F8FE}", "") then remove_optional_indicators ---- *)
Fixpoint remove_sp_concat (s : str) : str :=
  match s with
  | [] => []
  | x :: r => match r with
              | c :: r2 => if (x =? 32) && (c =? CONCAT) then remove_sp_concat r2 else x :: remove_sp_concat r
              | [] => [x]
              end
  end.
Definition remove_c (c : N) (s : str) : str := filter (fun x => negb (x =? c)) s.
Definition cleanup (s : str) : str := trim (remove_c OPT (remove_c CONCAT (remove_sp_concat s))).

(* ---- what must survive ---- *)
Definition is_digit (c : N) : bool := (48 <=? c) && (c <=? 57).
Definition digits (s : str) : str := filter is_digit s.
Definition no_digits (s : str) : bool := forallb (fun c => negb (is_digit c)) s.

(* the text before the indicator and the optional word carry no digit *)
Definition optional_harmless (x : str) : bool :=
  match find_c OPT x with
  | Some (pre, a) => match find_c OPT a with Some (w, _) => no_digits pre && no_digits w | None => true end
  | None => true
  end.
