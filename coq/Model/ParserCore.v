(* C03 model, part 1: the shift/reduce core of canonicalize_mrows_in_mrow (src/canonicalize.rs): OperatorInfo,
   StackInfo (frame), add_child_to_mrow, remove_last_operand_from_mrow, reduce_stack_one_time, reduce_stack,
   shift_stack, potentially_lift_script.

   Trees carry a ghost annotation [ann]: the OperatorInfo a child was added to its row with ([None] for an
   operand).  The annotation never influences the computation; [erase] forgets it and is what is compared with the
   library.  It lets the theorems speak about the operators of a row with the priorities the parser used. *)
From MC Require Import Lib.Base Lib.Tree Gen.OpDict.
From Coq Require Import String.
Local Close Scope string_scope.
Local Open Scope N_scope.

(* ---- outcomes: Rust panics (assert!, unwrap on None, index out of bounds) and Err results are values ---- *)
Inductive res (A : Type) : Type :=
| Ok (a : A)
| Panic (site : N)
| Err (site : N)
| OutOfFuel.
Arguments Ok {A} a.
Arguments Panic {A} site.
Arguments Err {A} site.
Arguments OutOfFuel {A}.

Definition bind {A B} (m : res A) (k : A -> res B) : res B :=
  match m with Ok a => k a | Panic n => Panic n | Err n => Err n | OutOfFuel => OutOfFuel end.
Notation "'do' x <- m ; k" := (bind m (fun x => k)) (at level 200, x pattern, m at level 100, k at level 200).

(* ---- OperatorInfo ---- *)
Record opinfo := OI { o_ty : N; o_prio : N; o_cell : N }.
(* [o_cell] is the identity of the static the Rust code compares with ptr_eq: cells 0..15 are the synthetic
   statics, a dictionary entry number i with chain position j has cell 16 + 4 i + j *)

Definition of_static (x : N * N * N) : opinfo := let '(ty, pr, c) := x in OI ty pr c.
Definition op_fencepost := of_static static_left_fencepost.
Definition op_times_high := of_static static_implied_times_high_priority.
Definition op_sep_high := of_static static_implied_separator_high_priority.
Definition op_bond := of_static static_implied_chemical_bond.
Definition op_plus_slash := of_static static_implied_plus_slash_high_priority.
Definition op_def_prefix := of_static static_default_operator_info_prefix.
Definition op_def_infix := of_static static_default_operator_info_infix.
Definition op_def_postfix := of_static static_default_operator_info_postfix.
Definition op_illegal := of_static static_illegal_operator_info.

Definition ptr_eq (a b : opinfo) : bool := o_cell a =? o_cell b.

Definition T_PREFIX := 1.
Definition T_INFIX := 2.
Definition T_POSTFIX := 4.
Definition T_LEFT_FENCE := 9.
Definition T_RIGHT_FENCE := 12.

Definition has_type (o : opinfo) (ty : N) : bool := negb (N.land (o_ty o) ty =? 0).   (* is_operator_type *)
Definition is_prefix (o : opinfo) := has_type o T_PREFIX.
Definition is_infix (o : opinfo) := has_type o T_INFIX.
Definition is_postfix (o : opinfo) := has_type o T_POSTFIX.
Definition is_left_fence (o : opinfo) := N.land (o_ty o) T_LEFT_FENCE =? T_LEFT_FENCE.
Definition is_right_fence (o : opinfo) := N.land (o_ty o) T_RIGHT_FENCE =? T_RIGHT_FENCE.
Definition is_fence_op (o : opinfo) := negb (N.land (o_ty o) (N.lor T_LEFT_FENCE T_RIGHT_FENCE) =? 0).

(* ---- the dictionary ---- *)
Fixpoint dict_find_from (i : N) (s : str) (d : list (str * list (N * N))) : option (N * list (N * N)) :=
  match d with
  | [] => None
  | (k, ch) :: r => if str_eqb s k then Some (i, ch) else dict_find_from (i + 1) s r
  end.
(* "the same OperatorInfo" is pointer equality in the library.  The first alternative of an entry lives in the table
   itself: one address per entry.  The further alternatives are `next: &Some(OperatorInfo{..})` constants, and the
   compiler keeps ONE copy of equal constants: two entries whose remaining alternatives are equal (type, priority,
   and what follows) share the address (observed: the prefix form of U+2796 IS PREFIX_MINUS).  So the cell of a
   first alternative is its entry's index, the cell of a later one encodes the alternatives from there on. *)
Fixpoint enc (ch : list (N * N)) : N :=
  match ch with [] => 1 | (ty, pr) :: r => (enc r * 16 + ty) * 1024 + pr end.
Definition cell_at (i j : N) (ch : list (N * N)) : N := if j =? 0 then 16 + 4 * i else 4294967296 + enc ch.
Fixpoint chain_from (i j : N) (ch : list (N * N)) : list opinfo :=
  match ch with [] => [] | (ty, pr) :: r => OI ty pr (cell_at i j ch) :: chain_from i (j + 1) r end.
(* OPERATORS.get(text): the chain of alternatives, first one first *)
Definition dict_get (s : str) : option (list opinfo) :=
  match dict_find_from 0 s opdict with None => None | Some (i, ch) => Some (chain_from i 0 ch) end.
Definition first_of (s : str) : opinfo :=
  match dict_get s with Some (o :: _) => o | _ => op_illegal end.
Definition second_of (s : str) : opinfo :=
  match dict_get s with Some (_ :: o :: _) => o | _ => op_illegal end.

Definition op_fn_app := first_of named_invisible_function_application.
Definition op_times := first_of named_implied_times.
Definition op_comma := first_of named_implied_invisible_comma.
Definition op_iplus := first_of named_implied_invisible_plus.
Definition op_plus := first_of named_plus.
Definition op_minus := first_of named_minus.
Definition op_prefix_minus := second_of named_minus.
Definition op_times_sign := first_of named_times_sign.

Definition is_plus_or_minus (o : opinfo) := ptr_eq o op_plus || ptr_eq o op_minus.
Definition is_times (o : opinfo) := ptr_eq o op_times || ptr_eq o op_times_sign.
(* self.is_nary(previous_op) *)
Definition is_nary (self prev : opinfo) : bool :=
  ptr_eq prev self || (is_plus_or_minus prev && is_plus_or_minus self) || (is_times prev && is_times self).

(* ---- annotated trees ---- *)
Inductive ptree := PT (ann : option opinfo) (tag : str) (attrs : list (str * str)) (kids : list ptree) (text : str).

Definition pann (t : ptree) := match t with PT a _ _ _ _ => a end.
Definition ptag (t : ptree) := match t with PT _ g _ _ _ => g end.
Definition pattrs (t : ptree) := match t with PT _ _ a _ _ => a end.
Definition pkids (t : ptree) := match t with PT _ _ _ k _ => k end.
Definition ptext (t : ptree) := match t with PT _ _ _ _ x => x end.
Definition set_ann (a : option opinfo) (t : ptree) : ptree := match t with PT _ g at_ k x => PT a g at_ k x end.
Definition set_kids (k : list ptree) (t : ptree) : ptree := match t with PT a g at_ _ x => PT a g at_ k x end.
Definition set_attrs (at_ : list (str * str)) (t : ptree) : ptree := match t with PT a g _ k x => PT a g at_ k x end.
Definition set_tag (g : str) (t : ptree) : ptree := match t with PT a _ at_ k x => PT a g at_ k x end.
Definition set_text (x : str) (t : ptree) : ptree := match t with PT a g at_ k _ => PT a g at_ k x end.

Fixpoint lift (t : tree) : ptree :=
  match t with T g a k x => PT None g a (map lift k) x end.
Fixpoint erase (t : ptree) : tree :=
  match t with PT _ g a k x => T g a (map erase k) x end.

Definition s_mrow := S "mrow"%string.
Definition s_mo := S "mo"%string.
Definition s_msub := S "msub"%string.
Definition s_msup := S "msup"%string.
Definition s_msubsup := S "msubsup"%string.
Definition s_form := S "form"%string.
Definition s_prefix := S "prefix"%string.
Definition s_postfix := S "postfix"%string.
Definition s_changed := S "data-changed"%string.
Definition s_added := S "added"%string.
Definition s_chemical_bond := S "data-chemical-bond"%string.

Definition tag_is (t : ptree) (g : str) : bool := str_eqb (ptag t) g.
Definition pattr (k : str) (t : ptree) : option str := attr_get k (pattrs t).
Definition has_attr (k : str) (t : ptree) : bool := match pattr k t with Some _ => true | None => false end.

Definition lower_ascii (c : N) : N := if (65 <=? c) && (c <=? 90) then c + 32 else c.

(* ---- find_operator without a context (is_fence): the form attribute or POSTFIX ---- *)
Definition form_type (t : ptree) : option N :=
  match pattr s_form t with
  | None => None
  | Some f => let f := map lower_ascii f in
              Some (if str_eqb f s_prefix then T_PREFIX else if str_eqb f s_postfix then T_POSTFIX else T_INFIX)
  end.

Definition op_not_in_dictionary (ty : N) : opinfo :=
  if ty =? T_PREFIX then op_def_prefix else if ty =? T_POSTFIX then op_def_postfix else op_def_infix.

(* find_operator_info: looks at most three alternatives deep *)
Definition find_operator_info (chain : list opinfo) (ty : N) (from_form : bool) : opinfo :=
  match chain with
  | [] => op_illegal
  | a :: r =>
      if has_type a ty then a else
      match r with
      | b :: r' => if has_type b ty then b else
                   match r' with
                   | c :: _ => if has_type c ty then c else if from_form then op_illegal else a
                   | [] => if from_form then op_illegal else a
                   end
      | [] => if from_form then op_illegal else a
      end
  end.

Definition found_op_info (mo : ptree) : option (list opinfo) :=
  if has_attr s_chemical_bond mo then Some [op_bond] else dict_get (ptext mo).

Definition find_operator_typed (mo : ptree) (ty : N) : opinfo :=
  match found_op_info mo with
  | None => op_not_in_dictionary ty
  | Some chain =>
      let m := find_operator_info chain ty (match pattr s_form mo with Some _ => true | None => false end) in
      if ptr_eq m op_illegal then op_not_in_dictionary ty else m
  end.

(* find_operator(None, mo, None, None, None) *)
Definition find_operator_nocontext (mo : ptree) : opinfo :=
  find_operator_typed mo (match form_type mo with Some ty => ty | None => T_POSTFIX end).

Definition is_fence_mo (mo : ptree) : bool := is_fence_op (find_operator_nocontext mo).

(* ---- StackInfo ---- *)
Record frame := Fr { f_kids : list ptree;     (* children of the mrow being built, LAST child first *)
                     f_ch : str; f_op : opinfo; f_operand : bool }.
Definition stack := list frame.                (* head = top *)

Definition fencepost_ch : str := [0xE000].
Definition new_frame : frame := Fr [] fencepost_ch op_fencepost false.
Definition with_op (node : ptree) (ch : str) (op : opinfo) : frame := Fr [set_ann None node] ch op false.
Definition illegal_pair : str * opinfo := (S "illegal"%string, op_illegal).

Definition mk_row (kids_rev : list ptree) : ptree := PT None s_mrow [(s_changed, s_added)] (rev kids_rev) [].

Definition add_child (f : frame) (child : ptree) (ch : str) (op : opinfo) : res frame :=
  if ptr_eq op op_illegal then
    if f_operand f then Panic 1
    else Ok (Fr (set_ann None child :: f_kids f) (f_ch f) (f_op f) true)
  else Ok (Fr (set_ann (Some op) child :: f_kids f) ch op false).

Definition remove_last_operand (f : frame) : res (ptree * frame) :=
  match f_kids f with
  | [] => Panic 2
  | c :: r => if f_operand f || (match r with [] => true | _ => false end)
              then Ok (c, Fr r (f_ch f) (f_op f) false) else Panic 3
  end.

(* the mrows built on the stack never carry an intent, so is_ok_to_merge_mrow_child is true for them *)
Definition reduce_one (st : stack) : res (N * stack) :=
  match st with
  | top :: below :: rest =>
      let m := match f_kids top with [c] => c | ks => mk_row ks end in
      do below' <- add_child below m (fst illegal_pair) op_illegal;
      Ok (o_prio (f_op below'), below' :: rest)
  | _ => Panic 4
  end.

Fixpoint reduce_loop (fuel : nat) (cur prev : N) (st : stack) : res stack :=
  if cur <? prev then
    match st with
    | [_] => Ok st
    | _ => match fuel with
           | O => OutOfFuel
           | Datatypes.S fuel' => do ps <- reduce_one st; reduce_loop fuel' cur (fst ps) (snd ps)
           end
    end
  else Ok st.

Definition reduce (cur : N) (st : stack) : res stack :=
  match st with
  | [] => Panic 5
  | top :: _ => reduce_loop (List.length st) cur (o_prio (f_op top)) st
  end.

(* potentially_lift_script: ( ... )^2 with the script on the closing fence becomes (( ... ))^2 *)
Definition is_script_tag (g : str) : bool := str_eqb g s_msub || str_eqb g s_msup || str_eqb g s_msubsup.

Definition potentially_lift_script (mrow : ptree) : res ptree :=
  if negb (tag_is mrow s_mrow) then Ok mrow else
  match pkids mrow with
  | [] => Panic 7
  | first :: _ =>
      match rev (pkids mrow) with
      | [] => Panic 7
      | last :: before_rev =>
          if tag_is first s_mo && is_fence_mo first && is_script_tag (ptag last) then
            match pkids last with
            | [] => Panic 8
            | base :: scripts =>
                if tag_is base s_mo && is_fence_mo base then
                  let inner := set_kids (rev (set_ann (pann last) base :: before_rev)) mrow in
                  Ok (set_ann None (set_kids (inner :: scripts) last))
                else Ok mrow
            end
          else Ok mrow
      end
  end.

Definition null {A} (l : list A) : bool := match l with [] => true | _ => false end.

(* shift_stack (after the fix: the right-fence case tests whether the bottom frame was popped) *)
Definition shift (st : stack) (child : ptree) (ch : str) (op : opinfo) : res (stack * ptree * (str * opinfo)) :=
  match st with
  | [] => Panic 6
  | top :: rest =>
      if is_nary op (f_op top) then Ok (st, child, (ch, op)) else
      if null (f_kids top) || (negb (f_operand top) && negb (is_right_fence op)) then
        Ok (new_frame :: top :: rest, child, (ch, op))
      else if is_right_fence op then
        do top' <- add_child top child ch op;
        let m := mk_row (f_kids top') in
        if null rest then Ok ([new_frame], m, illegal_pair)
        else do m' <- potentially_lift_script m; Ok (rest, m', illegal_pair)
      else if is_postfix op then
        do pr <- remove_last_operand top;
        do nf <- add_child (with_op (fst pr) ch op) child ch op;
        Ok (snd pr :: rest, mk_row (f_kids nf), illegal_pair)
      else
        do pr <- remove_last_operand top;
        Ok (with_op (fst pr) ch op :: snd pr :: rest, child, (ch, op))
  end.

(* `let mut top = parse_stack.pop().unwrap(); top.add_child_to_mrow(child, op); parse_stack.push(top)` *)
Definition add_to_top (st : stack) (child : ptree) (ch : str) (op : opinfo) : res stack :=
  match st with
  | [] => Panic 9
  | top :: rest => do top' <- add_child top child ch op; Ok (top' :: rest)
  end.
