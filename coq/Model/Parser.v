(* C03 model, part 2: classification of the children of an mrow (find_operator, compute_type_from_position,
   determine_vertical_bar_op, the implied-operator heuristics is_function_name / is_mixed_fraction / is_implied_comma /
   is_implied_separator / is_trig_arg with IsNode::is_simple and IsBracketed::is_bracketed), the row loop of
   canonicalize_mrows_in_mrow and canonicalize_mrows (src/canonicalize.rs, src/xpath_functions.rs).

   Outside the model (the top-level entry returns [Err 100]): trees that carry the chemistry marks
   data-maybe-chemistry (set by the chemistry scan, which is not modelled), non-leaf elements with text, leaf
   elements with element children, scripted/under-over elements without children. *)
From MC Require Import Lib.Base Lib.Tree Gen.OpDict Gen.ParserDefs Model.MathVariant Model.ParserCore.
From Coq Require Import String.
Local Close Scope string_scope.
Local Open Scope N_scope.

Definition s_mi := S "mi"%string.
Definition s_mn := S "mn"%string.
Definition s_ms := S "ms"%string.
Definition s_mtext := S "mtext"%string.
Definition s_mspace := S "mspace"%string.
Definition s_mfrac := S "mfrac"%string.
Definition s_fraction := S "fraction"%string.
Definition s_negative := S "negative"%string.
Definition s_mover := S "mover"%string.
Definition s_munder := S "munder"%string.
Definition s_munderover := S "munderover"%string.
Definition s_intent := S "intent"%string.
Definition s_mathvariant := S "mathvariant"%string.
Definition s_empty_content := S "empty_content"%string.
Definition s_was_mo := S "data-was-mo"%string.
Definition s_fn_likelihood := S "data-function-likelihood"%string.
Definition s_fn_guess := S "data-function-guess"%string.
Definition s_maybe_chem := S "data-maybe-chemistry"%string.
Definition s_true := S "true"%string.
Definition s_false := S "false"%string.
Definition s_data_ := S "data-"%string.
Definition s_on := S "on"%string.
Definition nbsp : str := [0xA0].
Definition c_af : str := [0x2061].
Definition c_it : str := [0x2062].
Definition c_ic : str := [0x2063].
Definition c_ip : str := [0x2064].
Definition c_lparen : str := [40].
Definition c_rparen : str := [41].
Definition c_lbrack : str := [91].
Definition c_rbrack : str := [93].
Definition c_comma : str := [44].
Definition c_slash : str := [47].
Definition c_minus : str := [45].

Definition mem_str (s : str) (l : list str) : bool := existsb (str_eqb s) l.
Definition is_leaf_tag (g : str) : bool := mem_str g parser_leaf_nodes.
Definition is_modified_tag (g : str) : bool := mem_str g parser_modified_nodes.
Definition is_leaf (t : ptree) : bool := is_leaf_tag (ptag t).

(* get_possible_embellished_node *)
Fixpoint emb_base (t : ptree) : ptree :=
  match t with
  | PT _ g _ k _ => if is_modified_tag g then match k with c :: _ => emb_base c | [] => t end else t
  end.
(* the base together with the element that follows it among ITS OWN siblings *)
Fixpoint emb_base_sib (t : ptree) (sib : option ptree) : ptree * option ptree :=
  match t with
  | PT _ g _ k _ => if is_modified_tag g then match k with c :: r => emb_base_sib c (hd_error r) | [] => (t, sib) end
                    else (t, sib)
  end.
Fixpoint map_base (f : ptree -> ptree) (t : ptree) : ptree :=
  match t with
  | PT a g at_ k x => if is_modified_tag g then match k with c :: r => PT a g at_ (map_base f c :: r) x | [] => f t end
                      else f t
  end.

(* ---- strings ---- *)
Definition ws_ranges : list (N * N) :=
  [(9, 13); (32, 32); (133, 133); (160, 160); (5760, 5760); (8192, 8202); (8232, 8233); (8239, 8239); (8287, 8287); (12288, 12288)].
Definition is_ws (c : N) : bool := in_ranges c ws_ranges.
Fixpoint drop_ws (s : str) : str := match s with c :: r => if is_ws c then drop_ws r else s | [] => [] end.
Definition trim (s : str) : str := rev (drop_ws (rev (drop_ws s))).
Definition starts_with (s : str) (c : N) : bool := match s with x :: _ => x =? c | [] => false end.
Definition utf8_len1 (c : N) : N := if c <? 128 then 1 else if c <? 2048 then 2 else if c <? 65536 then 3 else 4.
Definition byte_len (s : str) : N := fold_right (fun c a => utf8_len1 c + a) 0 s.
Definition is_ascii_upper (c : N) : bool := (65 <=? c) && (c <=? 90).
Definition is_ascii_digit (c : N) : bool := (48 <=? c) && (c <=? 57).
Fixpoint prefix_of (p s : str) : bool :=
  match p, s with [], _ => true | x :: p', y :: s' => (x =? y) && prefix_of p' s' | _, [] => false end.

(* ---- attributes ---- *)
Fixpoint attr_set (k v : str) (a : list (str * str)) : list (str * str) :=
  match a with
  | [] => [(k, v)]
  | (k', v') :: r => if str_eqb k k' then (k, v) :: r else (k', v') :: attr_set k v r
  end.
Definition attr_remove (k : str) (a : list (str * str)) : list (str * str) :=
  filter (fun kv => negb (str_eqb k (fst kv))) a.
Definition keep_attr (k : str) : bool := prefix_of s_data_ k || mem_str k global_attrs || prefix_of s_on k.
(* add_attrs(mathml, attrs) *)
Definition add_attrs (t : ptree) (saved : list (str * str)) : ptree :=
  set_attrs (fold_left (fun a kv => attr_set (fst kv) (snd kv) a) saved (filter (fun kv => keep_attr (fst kv)) (pattrs t))) t.

Definition create_mo (ch : str) : ptree := PT None s_mo [(s_changed, s_added)] [] ch.

(* ---- is_function_name ---- *)
Inductive certainty := CTrue | CMaybe | CFalse.
Definition is_ctrue (c : certainty) : bool := match c with CTrue => true | _ => false end.

Definition is_left_paren (t : ptree) : bool := tag_is t s_mo && (str_eqb (ptext t) c_lparen || str_eqb (ptext t) c_lbrack).
Definition is_matching_right_paren (open : str) (t : ptree) : bool :=
  tag_is t s_mo && ((str_eqb open c_lparen && str_eqb (ptext t) c_rparen) || (str_eqb open c_lbrack && str_eqb (ptext t) c_rbrack)).

Definition is_single_arg (open : str) (following : list ptree) : bool :=
  match following with
  | [] => true
  | first :: r =>
      if is_matching_right_paren open first then true else
      match r with
      | second :: _ => negb (tag_is first s_mrow) && is_matching_right_paren open second
      | [] => false
      end
  end.

Fixpoint comma_scan (open : str) (l : list ptree) : bool :=
  match l with
  | [] => false
  | c :: r => if tag_is c s_mo then
                if str_eqb (ptext c) c_comma then true
                else if is_matching_right_paren open c then false else comma_scan open r
              else comma_scan open r
  end.
(* following_nodes[1] is read before anything else: an empty list panics (index out of bounds) *)
Fixpoint is_comma_arg (fuel : nat) (open : str) (following : list ptree) : res bool :=
  match fuel with
  | O => OutOfFuel
  | Datatypes.S fuel' =>
      match following with
      | [_] => Ok false
      | _ :: second :: _ => if tag_is second s_mrow then is_comma_arg fuel' open (pkids second)
                            else Ok (comma_scan open following)
      | [] => Panic 11
      end
  end.

Fixpoint psize (t : ptree) : nat :=
  match t with PT _ _ _ k _ => Datatypes.S (fold_right (fun c a => psize c + a)%nat 0%nat k) end.
Definition psize_list (l : list ptree) : nat := fold_right (fun c a => psize c + a)%nat 1%nat l.

Definition is_ws_mtext (t : ptree) : bool := tag_is t s_mtext && null (trim (ptext t)).
Fixpoint skip_ws_mtext (l : list ptree) : option (list ptree) :=
  match l with
  | [] => None
  | c :: r => if is_ws_mtext c then skip_ws_mtext r else Some l
  end.

Definition is_upper (c : N) : bool := in_ranges c uppercase_ranges.

(* the part of is_function_name after the two table look-ups; [depth] bounds the "expand the mrow" retry, which
   can happen once only since the retried list starts with a parenthesis *)
Fixpoint fn_with_siblings (depth : nat) (base_name : str) (right_siblings : list ptree) : res certainty :=
  let rs := match skip_ws_mtext right_siblings with Some l => l | None => right_siblings end in
  match rs with
  | [] => Ok CFalse
  | first :: more =>
      (* is_likely_chemical_state is True without the chemistry mark *)
      if tag_is first s_mrow && (match pkids first with k0 :: _ => is_left_paren k0 | [] => false end) then
        match depth with
        | O => OutOfFuel
        | Datatypes.S d => fn_with_siblings d base_name (pkids first)
        end
      else                                  (* an empty mrow: `!first_child.children().is_empty() &&` (after the repair) *)
      match more with
      | [] => Ok CFalse
      | _ :: _ =>
          if negb (is_left_paren first) then Ok CFalse
          else if mem_str base_name def_LikelyFunctionNames then Ok CTrue
          else if is_single_arg (ptext first) more then Ok CTrue
          else
            do ca <- is_comma_arg (psize_list more) (ptext first) more;
            if ca then Ok CTrue
            else match base_name with
                 | c0 :: _ :: _ => if is_upper c0 then Ok CTrue else Ok CMaybe
                 | _ => Ok CMaybe
                 end
      end
  end.

Definition is_function_name (node : ptree) (right_siblings : option (list ptree)) : res certainty :=
  let base := emb_base node in
  if negb (tag_is base s_mi || tag_is base s_mtext) then Ok CFalse else
  let base_name := trim (ptext base) in
  if null base_name then Ok CFalse
  else if mem_str (map lower_ascii base_name) def_FunctionNames then Ok CTrue
  else if mem_str base_name def_GeometryShapes then Ok CTrue
  else match right_siblings with
       | None => Ok CFalse
       | Some rs => fn_with_siblings 2 base_name rs
       end.

Definition fn_true (node : ptree) : res bool := do c <- is_function_name node None; Ok (is_ctrue c).

(* ---- find_operator ---- *)
Definition compute_type (prev_op : option opinfo) (prev_node next_node : option ptree) : res N :=
  do a <- match next_node with Some n => fn_true (emb_base n) | None => Ok false end;
  if a then Ok T_INFIX else
  do b <- match prev_node with Some p => fn_true (emb_base p) | None => Ok false end;
  if b then Ok T_PREFIX else
  let left := match prev_op with None => true | Some o => is_postfix o end in
  let right := match next_node with Some n => negb (tag_is (emb_base n) s_mo) | None => false end in
  Ok (if left && right then T_INFIX else if negb left && right then T_PREFIX
      else if left && negb right then T_POSTFIX
      else (* the operator on the right can only start an operand: prefix position *)
        match next_node with
        | Some n => match dict_get (ptext (emb_base n)) with
                    | Some chain => if existsb is_prefix chain && negb (existsb is_infix chain) then T_PREFIX else T_INFIX
                    | None => T_INFIX
                    end
        | None => T_INFIX
        end).

Definition find_operator (mo : ptree) (prev_op : option opinfo) (prev_node next_node : option ptree) : res opinfo :=
  do ty <- match form_type mo with Some ty => Ok ty | None => compute_type prev_op prev_node next_node end;
  Ok (find_operator_typed mo ty).

(* ---- canonicalize_plane1 / canonicalize_mo_text on a leaf ---- *)
Definition plane1_leaf (t : ptree) : ptree := set_text (plane1 (pattr s_mathvariant t) (ptext t)) t.

Definition mo_text_over : list (N * str) :=       (* not the base of munder / mover / munderover *)
  [(95, [0xAF]); (0x2C9, [0xAF]); (0x304, [0xAF]); (0x305, [0xAF]); (0x332, [0xAF]); (0x2212, [0xAF]);
   (0x2010, [0xAF]); (0x2011, [0xAF]); (0x2012, [0xAF]); (0x2013, [0xAF]); (0x2014, [0xAF]); (0x2015, [0xAF]); (0x203E, [0xAF]);
   (0x2BC, [96]); (0x2DC, [126]); (0x223C, [126]); (0x2C6, [94]); (0x302, [94]); (0x307, [0x2D9]); (0x308, [0xA8])].
Definition mo_text_sup : list (N * str) := [(0xBA, [0xB0]); (0x2092, [0xB0]); (0x20D8, [0xB0]); (0x2218, [0xB0])].
Definition mo_text_other : list (N * str) :=
  [(0x2C9, [0xAF]); (0x304, [0xAF]); (0x305, [0xAF]); (0x2DC, [0x223C]); (126, [0x223C]); (0x1C1, [0x2016])].

Definition map1 (tbl : list (N * str)) (s : str) : str :=
  match s with [c] => match lookupN c tbl with Some r => r | None => s end | _ => s end.

Definition mo_text (parent : str) (is_base : bool) (s : str) : str :=
  let s1 := if negb is_base && (str_eqb parent s_mover || str_eqb parent s_munder || str_eqb parent s_munderover)
            then map1 mo_text_over s
            else if negb is_base && (str_eqb parent s_msup || str_eqb parent s_msubsup) then map1 mo_text_sup s
            else map1 mo_text_other s in
  match s1 with [0x2212] => c_minus | _ => s1 end.

Definition canon_leaf (parent : str) (is_base : bool) (t : ptree) : ptree :=
  let g := ptag t in
  if str_eqb g s_mo then let t1 := plane1_leaf t in set_text (mo_text parent is_base (ptext t1)) t1
  else if str_eqb g s_mi || str_eqb g s_ms || str_eqb g s_mtext || str_eqb g s_mspace || str_eqb g s_mn then plane1_leaf t
  else t.

(* ---- is_mixed_fraction ---- *)
Definition has_decimal (s : str) : bool := existsb (N.eqb 46) s.
Definition is_int (t : ptree) : bool := tag_is t s_mn && negb (has_decimal (ptext t)).
Definition is_integer_part_ok (t : ptree) : bool :=
  if tag_is t s_mrow then
    match pkids t with
    | [a; b] => tag_is a s_mo && str_eqb (ptext a) c_minus && is_int b
    | _ => false
    end
  else is_int t.
Definition is_mfrac_ok (t : ptree) : bool :=
  match pkids t with
  | [n; d] => tag_is n s_mn && negb (has_decimal (ptext n)) && is_int d
  | _ => false
  end.
(* after the fix: only leaves are canonicalized by the look-ahead; the siblings of the row have an mrow parent *)
Fixpoint is_linear_fraction (fuel : nat) (fc : list ptree) : res bool :=
  match fuel with
  | O => OutOfFuel
  | Datatypes.S fuel' =>
      match fc with
      | [] => Panic 19
      | first :: r =>
          if tag_is first s_mrow then
            match pkids first with [_; _; _] => is_linear_fraction fuel' (pkids first) | _ => Ok false end
          else
            match r with
            | slash :: denom :: _ =>
                if negb (is_int first) then Ok false
                else if negb (is_leaf slash) || negb (is_leaf denom) then Ok false
                else
                  let slash' := canon_leaf s_mrow false slash in
                  if tag_is slash' s_mo && str_eqb (ptext slash') c_slash
                  then Ok (is_int (canon_leaf s_mrow false denom)) else Ok false
            | _ => Panic 20
            end
      end
  end.
Definition is_mixed_fraction (integer_part : ptree) (fc : list ptree) : res bool :=
  match fc with
  | [] => Ok false
  | rchild :: _ =>
      if negb (tag_is rchild s_mfrac
               || (tag_is rchild s_mrow && (List.length (pkids rchild) =? 3)%nat)
               || (tag_is rchild s_mn && (3 <=? List.length fc)%nat)) then Ok false
      else if negb (is_integer_part_ok integer_part) then Ok false
      else if tag_is rchild s_mfrac then Ok (is_mfrac_ok rchild)
      else is_linear_fraction (psize_list fc) fc
  end.

(* ---- the other implied operators ---- *)
Record rowctx := RC { rc_parent : str; rc_has_preceding : bool }.
Definition is_implied_comma (prev cur : ptree) (rc : rowctx) : bool :=
  tag_is prev s_mn && tag_is cur s_mn && is_script_tag (rc_parent rc) && rc_has_preceding rc.
Definition is_implied_separator (prev cur : ptree) : bool :=
  tag_is prev s_mi && tag_is cur s_mi &&
  match trim (ptext prev), trim (ptext cur) with
  | [a], [b] => (a <? 128) && (b <? 128) && ((is_ascii_upper a && is_ascii_upper b) || ((a =? 95) && (b =? 95)))
  | _, _ => false
  end.

(* ---- IsBracketed::is_bracketed(e, left, right, false, false) with non-empty left and right ---- *)
Definition leaf_text (t : ptree) : str := if is_leaf t then ptext t else [].
Definition is_bracketed (t : ptree) (l r : str) : bool :=
  match pkids t with
  | first :: _ :: _ => match rev (pkids t) with
                       | last :: _ => str_eqb (leaf_text first) l && str_eqb (leaf_text last) r
                       | [] => false
                       end
  | _ => false
  end.

(* ---- IsNode::is_simple ---- *)
Fixpoint all_digits (s : str) : bool := match s with [] => true | c :: r => is_ascii_digit c && all_digits r end.
Definition dec_value (s : str) : N := fold_left (fun a c => 10 * a + (c - 48)) s 0.
(* val.parse::<usize>() succeeds and is <= bound: an optional '+', then ASCII digits *)
Definition small_enough (s : str) (bound : N) : bool :=
  let d := match s with 43 :: r => r | _ => s end in
  negb (null d) && all_digits d && (dec_value d <=? bound).
Definition any_digit (s : str) : bool := existsb (fun c => in_ranges c digit_ranges) s.
Definition is_common_fraction (t : ptree) (nl dl : N) : bool :=
  (tag_is t s_mfrac || tag_is t s_fraction) &&
  match pkids t with
  | [n; d] => tag_is n s_mn && tag_is d s_mn && negb (null (ptext n)) && negb (null (ptext d)) &&
              any_digit (ptext n) && small_enough (ptext n) nl && any_digit (ptext d) && small_enough (ptext d) dl
  | _ => false
  end.
Definition is_trivially_simple (t : ptree) : bool :=
  tag_is t s_mn || (tag_is t s_mi && match ptext t with [_] => true | _ => false end) || is_common_fraction t 10 19.
Definition is_negative_of_trivially_simple (t : ptree) : bool :=
  (tag_is t s_mrow && match pkids t with
                      | [a; b] => tag_is a s_mo && starts_with (leaf_text a) 45 && is_trivially_simple b
                      | _ => false end)
  || (tag_is t s_negative && match pkids t with [a] => is_trivially_simple a | _ => false end).
Definition mi_one_byte (t : ptree) : bool := tag_is t s_mi && (byte_len (leaf_text t) =? 1).
Definition mo_starts (t : ptree) (c : N) : bool := tag_is t s_mo && starts_with (leaf_text t) c.
Definition is_times_mi (t : ptree) : bool :=
  match pkids t with
  | first :: op1 :: v1 :: more =>
      (match more with [] => true | [_; _] => true | _ => false end) &&
      (is_trivially_simple first ||
       (is_negative_of_trivially_simple first &&
        negb (match more with
              | [_; _] => (tag_is first s_negative && negb (match pkids first with k :: _ => tag_is k s_mn | [] => false end))
                          || (tag_is first s_mrow && negb (match pkids first with _ :: k :: _ => tag_is k s_mn | _ => false end))
              | _ => false end))) &&
      mo_starts op1 0x2062 && mi_one_byte v1 &&
      (match more with [op2; v2] => mo_starts op2 0x2062 && mi_one_byte v2 | _ => true end)
  | _ => false
  end.
Definition is_degrees (t : ptree) : bool :=
  match pkids t with [a; b] => starts_with (leaf_text b) 0xB0 && (tag_is a s_mi || tag_is a s_mn) | _ => false end.
Fixpoint is_simple (fuel : nat) (t : ptree) : res bool :=
  match fuel with
  | O => OutOfFuel
  | Datatypes.S fuel' =>
      if is_trivially_simple t || is_negative_of_trivially_simple t then Ok true
      else if negb (tag_is t s_mrow) || null (pkids t) then Ok false
      else if is_times_mi t || is_degrees t then Ok true
      else match pkids t with
           | [f; op; arg] =>
               if mo_starts op 0x2061 && tag_is f s_mi then
                 if is_bracketed arg c_lparen c_rparen
                 then match pkids arg with _ :: inner :: _ => is_simple fuel' inner | _ => Ok false end
                 else is_simple fuel' arg
               else Ok false
           | _ => Ok false
           end
  end.

(* ---- is_trig_arg ---- *)
Definition is_trig (node : ptree) : bool :=
  let b := emb_base node in
  (tag_is b s_mi || tag_is b s_mtext) && negb (null (trim (ptext b))) &&
  mem_str (map lower_ascii (trim (ptext b))) def_TrigFunctionNames.

Definition first_child_of (f : frame) : option ptree := hd_error (rev (f_kids f)).

Definition is_trig_arg (prev_base cur_base : ptree) (st : stack) : res (bool * stack) :=
  do simple <- is_simple (psize cur_base) cur_base;
  if negb simple then Ok (false, st) else
  if is_bracketed prev_base c_lparen c_rparen || is_bracketed prev_base c_lbrack c_rbrack then Ok (false, st) else
  do fn <- fn_true cur_base;
  if fn then Ok (false, st) else
  match st with
  | [] => Panic 21
  | top :: rest =>
      if ptr_eq (f_op top) op_fn_app then
        match first_child_of top with Some f => Ok (is_trig f, st) | None => Panic 15 end
      else if ptr_eq (f_op top) op_prefix_minus then
        match rest with
        | [] => Ok (false, st)
        | next :: _ =>
            if negb (ptr_eq (f_op next) op_fn_app) then Ok (false, st) else
            match first_child_of next with
            | None => Panic 15
            | Some f => if is_trig f then do ps <- reduce_one st; Ok (true, snd ps) else Ok (false, st)
            end
        end
      else Ok (ptr_eq (f_op top) op_times_high, st)
  end.

(* ---- determine_vertical_bar_op ---- *)
Definition versions := (option opinfo * option opinfo * option opinfo)%type.    (* prefix, infix, postfix *)
Fixpoint operator_versions (chain : list opinfo) (v : versions) : res versions :=
  match chain with
  | [] => Ok v
  | o :: r => let '(p, i, q) := v in
              if is_prefix o then operator_versions r (Some o, i, q)
              else if is_infix o then operator_versions r (p, Some o, q)
              else if is_postfix o then operator_versions r (p, i, Some o)
              else Panic 22
  end.

(* last_child_in_mrow: skips children marked data-changed='empty_content' *)
Fixpoint last_child_in (kids_rev : list ptree) : option ptree :=
  match kids_rev with
  | [] => None
  | c :: r => match pattr s_changed c with
              | Some v => if str_eqb v s_empty_content then last_child_in r else Some c
              | None => Some c
              end
  end.
Definition last_child (f : frame) : option ptree := last_child_in (f_kids f).

Definition n_vertical_bars (rest : list ptree) (ch : str) : N :=
  fold_right (fun c a => if tag_is c s_mo && str_eqb (ptext c) ch then a + 1 else a) 0 rest.

Definition is_some {A} (o : option A) : bool := match o with Some _ => true | None => false end.

Definition vertical_bar_op (original : opinfo) (mo : ptree) (next : option ptree) (after_next : option ptree)
           (st : stack) (n_bars : N) : res opinfo :=
  match dict_get (ptext mo) with
  | None => Ok original
  | Some chain =>
      if negb (mem_str (ptext mo) ambiguous_operators) then Ok original else
      do v <- operator_versions chain (None, None, None);
      let '(vp, vi, vq) := v in
      let op := match chain with o :: _ => o | [] => op_illegal end in
      match st with
      | [] => Panic 23
      | top :: rest =>
          if is_some vp && (negb (is_some (last_child top)) || negb (f_operand top)) then
            Ok (match vp with Some p => p | None => op end)
          else
            let has_left_match :=
                match vp with
                | Some p => if ptr_eq (f_op top) p then true
                            else match rest with
                                 | below :: _ :: _ => ptr_eq (f_op below) p
                                 | _ => false
                                 end
                | None => false
                end in
            if is_some vq && (negb (is_some next) || has_left_match) then Ok (match vq with Some q => q | None => op end)
            else match next with
                 | None => Ok (match vi with Some i => i | None => op end)
                 | Some nx =>
                     if is_some vp && N.odd n_bars then Ok (match vp with Some p => p | None => op end) else
                     let '(nb, nsib) := emb_base_sib nx after_next in
                     do next_op <- (if negb (tag_is nb s_mo) then Ok None
                                    else do o <- find_operator nb vi (last_child top) nsib; Ok (Some o));
                     match next_op with
                     | Some o => if negb (is_left_fence o) && negb (is_prefix o)
                                 then Ok (match vq with Some q => q | None => op end)
                                 else Ok (match vi with Some i => i | None => op end)
                     | None => Ok (match vi with Some i => i | None => op end)
                     end
                 end
      end
  end.

(* ---- one child of the row ---- *)
Definition top_frame (st : stack) : res frame := match st with top :: _ => Ok top | [] => Panic 13 end.

(* reduce, shift an implied operator and add it to the top of the stack; the two assertions after shift_stack *)
Definition push_implied (st : stack) (mo : ptree) (ch : str) (op : opinfo) : res stack :=
  do st1 <- reduce (o_prio op) st;
  do sh <- shift st1 mo ch op;
  let '(st2, child2, (_, op2)) := sh in
  if negb (ptr_eq op op2) then Panic 14 else
  add_to_top st2 mo ch op.

Definition with_guess (c : certainty) (mo : ptree) : ptree :=
  match c with CMaybe => set_attrs (attr_set s_fn_guess s_true (pattrs mo)) mo | _ => mo end.

(* What the row loop decides for one child, separated from what it then does to the stack.  [classify] holds the
   heuristics; [act] is the shift/reduce machine.  The theorems about the machine hold for every decision sequence. *)
Inductive decision :=
| DOperand (c : ptree)                                         (* an operand with nothing to insert before it *)
| DSpace (c : ptree)                                           (* NBSP whitespace kept out of the parse *)
| DJuxta (imo : ptree) (ich : str) (iop : opinfo) (c : ptree)  (* operand after operand: implied operator, then c *)
| DOp (c : ptree) (ch : str) (op : opinfo) (implied : option (ptree * str * opinfo))
                                                               (* an operator; [implied]: what goes before a
                                                                  prefix operator / left fence that follows an operand *)
| DPre (d : decision).                                         (* is_trig_arg reduced the stack once before deciding d *)

Fixpoint act (st : stack) (d : decision) : res stack :=
  match d with
  | DPre d' => do ps <- reduce_one st; act (snd ps) d'
  | DOperand c => add_to_top st c (fst illegal_pair) op_illegal
  | DSpace c => add_to_top st c nbsp op_fn_app
  | DJuxta imo ich iop c =>
      do st2 <- push_implied st imo ich iop;
      add_to_top st2 c (fst illegal_pair) op_illegal
  | DOp c ch op implied =>
      if ptr_eq op op_illegal then add_to_top st c ch op else
      if is_left_fence op || is_prefix op then
        do st1 <- (match implied with
                   | Some (imo, ich, iop) => push_implied st imo ich iop
                   | None => Ok st
                   end);
        add_to_top (new_frame :: st1) c ch op
      else
        do st1 <- reduce (o_prio op) st;
        do sh <- shift st1 c ch op;
        let '(st2, c2, (ch2, op2)) := sh in
        add_to_top st2 c2 ch2 op2
  end.

(* the block `if !ptr_eq(current_op.op, ILLEGAL_OPERATOR_INFO) { ... }`: which implied operator a prefix operator or
   left fence needs, and the linear-mixed-fraction hack for '/' *)
Definition classify_op (st : stack) (prev : option ptree) (c : ptree) (ch : str) (op : opinfo) (rest : list ptree) : res decision :=
  if ptr_eq op op_illegal then Ok (DOp c ch op None) else
  do top <- top_frame st;
  if is_left_fence op || is_prefix op then
    if f_operand top then
      match prev with
      | None => Panic 12
      | Some p =>
          do lfn <- is_function_name p (Some (c :: rest));
          let '(ich, iop) := if is_ctrue lfn then (c_af, op_fn_app) else (c_it, op_times) in
          Ok (DOp c ch op (Some (with_guess lfn (create_mo ich), ich, iop)))
      end
    else Ok (DOp c ch op None)
  else
    Ok (DOp c ch (if str_eqb ch c_slash && str_eqb (f_ch top) c_ip then op_plus_slash else op) None).

Definition rename_was_mo (b : ptree) : ptree :=
  match pattr s_changed b with
  | Some v => if str_eqb v s_was_mo then set_tag s_mo (set_attrs (attr_remove s_changed (pattrs b)) b) else b
  | None => b
  end.

(* is_trig_arg decides and, in one case, reduces the stack first: the decision records that *)
Definition trig_arg_decision (prev_base cur_base : ptree) (st : stack) : res (bool * bool) :=
  do ta <- is_trig_arg prev_base cur_base st;
  Ok (fst ta, negb (List.length (snd ta) =? List.length st)%nat).

Definition classify (rc : rowctx) (st : stack) (prev : option ptree) (c : ptree) (rest : list ptree) : res decision :=
  let base := emb_base c in
  do top <- top_frame st;
  if tag_is base s_mo && negb (str_eqb (ptext base) nbsp) then
    let prev_op := if f_operand top then None else Some (f_op top) in
    let next := hd_error rest in
    do op0 <- find_operator base prev_op (last_child top) next;
    do op1 <- vertical_bar_op op0 base next (hd_error (tl rest)) st (n_vertical_bars rest (ptext base));
    classify_op st prev c (ptext base) op1 rest
  else
    match last_child top with
    | None => Ok (DOperand c)
    | Some pc =>
        let pbase := emb_base pc in
        if tag_is pbase s_mo then Ok (DOperand c) else
        do lfn <- is_function_name pc (Some (c :: rest));
        if tag_is base s_mtext && str_eqb (ptext base) nbsp then
          let f := fun b => set_tag s_mo (set_attrs (attr_remove s_was_mo
                                 (attr_set s_fn_likelihood (if is_ctrue lfn then s_true else s_false) (pattrs b))) b) in
          Ok (DSpace (map_base f c))
        else
          do choice <-
             (if is_ctrue lfn then Ok (c_af, op_fn_app, false) else
              do mf <- is_mixed_fraction pc (c :: rest);
              if mf then Ok (c_ip, op_iplus, false) else
              if is_implied_comma pc c rc then Ok (c_ic, op_comma, false) else
              if is_implied_separator pc c then Ok (c_ic, op_sep_high, false) else
              do ta <- trig_arg_decision pbase base st;
              if fst ta then Ok (c_it, op_times_high, snd ta) else Ok (c_it, op_times, false));
          let '(ich, iop, pre) := choice in
          let c1 := map_base rename_was_mo c in
          let base1 := emb_base c1 in
          if tag_is base1 s_mo then
            (* the child itself is the operator (it was an mo before clean-up, or an mo holding NBSP) *)
            do st1 <- (if pre then do ps <- reduce_one st; Ok (snd ps) else Ok st);
            do d <- classify_op st1 prev c1 (ptext base1) iop rest;
            Ok (if pre then DPre d else d)
          else let d := DJuxta (with_guess lfn (create_mo ich)) ich iop c1 in Ok (if pre then DPre d else d)
    end.

Definition step (rc : rowctx) (st : stack) (prev : option ptree) (c : ptree) (rest : list ptree) : res stack :=
  do d <- classify rc st prev c rest; act st d.

Fixpoint row_loop (cn : ptree -> res ptree) (rc : rowctx) (st : stack) (prev : option ptree) (rest : list ptree) : res stack :=
  match rest with
  | [] => Ok st
  | c :: rest' =>
      do c' <- cn c;
      do st' <- step rc st prev c' rest';
      row_loop cn rc st' (Some c') rest'
  end.

(* the attributes of the finished row: those of the original mrow on top of the global ones of what was parsed; an only
   child that stands for the row keeps what it says itself (its id, notation, linethickness, form ...) *)
Definition finish_attrs (parsed mrow : ptree) (merged : bool) : ptree :=
  let r := add_attrs (set_attrs (attr_remove s_changed (pattrs parsed)) parsed) (pattrs mrow) in
  if merged
  then set_attrs (fold_left (fun a kv => attr_set (fst kv) (snd kv) a)
                            (filter (fun kv => negb (str_eqb (fst kv) s_changed)) (pattrs parsed)) (pattrs r)) r
  else r.

Definition finish_row (mrow : ptree) (st : stack) : res ptree :=
  do st1 <- reduce (o_prio op_fencepost) st;
  match st1 with
  | [top] =>
      let ok_merge := negb (List.length (pkids mrow) =? 1)%nat || negb (has_attr s_intent mrow) in
      let parsed := match f_kids top with
                    | [only] => if ok_merge then only else mk_row (f_kids top)
                    | ks => mk_row ks
                    end in
      let merged := match f_kids top with [only] => ok_merge | _ => false end in
      Ok (set_ann None (finish_attrs parsed mrow merged))
  | [] => Panic 16
  | _ => Panic 17
  end.

Definition parse_row (cn : ptree -> res ptree) (rc : rowctx) (mrow : ptree) : res ptree :=
  do st <- row_loop cn rc [new_frame] None (pkids mrow);
  finish_row mrow st.

(* ---- canonicalize_mrows ---- *)
Fixpoint canon (fuel : nat) (parent : str) (idx : nat) (t : ptree) : res ptree :=
  match fuel with
  | O => OutOfFuel
  | Datatypes.S fuel' =>
      let g := ptag t in
      if str_eqb g s_mi || str_eqb g s_ms || str_eqb g s_mtext || str_eqb g s_mspace || str_eqb g s_mo || str_eqb g s_mn
      then Ok (canon_leaf parent (idx =? 0)%nat t)
      else if str_eqb g s_mrow then
        parse_row (canon fuel' s_mrow 0%nat) (RC parent (negb (idx =? 0)%nat)) t
      else
        do ks <- (fix go (i : nat) (l : list ptree) : res (list ptree) :=
                    match l with
                    | [] => Ok []
                    | c :: r => do c' <- canon fuel' g i c; do r' <- go (Datatypes.S i) r; Ok (c' :: r')
                    end) 0%nat (pkids t);
        Ok (set_kids ks t)
  end.

(* ---- what the model covers ---- *)
Fixpoint wf_input (t : ptree) : bool :=
  match t with
  | PT _ g a k x =>
      negb (is_some (attr_get s_maybe_chem a)) &&
      (if is_leaf_tag g then null k else null x) &&
      (if is_modified_tag g then negb (null k) else true) &&
      forallb wf_input k
  end.

Definition canonicalize_mrows (t : tree) : res tree :=
  let p := lift t in
  if wf_input p then do r <- canon (psize p) [] 0%nat p; Ok (erase r) else Err 100.
