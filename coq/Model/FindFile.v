(* C15 / C14 model: how the preference manager locates the rule files of a language / braille code
   (PreferenceManager::get_language_dir, find_file, unzip_files, set_speech_files, set_braille_files in src/prefs.rs).
   Paths are lists of components relative to the rules directory; the file system is four observations:
   is_file, is_dir, "the directory holds some *_Rules.yaml" and "the directory holds some *.yaml".
   No zip archives (the shipped tree is unzipped; generated obligation RulesTreeP.no_zip). *)
From MC Require Import Lib.Base.
From Coq Require Import String.
Local Open Scope N_scope.

Definition path := list str.
Fixpoint path_eqb (a b : path) : bool :=
  match a, b with
  | [], [] => true
  | x :: a', y :: b' => str_eqb x y && path_eqb a' b'
  | _, _ => false
  end.

Definition f_definitions : str := S "definitions.yaml".
Definition rules_suffix : str := S "_Rules.yaml".

Fixpoint ends_with (s suf : str) : bool :=
  str_eqb s suf || match s with [] => false | _ :: r => ends_with r suf end.

(* all prefixes of a path, longest first, down to the empty path: Path::ancestors up to the rules directory *)
Fixpoint inits (p : path) : list path :=
  match p with [] => [[]] | x :: r => [] :: map (cons x) (inits r) end.
Definition ancestors (p : path) : list path := rev (inits p).
Definition nonempty (p : path) : bool := match p with [] => false | _ => true end.

Inductive located := Found (p : path) | AnyStyleIn (d : path).

Section FF.
  Variable is_file : path -> bool.
  Variable is_dir : path -> bool.
  Variable has_style : path -> bool.
  Variable has_yaml : path -> bool.

  (* Rules/<base>/<lang>/<region>, Rules/<base>/<lang>: the deepest that is a directory *)
  Definition lang_dir (base parts : path) : option path :=
    find is_dir (map (app base) (filter nonempty (ancestors parts))).
  Definition get_language_dir (base parts : path) (default : option path) : option path :=
    match lang_dir base parts with
    | Some d => Some d
    | None => match default with Some dp => lang_dir base dp | None => None end
    end.

  (* the loop of find_file over lang_dir.ancestors(): the first directory that has the file wins; for a style file
     the first directory seen that has any style file is the fall-back *)
  Fixpoint scan (ds : list path) (file : str) (style : bool) (alt : option path) : option located :=
    match ds with
    | [] => option_map AnyStyleIn alt
    | a :: r =>
        if is_file (a ++ [file]) && negb (str_eqb file f_definitions && negb (nonempty a)) then Some (Found (a ++ [file]))
        else scan r file style (match alt with Some _ => alt | None => if style && has_style a then Some a else None end)
    end.
  Definition ff1 (d : option path) (file : str) : option located :=
    match d with None => None | Some d => scan (ancestors d) file (ends_with file rules_suffix) None end.
  Definition find_file (base parts : path) (default : option path) (file : str) : option located :=
    match ff1 (get_language_dir base parts default) file with
    | Some r => Some r
    | None => match default with Some dp => ff1 (get_language_dir base dp None) file | None => None end
    end.

  (* unzip_files with no archives: the language directory must hold some .yaml file; a regional name retries with
     the language alone *)
  Definition unzip_ok (base parts : path) (default : option path) : bool :=
    match get_language_dir base parts default with
    | None => false
    | Some d => has_yaml d ||
                match parts with
                | l :: _ :: _ => match get_language_dir base [l] default with Some d' => has_yaml d' | None => false end
                | _ => false
                end
    end.

  (* set_speech_files / set_braille_files: None = the call returns an error *)
  Fixpoint all_some (l : list (option located)) : option (list located) :=
    match l with
    | [] => Some []
    | Some x :: r => match all_some r with Some xs => Some (x :: xs) | None => None end
    | None :: _ => None
    end.
  Definition locate_all (base parts : path) (default : path) (files : list str) : option (list located) :=
    if unzip_ok base parts (Some default) then all_some (map (find_file base parts (Some default)) files) else None.
End FF.

(* "en-gb" -> [en; gb]: set_preference keeps the first two parts of a language name; a braille code name is split at
   every '-' (get_language_dir replaces each '-' by a path separator) *)
Fixpoint split_dash (s cur : str) : list str :=
  match s with
  | [] => [rev cur]
  | c :: r => if c =? 45 then rev cur :: split_dash r [] else split_dash r (c :: cur)
  end.
Definition lang_parts (s : str) : path := firstn 2 (split_dash s []).
Definition code_parts (s : str) : path := split_dash s [].

Definition speech_base : path := [S "Languages"].
Definition braille_base : path := [S "Braille"].
Definition english : path := [S "en"].
Definition ueb : path := [S "UEB"].
Definition speech_files (style : str) : list str :=
  [S "intent.yaml"; S "overview.yaml"; S "navigate.yaml"; S "unicode.yaml"; S "unicode-full.yaml"; S "definitions.yaml";
   style ++ rules_suffix].
Definition braille_files (code : str) : list str :=
  [code ++ rules_suffix; S "unicode.yaml"; S "unicode-full.yaml"; S "definitions.yaml"].

(* a file system given by its listing: the files (as paths), directories are the proper prefixes of file paths *)
Definition memP (p : path) (l : list path) : bool := existsb (path_eqb p) l.
Fixpoint is_prefix (a b : path) : bool :=
  match a, b with
  | [], _ => true
  | x :: a', y :: b' => str_eqb x y && is_prefix a' b'
  | _, [] => false
  end.
Definition t_is_file (files : list path) (p : path) : bool := memP p files.
Definition t_is_dir (files : list path) (p : path) : bool :=
  existsb (fun f => is_prefix p f && negb (path_eqb p f)) files.
Definition t_in_dir (files : list path) (d : path) (suffix : str) : bool :=
  existsb (fun f => path_eqb (removelast f) d && ends_with (last f []) suffix) files.
Definition t_locate (files : list path) (base parts default : path) (names : list str) : option (list located) :=
  locate_all (t_is_file files) (t_is_dir files) (fun d => t_in_dir files d rules_suffix) (fun d => t_in_dir files d (S ".yaml"))
             base parts default names.

Definition t_find (files : list path) (base parts default : path) (file : str) : option located :=
  find_file (t_is_file files) (t_is_dir files) (fun d => t_in_dir files d rules_suffix) base parts (Some default) file.
Definition t_unzip_ok (files : list path) (base parts default : path) : bool :=
  unzip_ok (t_is_dir files) (fun d => t_in_dir files d (S ".yaml")) base parts (Some default).

(* does the located file agree with the path the library reports? *)
Definition loc_agree (files : list path) (l : located) (q : path) : bool :=
  match l with
  | Found p => path_eqb p q
  | AnyStyleIn d => path_eqb (removelast q) d && ends_with (last q []) rules_suffix && t_is_file files q
  end.
Fixpoint all_agree (files : list path) (ls : list located) (qs : list path) : bool :=
  match ls, qs with
  | [], [] => true
  | l :: ls', q :: qs' => loc_agree files l q && all_agree files ls' qs'
  | _, _ => false
  end.
