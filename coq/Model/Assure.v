(* C02 model: the validation every expression goes through before anything is changed (CanonicalizeContext::assure_mathml,
   src/canonicalize.rs).  A tree is refused unless, in the part that is kept (of a semantics element only its presentation
   child is looked at; what lies in the other annotations is dropped later):
     - a token element (MATHML_LEAF_NODES) has no child or one text child; an empty element among them has none;
     - mmultiscripts is a base followed by pairs, with at most one mprescripts, itself followed by pairs;
     - an element with a fixed number of children (ELEMENTS_WITH_FIXED_NUMBER_OF_CHILDREN) has that number;
     - semantics holds one presentation element -- the single element child of the first annotation whose encoding is
       MathML-Presentation, else its first child -- and otherwise only annotation / annotation-xml;
     - every other element is a MathML presentation element (ALL_MATHML_ELEMENTS).
   The name sets are regenerated from the source (Gen/AssureSets.v); attributes other than the encoding are not looked
   at by the validation and are not modelled.  trim_element runs in front of the validation: it turns whatever a token
   element holds into one text and drops text between elements, so the validation sees tokens with no child or one text
   and other elements with element children only; the tie feeds trees of that form. *)
From MC Require Import Lib.Base Gen.AssureSets.
From Coq Require Import String.
Local Open Scope string_scope.
Local Open Scope list_scope.
Local Open Scope N_scope.

Inductive node :=
| Tx : node                                             (* a text child *)
| El : str -> bool -> list node -> node.               (* name, "has encoding='MathML-Presentation'", children *)

Definition in_names (s : str) (l : list str) : bool := existsb (str_eqb s) l.

Definition s_annotation : str := S "annotation".
Definition s_annotation_xml : str := S "annotation-xml".
Definition s_semantics : str := S "semantics".
Definition s_mmultiscripts : str := S "mmultiscripts".
Definition s_mprescripts : str := S "mprescripts".

Definition name_of (t : node) : str := match t with El g _ _ => g | Tx => []%list end.
Definition kids_of (t : node) : list node := match t with El _ _ k => k | Tx => []%list end.
Definition is_el (t : node) : bool := match t with El _ _ _ => true | Tx => false end.
Definition has_enc (t : node) : bool := match t with El _ e _ => e | Tx => false end.
Definition is_pre (t : node) : bool := str_eqb (name_of t) s_mprescripts.

(* the positions of the mprescripts children *)
Fixpoint pre_positions (i : nat) (kids : list node) : list nat :=
  match kids with
  | [] => []
  | k :: r => if is_pre k then i :: pre_positions (Datatypes.S i) r else pre_positions (Datatypes.S i) r
  end.

Definition multiscripts_ok (kids : list node) : bool :=
  let n := List.length kids in
  match pre_positions 0 kids with
  | [] => Nat.odd n
  | [i] => Nat.leb 1 i && Nat.even (i - 1) && Nat.even (n - i - 1)
  | _ => false
  end.

Definition fixed_count (g : str) : nat := if in_names g three_children then 3%nat else 2%nat.

(* what the node-local tests say about an element that is not a token *)
Definition local_ok (g : str) (kids : list node) : bool :=
  (if str_eqb g s_mmultiscripts then multiscripts_ok kids else true) &&
  (if in_names g fixed_children then Nat.eqb (List.length kids) (fixed_count g) else true).

Definition token_ok (g : str) (kids : list node) : bool :=
  if in_names g empty_elements then match kids with [] => true | _ => false end
  else if str_eqb g s_annotation then false
  else match kids with [] => true | [Tx] => true | _ => false end.

(* an annotation that claims to hold the presentation form must hold exactly one element *)
Definition annotation_ok (k : node) : bool :=
  if has_enc k then match kids_of k with [c] => is_el c | _ => false end else true.

(* the index of the presentation child: the first child with the encoding, else 0 *)
Fixpoint enc_index (i : nat) (kids : list node) : option nat :=
  match kids with
  | [] => None
  | k :: r => if has_enc k then Some i else enc_index (Datatypes.S i) r
  end.
Definition presentation_index (kids : list node) : nat := match enc_index 0 kids with Some i => i | None => 0%nat end.

Definition is_annotation (k : node) : bool := str_eqb (name_of k) s_annotation || str_eqb (name_of k) s_annotation_xml.

Fixpoint others_ok (i : nat) (p : nat) (kids : list node) : bool :=
  match kids with
  | [] => true
  | k :: r => (Nat.eqb i p || is_annotation k) && others_ok (Datatypes.S i) p r
  end.

Fixpoint assure (t : node) : bool :=
  match t with
  | Tx => false
  | El g _ kids =>
    if in_names g leaf_nodes then token_ok g kids
    else if negb (local_ok g kids) then false
    else if str_eqb g s_semantics then
      match kids with
      | [] => true
      | first :: _ =>
        forallb annotation_ok kids && others_ok 0 (presentation_index kids) kids &&
        (* the presentation element: the only child of the first annotation with the encoding, else the first child *)
        (fix pick (l : list node) : bool :=
           match l with
           | [] => assure first
           | El _ true [c] :: _ => assure c
           | El _ true _ :: _ => false
           | _ :: r => pick r
           end) kids
      end
    else if negb (in_names g all_mathml_elements) then false
    else (fix all (l : list node) : bool := match l with [] => true | k :: r => assure k && all r end) kids
  end.

(* ---- the part of a tree that is kept ---- *)
Definition presentation_of (kids : list node) : option node :=
  match kids with
  | [] => None
  | first :: _ => match find has_enc kids with
                  | Some k => match kids_of k with [c] => Some c | _ => None end
                  | None => Some first
                  end
  end.

Inductive kept : node -> node -> Prop :=
| kept_here : forall t, kept t t
| kept_child : forall g e kids k x, in_names g leaf_nodes = false -> str_eqb g s_semantics = false -> In k kids -> kept k x -> kept (El g e kids) x
| kept_presentation : forall e kids p x, presentation_of kids = Some p -> kept p x -> kept (El s_semantics e kids) x.
