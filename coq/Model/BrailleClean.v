(* C06 model: a regex / literal replace step of a braille clean-up function as a set of alternatives, each a list of
   ACTIONS read left to right over the top-level pieces of the pattern (gen/c06.py):
     Keep        a captured piece that the replacement re-emits
     Drop alpha  a piece that is deleted; alpha = the characters it can contain (None: any)
     Ins text    literal text of the replacement
   The semantics below does not fix which matches the regex engine finds: a step relates a string to EVERY string
   obtained by cutting it into unmatched text and matches (each an instance of one alternative, with arbitrary texts
   for its pieces within their alphabets) and replacing each match by its replacement. *)
From MC Require Import Lib.Base.
Local Open Scope N_scope.

Inductive action := Keep | Drop (alpha : option (list (N * N))) | Ins (text : str).
Inductive step := SStep (alts : list (list action)) | SOpaque.

Definition in_alpha (a : option (list (N * N))) (c : N) : bool :=
  match a with None => true | Some rs => in_ranges c rs end.

(* the texts of the Keep / Drop pieces of one match, in order *)
Inductive conf : list action -> list str -> Prop :=
| conf_nil : conf [] []
| conf_ins : forall s a m, conf a m -> conf (Ins s :: a) m
| conf_keep : forall a m t, conf a m -> conf (Keep :: a) (t :: m)
| conf_drop : forall al a m t, forallb (in_alpha al) t = true -> conf a m -> conf (Drop al :: a) (t :: m).

Fixpoint match_out (acts : list action) (m : list str) : str :=
  match acts with
  | [] => []
  | Ins s :: a => s ++ match_out a m
  | Keep :: a => match m with t :: m' => t ++ match_out a m' | [] => [] end
  | Drop _ :: a => match m with _ :: m' => match_out a m' | [] => [] end
  end.

Inductive seg := Unmatched (s : str) | Matched (acts : list action) (m : list str).
Definition seg_in (x : seg) : str := match x with Unmatched s => s | Matched _ m => concat m end.
Definition seg_out (x : seg) : str := match x with Unmatched s => s | Matched a m => match_out a m end.
Definition seg_ok (alts : list (list action)) (x : seg) : Prop :=
  match x with Unmatched _ => True | Matched a m => In a alts /\ conf a m end.

(* one step: any segmentation *)
Definition step_rel (st : step) (s s' : str) : Prop :=
  match st with
  | SOpaque => False
  | SStep alts => exists segs, Forall (seg_ok alts) segs /\ s = concat (map seg_in segs) /\ s' = concat (map seg_out segs)
  end.

Inductive chain_rel : list step -> str -> str -> Prop :=
| chain_nil : forall s, chain_rel [] s s
| chain_cons : forall st r s s1 s2, step_rel st s s1 -> chain_rel r s1 s2 -> chain_rel (st :: r) s s2.

(* ---- the obligation on a step, for a class of characters that must survive ---- *)
Fixpoint range_chars (lo : N) (n : nat) : list N :=
  match n with O => [] | Datatypes.S k => lo :: range_chars (lo + 1) k end.
Definition chars_of (rs : list (N * N)) : list N :=
  flat_map (fun r => range_chars (fst r) (N.to_nat (snd r + 1 - fst r))) rs.

Definition action_okb (keep : N -> bool) (a : action) : bool :=
  match a with
  | Keep => true
  | Ins s => forallb (fun c => negb (keep c)) s
  | Drop None => false
  | Drop (Some rs) => forallb (fun c => negb (keep c)) (chars_of rs)
  end.
Definition step_okb (keep : N -> bool) (st : step) : bool :=
  match st with SOpaque => false | SStep alts => forallb (forallb (action_okb keep)) alts end.

(* what must survive: the sub-sequence of characters of a class *)
Definition proj (keep : N -> bool) (s : str) : str := filter keep s.
