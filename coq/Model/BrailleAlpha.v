(* C07 model: the final indicator substitution of every braille clean-up function
     REPLACE_INDICATORS.replace_all(&result, |cap| table / preference value of cap[0])
   REPLACE_INDICATORS is a single character class, so replace_all is a character-wise substitution. *)
From MC Require Import Lib.Base.
Local Open Scope N_scope.

Definition is_cell (c : N) : bool := (0x2800 <=? c) && (c <=? 0x28FF).
Definition has_dots78 (c : N) : bool := (0x28C0 <=? c) && (c <=? 0x28FF).

Section Code.
  Variable table : list (str * str).
  Variable cls : list (N * N).
  Variable prefs : list (N * str).        (* keys whose replacement comes from a preference *)

  Definition subst_char (c : N) : str :=
    if in_ranges c cls then
      match lookupN c prefs with
      | Some v => v
      | None => match lookupS [c] table with Some v => v | None => [] end
      end
    else [c].

  Definition final_subst (s : str) : str := flat_map subst_char s.

  (* a character is harmless before the final substitution iff what it becomes is braille cells *)
  Definition char_ok (c : N) : bool := forallb is_cell (subst_char c).
  Definition char_ok_plain (c : N) : bool := forallb (fun x => is_cell x && negb (has_dots78 x)) (subst_char c).
End Code.

Lemma final_subst_cells : forall table cls prefs s,
  forallb (char_ok table cls prefs) s = true -> forallb is_cell (final_subst table cls prefs s) = true.
Proof.
  intros table cls prefs s. induction s as [|c t IH]; intro H; [reflexivity|].
  cbn [forallb] in H. apply andb_true_iff in H. destruct H as [Hc Ht]. unfold final_subst. cbn [flat_map].
  rewrite forallb_app. apply andb_true_iff. split; [exact Hc | apply IH; exact Ht].
Qed.

Lemma final_subst_plain : forall table cls prefs s,
  forallb (char_ok_plain table cls prefs) s = true ->
  forallb (fun x => is_cell x && negb (has_dots78 x)) (final_subst table cls prefs s) = true.
Proof.
  intros table cls prefs s. induction s as [|c t IH]; intro H; [reflexivity|].
  cbn [forallb] in H. apply andb_true_iff in H. destruct H as [Hc Ht]. unfold final_subst. cbn [flat_map].
  rewrite forallb_app. apply andb_true_iff. split; [exact Hc | apply IH; exact Ht].
Qed.

(* the later steps: trimming / collapsing braille blanks only delete characters *)
Lemma filter_keeps_cells : forall (f : N -> bool) s, forallb is_cell s = true -> forallb is_cell (filter f s) = true.
Proof.
  intros f s. induction s as [|c t IH]; intro H; [reflexivity|]. cbn [forallb] in H. apply andb_true_iff in H.
  destruct H as [Hc Ht]. cbn [filter]. destruct (f c); [cbn [forallb]; rewrite Hc; exact (IH Ht) | exact (IH Ht)].
Qed.

(* what may be in the string before the final substitution: every character of a text, blanks aside *)
Definition text_ok (table : list (str * str)) (cls : list (N * N)) (prefs : list (N * str)) (t : str) : bool :=
  forallb (fun c => (c =? 32) || char_ok table cls prefs c) t.
Definition text_ok_plain (table : list (str * str)) (cls : list (N * N)) (prefs : list (N * str)) (t : str) : bool :=
  forallb (fun c => (c =? 32) || char_ok_plain table cls prefs c) t.
Definition bad_texts (table : list (str * str)) (cls : list (N * N)) (prefs : list (N * str)) (ts : list str) : list str :=
  filter (fun t => negb (text_ok table cls prefs t)) ts.
