(* C19 model: the intent lexer (LexState) and parser (build_intent, get_properties, build_function, build_arguments,
   lift_function_name) of src/infer_intent.rs.  Name classes are generated (Gen/IntentRe.v).  The speech-rule engine
   (match_pattern) and the search for referenced arguments (find_arg) are oracles. *)
From MC Require Import Lib.Base Lib.Tree Gen.IntentRe Gen.ElemSets.
From Coq Require Import String.
Local Close Scope string_scope.
Local Open Scope N_scope.

Definition ws_ranges : list (N * N) :=
  [(9, 13); (32, 32); (0x85, 0x85); (0xA0, 0xA0); (0x1680, 0x1680); (0x2000, 0x200A); (0x2028, 0x2029);
   (0x202F, 0x202F); (0x205F, 0x205F); (0x3000, 0x3000)].
Definition is_ws (c : N) : bool := in_ranges c ws_ranges.
Fixpoint trim_start (s : str) : str := match s with c :: t => if is_ws c then trim_start t else s | [] => [] end.
Definition trim (s : str) : str := rev (trim_start (rev (trim_start s))).

Definition name_first (c : N) : bool := negb (in_ranges c name_first_excluded).
Definition name_rest (c : N) : bool := negb (in_ranges c name_rest_excluded).
Definition is_digit (c : N) : bool := (48 <=? c) && (c <=? 57).

Fixpoint take_while (f : N -> bool) (s : str) : str * str :=
  match s with c :: t => if f c then let (a, b) := take_while f t in (c :: a, b) else ([], s) | [] => ([], []) end.

(* longest prefix matching  first rest*  *)
Definition name_prefix (s : str) : option (str * str) :=
  match s with
  | c :: t => if name_first c then let (a, b) := take_while name_rest t in Some (c :: a, b) else None
  | [] => None
  end.

(* -?[0-9]+(\.[0-9]+)?  : longest match (the optional group is taken when possible) *)
Definition number_prefix (s : str) : option (str * str) :=
  let (sign, r0) := match s with c :: t => if c =? 45 then ([45], t) else ([], s) | [] => ([], s) end in
  let (ds, r1) := take_while is_digit r0 in
  match ds with
  | [] => None
  | _ => match r1 with
         | c :: t => if c =? 46 then
                       let (fs, r2) := take_while is_digit t in
                       match fs with [] => Some (sign ++ ds, r1) | _ => Some (sign ++ ds ++ 46 :: fs, r2) end
                     else Some (sign ++ ds, r1)
         | [] => Some (sign ++ ds, r1)
         end
  end.

Inductive token := TTerm (c : N) | TProp (s : str) | TArg (s : str) | TName (s : str) | TNum (s : str).

(* one step of LexState::get_next on a trimmed, non-empty remaining string: token and new (trimmed) remaining *)
Definition lex1 (s : str) : option (token * str) :=
  match s with
  | [] => None
  | c :: t =>
      if memN c terminals then Some (TTerm c, trim_start t)
      else if c =? 58 then   (* ':' NCName *)
        match name_prefix t with Some (n, r) => Some (TProp (58 :: n), trim_start r) | None =>
          (* PROPERTY fails; ARG_REF needs '$'; a name cannot start with ':'; a number cannot either *) None end
      else if c =? 36 then   (* '$' NCName *)
        match name_prefix t with Some (n, r) => Some (TArg (36 :: n), trim_start r) | None => None end
      else match name_prefix s with
           | Some (n, r) => Some (TName n, trim_start r)
           | None => match number_prefix s with Some (n, r) => Some (TNum n, trim_start r) | None => None end
           end
  end.

(* the whole token sequence; None = "Illegal 'intent' syntax" from the lexer *)
Fixpoint lex_all (fuel : nat) (s : str) : option (list token) :=
  match fuel with
  | O => match s with [] => Some [] | _ => None end
  | Datatypes.S fuel' =>
      match s with
      | [] => Some []
      | _ => match lex1 s with
             | Some (t, r) => match lex_all fuel' r with Some l => Some (t :: l) | None => None end
             | None => None
             end
      end
  end.
Definition lex (s : str) : option (list token) := let t := trim s in lex_all (List.length t) t.

(* ------------------------------------------------------------------ parser *)
Definition s_prop := S "data-intent-property"%string.
Definition is_term (c : N) (t : token) : bool := match t with TTerm x => x =? c | _ => false end.

Section Parser.
  Variable find_arg : str -> option (option tree).      (* None = error inside; Some None = not found *)
  Variable match_self : str -> option tree.             (* match_pattern on the element with the given property list *)
  Variable self_name : str.

  (* get_properties: the run of property tokens, concatenated and closed by ':' *)
  Fixpoint props_of (l : list token) : str * list token :=
    match l with TProp p :: t => let (a, r) := props_of t in (p ++ a, r) | _ => ([58], l) end.

  Definition set_props (p : str) (t : tree) : tree :=
    match t with T g a k x => T g ((s_prop, p) :: filter (fun kv => negb (str_eqb (fst kv) s_prop)) a) k x end.
  Definition get_props (t : tree) : option str := attr_get s_prop (attrs_of t).

  Definition only_dash_underscore (s : str) : bool := forallb (fun c => (c =? 95) || (c =? 45)) s.
  Definition leaf_like (t : tree) : bool := existsb (str_eqb (tag_of t)) mathml_leaf_nodes.

  (* lift_function_name *)
  Definition lift (f : tree) (kids : list tree) : tree :=
    if leaf_like f then
      let nm := text_of f in
      let t := T nm (attrs_of f) kids [] in
      if only_dash_underscore nm
      then set_props ((match get_props f with Some p => p | None => [58] end) ++ S "silent:"%string) t else t
    else match kids_of f with
         | [] => T (tag_of f) (attrs_of f) kids (text_of f)
         | _ => T (S "apply-function"%string) [] (f :: kids) []
         end.

  Inductive pres := POk (t : tree) (rest : list token) | PErr | PFuel.
  Inductive ares := AOk (ts : list tree) (rest : list token) | AErr | AFuel.

  Definition hd_is (c : N) (l : list token) : bool := match l with t :: _ => is_term c t | [] => false end.
  Definition hd_prop (l : list token) : bool := match l with TProp _ :: _ => true | _ => false end.

  (* properties that follow a term *)
  Definition with_props (t : tree) (r : list token) : tree * list token :=
    if hd_prop r then let (p, r') := props_of r in (set_props p t, r') else (t, r).

  (* build_intent / build_function / build_arguments: one fuel unit per nested call *)
  Fixpoint build_intent (fuel : nat) (l : list token) : pres :=
    match fuel with
    | O => PFuel
    | Datatypes.S fuel' =>
      match l with
      | TProp _ :: _ =>
          let (p, r) := props_of l in
          if hd_is 40 r then POk (set_props p (T self_name [] [] [])) r
          else match match_self p with Some t => POk t r | None => PErr end
      | TName w :: r => let (t1, r1) := with_props (T (S "mi"%string) [] [] w) r in build_function fuel' t1 r1
      | TNum w :: r => let (t1, r1) := with_props (T (S "mn"%string) [] [] w) r in build_function fuel' t1 r1
      | TArg w :: r =>
          match find_arg (tl w) with
          | Some (Some e) => let (t1, r1) := with_props e r in build_function fuel' t1 r1
          | _ => PErr
          end
      | _ => PErr
      end
    end
  with build_function (fuel : nat) (f : tree) (l : list token) : pres :=
    match fuel with
    | O => PFuel
    | Datatypes.S fuel' =>
      if hd_is 40 l then
        let r := tl l in
        if hd_is 41 r then PErr                        (* missing argument *)
        else match build_args fuel' r with
             | AOk kids r' => if hd_is 41 r' then build_function fuel' (lift f kids) (tl r') else PErr    (* missing ')' *)
             | AErr => PErr
             | AFuel => PFuel
             end
      else POk f l
    end
  with build_args (fuel : nat) (l : list token) : ares :=
    match fuel with
    | O => AFuel
    | Datatypes.S fuel' =>
      match build_intent fuel' l with
      | POk t r =>
          if hd_is 44 r then
            match build_args fuel' (tl r) with AOk ts r'' => AOk (t :: ts) r'' | AErr => AErr | AFuel => AFuel end
          else AOk [t] r
      | PErr => AErr
      | PFuel => AFuel
      end
    end.

  (* catch_errors_building_intent: the whole value must be consumed *)
  Definition parse (s : str) : option tree :=
    match lex s with
    | None => None
    | Some toks =>
        match build_intent (3 * (List.length toks) + 3) toks with
        | POk t [] => Some t
        | _ => None
        end
    end.
End Parser.

(* ------------------------------------------------------------------ temporary edits of the element's attributes *)
(* events (generated, in source order): 0 intent removed, 4 property set, 1 property restored, 2 intent restored,
   3 exit point.  State: (intent missing?, property dirty?).  An execution may leave at any exit point. *)
Fixpoint attrs_clean_at_exits (missing dirty : bool) (evs : list N) : bool :=
  match evs with
  | [] => negb missing && negb dirty
  | e :: t =>
      if e =? 0 then attrs_clean_at_exits true dirty t
      else if e =? 4 then attrs_clean_at_exits missing true t
      else if e =? 1 then attrs_clean_at_exits missing false t
      else if e =? 2 then attrs_clean_at_exits false dirty t
      else negb missing && negb dirty && attrs_clean_at_exits missing dirty t
  end.
Fixpoint attrs_after (missing dirty : bool) (evs : list N) (leave_at : nat) : bool * bool :=
  match evs with
  | [] => (missing, dirty)
  | e :: t =>
      if e =? 0 then attrs_after true dirty t leave_at
      else if e =? 4 then attrs_after missing true t leave_at
      else if e =? 1 then attrs_after missing false t leave_at
      else if e =? 2 then attrs_after false dirty t leave_at
      else match leave_at with O => (missing, dirty) | Datatypes.S k => attrs_after missing dirty t k end
  end.
