(* C13 model: TTS tag templates (generated, Gen/TtsTabs.v), their symbolic parsing into tag shapes, token-level
   emission of a speech derivation (tts.rs replace_string), pause merging, and a concrete tokenizer. *)
From MC Require Import Lib.Base Gen.TtsTabs.
From Coq Require Import String.
Local Close Scope string_scope.
Local Open Scope N_scope.

(* ------------------------------------------------------------------ symbolic templates *)
Definition LT : N := 60.  Definition GT : N := 62.  Definition SLASH : N := 47.
Definition SQ : N := 39.  Definition DQ : N := 34.  Definition EQ : N := 61.  Definition SP : N := 32.

Definition name_char (c : N) : bool :=
  ((97 <=? c) && (c <=? 122)) || ((65 <=? c) && (c <=? 90)) || ((48 <=? c) && (c <=? 57)) || (c =? 45) || (c =? 95) || (c =? 58).

Definition sym_is (c : N) (s : sym) : bool := match s with C x => x =? c | H _ => false end.

(* read a run of name characters (holes are not allowed in names) *)
Fixpoint read_name (l : list sym) : str * list sym :=
  match l with
  | C c :: t => if name_char c then let (a, b) := read_name t in (c :: a, b) else ([], l)
  | _ => ([], l)
  end.

(* an attribute value: symbols up to the closing quote q; may contain holes and any character except q, '<' *)
Fixpoint read_value (q : N) (l : list sym) : option (list sym * list sym) :=
  match l with
  | [] => None
  | C c :: t => if c =? q then Some ([], t)
                else if c =? LT then None
                else match read_value q t with Some (v, r) => Some (C c :: v, r) | None => None end
  | H k :: t => match read_value q t with Some (v, r) => Some (H k :: v, r) | None => None end
  end.

Fixpoint skip_sp (l : list sym) : list sym :=
  match l with C c :: t => if c =? SP then skip_sp t else l | _ => l end.

Inductive shape :=
| SNone
| SWrap (name : str) (attrs : list (str * list sym)) (lead : list sym)   (* <name attrs> lead ... *)
| SEmpty (name : str) (attrs : list (str * list sym)).                  (* <name attrs/> *)

(* text that may follow the open tag inside the start template: holes and characters other than '<' '>' *)
Definition lead_ok (l : list sym) : bool :=
  forallb (fun s => match s with C c => negb ((c =? LT) || (c =? GT)) | H _ => true end) l.

(* attributes then '>' or '/>' ; fuel = number of symbols *)
Fixpoint parse_attrs (fuel : nat) (acc : list (str * list sym)) (l : list sym)
  : option (list (str * list sym) * bool (* empty-element? *) * list sym) :=
  match fuel with
  | O => None
  | Datatypes.S fuel' =>
    match skip_sp l with
    | C c :: t =>
        if c =? GT then Some (rev acc, false, t)
        else if c =? SLASH then
          match t with C d :: t' => if d =? GT then Some (rev acc, true, t') else None | _ => None end
        else
          let (an, r) := read_name (C c :: t) in
          match an, r with
          | _ :: _, C e :: C q :: r' =>
              if (e =? EQ) && ((q =? SQ) || (q =? DQ)) then
                match read_value q r' with
                | Some (v, r'') =>
                    (* after a value: a space, '>' or '/' must follow *)
                    match r'' with
                    | C n :: _ => if (n =? SP) || (n =? GT) || (n =? SLASH) then parse_attrs fuel' ((an, v) :: acc) r'' else None
                    | _ => None
                    end
                | None => None
                end
              else None
          | _, _ => None
          end
    | _ => None
    end
  end.

Definition parse_start (l : list sym) : option shape :=
  match l with
  | [] => Some SNone
  | C c :: t =>
      if c =? LT then
        let (nm, r) := read_name t in
        match nm with
        | [] => None
        | _ => match parse_attrs (Datatypes.S (List.length r)) [] r with
               | Some (attrs, true, rest) => match rest with [] => Some (SEmpty nm attrs) | _ => None end
               | Some (attrs, false, rest) => if lead_ok rest then Some (SWrap nm attrs rest) else None
               | None => None
               end
        end
      else None
  | _ => None
  end.

Definition chars (s : str) : list sym := map C s.
Fixpoint sym_eqb (a b : list sym) : bool :=
  match a, b with
  | [], [] => true
  | C x :: a', C y :: b' => (x =? y) && sym_eqb a' b'
  | H x :: a', H y :: b' => (x =? y) && sym_eqb a' b'
  | _, _ => false
  end.

(* a row is well formed: nothing / <n ..> .. </n> / <n ../> with empty end; no attribute is repeated *)
Fixpoint nodup_str (l : list str) : bool :=
  match l with [] => true | x :: t => negb (existsb (str_eqb x) t) && nodup_str t end.

Definition row_ok (st en : list sym) : bool :=
  match parse_start st with
  | Some SNone => match en with [] => true | _ => false end
  | Some (SWrap nm attrs _) => sym_eqb en (chars ([LT; SLASH] ++ nm ++ [GT])) && nodup_str (map fst attrs)
  | Some (SEmpty nm attrs) => (match en with [] => true | _ => false end) && nodup_str (map fst attrs)
  | None => false
  end.

(* ------------------------------------------------------------------ vocabulary of each engine *)
Definition ssml_vocab : list str := [S "break"%string; S "prosody"%string; S "audio"%string; S "voice"%string; S "say-as"%string; S "phoneme"%string; S "mark"%string].
Definition sapi5_vocab : list str :=
  [S "silence"%string; S "pitch"%string; S "rate"%string; S "volume"%string; S "voice"%string; S "spell"%string; S "pron"%string; S "bookmark"%string].
Definition vocab (e : N) : list str := if e =? 1 then ssml_vocab else if e =? 2 then sapi5_vocab else [].
Definition shape_name (s : shape) : option str :=
  match s with SNone => None | SWrap n _ _ => Some n | SEmpty n _ => Some n end.
Definition row_in_vocab (e : N) (st : list sym) : bool :=
  match parse_start st with
  | Some sh => match shape_name sh with Some n => existsb (str_eqb n) (vocab e) | None => true end
  | None => false
  end.

(* ------------------------------------------------------------------ token-level emission *)
Inductive tok := TOpen (n : str) | TClose (n : str) | TEmptyTag (n : str) | TText (s : str).

Inductive deriv :=
| Txt (s : str)                               (* literal text produced by a rule / a Unicode replacement *)
| Seq (ds : list deriv)                       (* replacement array *)
| Tts (cmd : N) (neutral : bool) (lead : str) (inner : deriv)
      (* a TTS command: `neutral` = the "does nothing" optimisation applies (pitch/volume/pause 0, rate 100);
         `lead` = the text the start template carries after its tag (spell / pronounce text) *)
| Mark (id : str).                            (* bookmark *)

Definition lookup_row (e c : N) : option (list sym * list sym) :=
  let fix go (l : list (N * N * list sym * list sym)) :=
    match l with
    | [] => None
    | (e', c', st, en) :: t => if (e =? e') && (c =? c') then Some (st, en) else go t
    end in go tag_table.

(* name in the end template  </name>  *)
Definition end_name (en : list sym) : option str :=
  match en with
  | C a :: C b :: t => if (a =? LT) && (b =? SLASH) then Some (fst (read_name t)) else None
  | _ => None
  end.

Definition CMD_BOOKMARK : N := 9.

Fixpoint emit (e : N) (d : deriv) : list tok :=
  match d with
  | Txt s => [TText s]
  | Seq ds => (fix go (l : list deriv) := match l with [] => [] | x :: t => emit e x ++ go t end) ds
  | Mark id =>
      match lookup_row e CMD_BOOKMARK with
      | Some (st, _) => match parse_start st with Some (SEmpty n _) => [TEmptyTag n] | _ => [] end
      | None => []
      end
  | Tts c neutral lead inner =>
      if neutral then emit e inner
      else match lookup_row e c with
           | None => TText lead :: emit e inner                (* engine None: only text *)
           | Some (st, en) =>
               match parse_start st with
               | Some (SWrap n _ _) =>
                   [TOpen n; TText lead] ++ emit e inner ++
                   (match end_name en with Some n' => [TClose n'] | None => [] end)
               | Some (SEmpty n _) => TEmptyTag n :: emit e inner
               | _ => TText lead :: emit e inner
               end
           end
  end.

(* balanced: the usual stack discipline *)
Fixpoint bal (stk : list str) (l : list tok) : bool :=
  match l with
  | [] => match stk with [] => true | _ => false end
  | TOpen n :: t => bal (n :: stk) t
  | TClose n :: t => match stk with m :: stk' => str_eqb n m && bal stk' t | [] => false end
  | _ :: t => bal stk t
  end.
Definition balanced (l : list tok) : bool := bal [] l.

Definition texts (l : list tok) : list str :=
  flat_map (fun t => match t with TText s => [s] | _ => [] end) l.

(* ------------------------------------------------------------------ pause merging, token level *)
Definition blank (s : str) : bool := forallb (fun c => c =? SP) s.
Definition next_is (pause : str) (l : list tok) : bool :=
  match l with TEmptyTag n :: _ => str_eqb n pause | _ => false end.

(* merge_pauses_xml: a run of two or more pause elements (blank text between them) becomes one pause element *)
Fixpoint merge_toks (pause : str) (after_pause : bool) (l : list tok) : list tok :=
  match l with
  | [] => []
  | TEmptyTag n :: t =>
      if str_eqb n pause then (if after_pause then merge_toks pause true t else TEmptyTag n :: merge_toks pause true t)
      else TEmptyTag n :: merge_toks pause false t
  | TText s :: t =>
      if after_pause && blank s && next_is pause t then merge_toks pause true t
      else TText s :: merge_toks pause false t
  | x :: t => x :: merge_toks pause false t
  end.

(* ------------------------------------------------------------------ concrete tokenizer (for the correspondence) *)
(* split a string at '<' ... '>' ; a tag is classified by its first / last characters *)
Fixpoint take_until (c : N) (s : str) : str * option str :=
  match s with
  | [] => ([], None)
  | x :: t => if x =? c then ([], Some t) else let (a, r) := take_until c t in (x :: a, r)
  end.

Fixpoint name_of (s : str) : str :=
  match s with c :: t => if name_char c then c :: name_of t else [] | [] => [] end.

Definition classify (body : str) : tok :=
  match body with
  | c :: t => if c =? SLASH then TClose (name_of t)
              else if (last body 0) =? SLASH then TEmptyTag (name_of body) else TOpen (name_of body)
  | [] => TText [LT; GT]
  end.

Fixpoint tokenize_go (fuel : nat) (s : str) : list tok :=
  match fuel with
  | O => []
  | Datatypes.S fuel' =>
    match s with
    | [] => []
    | c :: t =>
        if c =? LT then
          match take_until GT t with
          | (body, Some rest) => classify body :: tokenize_go fuel' rest
          | (body, None) => [TText s]
          end
        else
          match take_until LT s with
          | (txt, Some rest) => TText txt :: tokenize_go fuel' (LT :: rest)
          | (txt, None) => [TText txt]
          end
    end
  end.
Definition tokenize (s : str) : list tok := tokenize_go (Datatypes.S (List.length s)) s.

(* ------------------------------------------------------------------ matching an observed string against a template *)
Definition num_char (c : N) : bool := ((48 <=? c) && (c <=? 57)) || (c =? 46) || (c =? 45).
Definition safe_char (c : N) : bool := negb ((c =? SQ) || (c =? DQ) || (c =? LT) || (c =? GT)).
Fixpoint drop_while (f : N -> bool) (s : str) : str :=
  match s with c :: t => if f c then drop_while f t else s | [] => [] end.

Fixpoint match_template (t : list sym) (s : str) : bool :=
  match t with
  | [] => match s with [] => true | _ => false end
  | C c :: t' => match s with x :: s' => (x =? c) && match_template t' s' | [] => false end
  | H k :: t' => match_template t' (drop_while (if k =? 0 then num_char else safe_char) s)
  end.

Fixpoint sym_chars (l : list sym) : str :=
  match l with [] => [] | C c :: t => c :: sym_chars t | H _ :: t => sym_chars t end.

(* observed (engine, command, value class 0 normal / 1 auto pause / 2 pause below MIN_PAUSE, start?, string) *)
Definition tag_obs_ok (o : N * N * N * bool * str) : bool :=
  match o with (e, c, vclass, is_start, out) =>
    match lookup_row e c with
    | Some (st, en) =>
        if is_start then
          if vclass =? 0 then match_template st out
          else if vclass =? 1 then str_eqb out pause_auto_str
          else match out with [] => true | _ => false end
        else str_eqb out (sym_chars en)
    | None => true
    end
  end.

(* ------------------------------------------------------------------ merge_pauses on strings, modulo spacing/amounts *)
Definition pause_name (e : N) : str :=
  match lookup_row e 0 with
  | Some (st, _) => match parse_start st with Some (SEmpty n _) => n | _ => [] end
  | None => []
  end.

Fixpoint trim_l (s : str) : str := match s with c :: t => if c =? SP then trim_l t else s | [] => [] end.
Definition trim (s : str) : str := rev (trim_l (rev (trim_l s))).

(* comparable form of a token list: tag kinds and names, trimmed non-blank text *)
Fixpoint norm_toks (l : list tok) : list (N * str) :=
  match l with
  | [] => []
  | TOpen n :: t => (0, n) :: norm_toks t
  | TClose n :: t => (1, n) :: norm_toks t
  | TEmptyTag n :: t => (2, n) :: norm_toks t
  | TText s :: t => if blank s then norm_toks t else (3, trim s) :: norm_toks t
  end.
Fixpoint norm_eqb (a b : list (N * str)) : bool :=
  match a, b with
  | [], [] => true
  | (k, s) :: a', (k', s') :: b' => (k =? k') && str_eqb s s' && norm_eqb a' b'
  | _, _ => false
  end.

(* engine None: runs of two or more of , ; become a single ; *)
Definition is_pp (c : N) : bool := (c =? 44) || (c =? 59).
Fixpoint merge_none_go (run : N) (s : str) : str :=
  (* run: 0 not in a run, 1 one pause char pending (kept as is: c in pending), 2+ run collapsed *)
  match s with
  | [] => []
  | c :: t =>
      if is_pp c then
        match t with
        | d :: _ => if is_pp d then (if run =? 0 then 59 :: merge_none_go 2 t else merge_none_go 2 t)
                    else (if run =? 0 then c :: merge_none_go 0 t else merge_none_go 0 t)
        | [] => if run =? 0 then [c] else []
        end
      else c :: merge_none_go 0 t
  end.
Definition merge_none (s : str) : str := merge_none_go 0 s.

Definition merge_obs_ok (o : N * str * str) : bool :=
  match o with (e, inp, out) =>
    (* the library replaces every occurrence of each matched run's text in turn, which can leave a later run only
       partly merged; both sides are therefore compared after a full merge (merging is idempotent) *)
    if e =? 0 then str_eqb (merge_none inp) (merge_none out)
    else norm_eqb (norm_toks (merge_toks (pause_name e) false (tokenize inp)))
                  (norm_toks (merge_toks (pause_name e) false (tokenize out)))
  end.
