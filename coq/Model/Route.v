(* C20 model: cursor routing -- get_navigation_node_from_braille_position / find_navigation_node (src/braille.rs).

   The search brailles the expression with one node highlighted and reads off where that node's cells start and end.
   These intervals, and the estimate of a node's length that guides the search (estimate_braille_chars), are data of
   the model (what the braille rules produce is not modelled): an [rtree] is the element tree annotated with them.
   find_navigation_node probes a node: nothing highlighted (an invisible leaf) -> look right; target before / after the
   node's cells -> look left / right; a leaf that contains the target -> found; otherwise it guesses a child from the
   estimates and narrows the range of children [i_left, i_right) according to the answers, as the Rust loop does
   (i_right = i_guess - 1 on "look left": the child just before the guess is dropped from the range, as in the code).
   usize arithmetic: a subtraction that would go below zero is an error of the model ([None]): the debug build panics. *)
From MC Require Import Lib.Base.
Local Open Scope N_scope.

Inductive rtree := RT (id : N) (leaf : bool) (st en : N) (est : N) (kids : list rtree).
Definition r_id (t : rtree) := match t with RT i _ _ _ _ _ => i end.
Definition r_st (t : rtree) := match t with RT _ _ s _ _ _ => s end.
Definition r_en (t : rtree) := match t with RT _ _ _ e _ _ => e end.
Definition r_est (t : rtree) := match t with RT _ _ _ _ e _ => e end.
Definition r_kids (t : rtree) := match t with RT _ _ _ _ _ k => k end.

Inductive status := LookInParent | LookLeft | LookRight | Found.
Record answer := { a_status : status; a_node : rtree }.

Definition dummy : rtree := RT 0 true 0 0 0 [].

(* guess_child_node_ltr: the first child of [i_left, i_right) at which the running estimate reaches the target, else the last *)
Fixpoint guess_ltr (ks : list rtree) (i : nat) (n : nat) (pos target : N) (last : nat) : nat :=
  match n with
  | O => last
  | Datatypes.S n' =>
      let pos' := pos + r_est (nth i ks dummy) in
      if target <=? pos' then i else guess_ltr ks (Datatypes.S i) n' pos' target last
  end.
(* guess_child_node_rtl: from the right end of the range down, the first child at which the running estimate falls to the
   target, else the first; None when the estimate would go below zero *)
Fixpoint guess_rtl (ks : list rtree) (i_left : nat) (n : nat) (pos target : N) : option nat :=
  match n with
  | O => Some i_left
  | Datatypes.S n' =>
      let i := (i_left + n')%nat in
      let e := r_est (nth i ks dummy) in
      if pos <? e then None
      else let pos' := pos - e in
           if pos' <=? target then Some i else guess_rtl ks i_left n' pos' target
  end.

(* the loop over the children of [node], given what probing a child answers *)
Fixpoint loop (probe : rtree -> option answer) (node : rtree) (kids : list rtree) (target : N)
              (n : nat) (i_left i_right : nat) (call_start : N) (ltr : bool) {struct n} : option answer :=
  match n with
  | O => Some {| a_status := Found; a_node := node |}       (* the range is empty: st <= target <= en holds here *)
  | Datatypes.S n' =>
      if Nat.leb i_right i_left then Some {| a_status := Found; a_node := node |}
      else
        match (if ltr then Some (guess_ltr kids i_left (i_right - i_left) call_start target (i_right - 1)%nat)
               else guess_rtl kids i_left (i_right - i_left) call_start target) with
        | None => None
        | Some g =>
            match probe (nth g kids dummy) with
            | None => None
            | Some a =>
                match a_status a with
                | Found => Some a
                | LookInParent => Some {| a_status := Found; a_node := node |}   (* st <= target <= en holds here *)
                | LookLeft =>
                    if r_st (a_node a) =? 0 then None
                    else loop probe node kids target n' i_left (if Nat.eqb g 0 then O else (g - 1)%nat) (r_st (a_node a) - 1) false
                | LookRight => loop probe node kids target n' (Datatypes.S g) i_right (r_en (a_node a) + 1) true
                end
            end
        end
  end.

Fixpoint find (fuel : nat) (blen : N) (node : rtree) (target : N) {struct fuel} : option answer :=
  match fuel with
  | O => None
  | Datatypes.S f =>
      match node with
      | RT id leaf st en est kids =>
          if leaf && (st =? 0) && (en =? blen) then Some {| a_status := LookRight; a_node := node |}
          else if target <? st then Some {| a_status := LookLeft; a_node := node |}
          else if en <? target then Some {| a_status := LookRight; a_node := node |}
          else if leaf then Some {| a_status := Found; a_node := node |}
          else loop (fun k => find f blen k target) node kids target (Datatypes.S (List.length kids)) O (List.length kids) st true
      end
  end.

(* get_navigation_node_from_braille_position on <math id=mid> with the one child [top]: (id, offset) *)
Definition route (fuel : nat) (blen : N) (mid : N) (top : rtree) (target : N) : option (N * N) :=
  match find fuel blen top target with
  | None => None
  | Some a =>
      match a_status a with
      | Found | LookInParent => if target <? r_st (a_node a) then None else Some (r_id (a_node a), target - r_st (a_node a))
      | _ => Some (mid, 0)
      end
  end.

Fixpoint ids (t : rtree) : list N :=
  match t with RT i _ _ _ _ ks => i :: (fix go (l : list rtree) : list N := match l with [] => [] | k :: r => ids k ++ go r end) ks end.
