(* C11 model: NavigationState and do_navigate_command_string / apply_navigation_rules / pop_stack / reset /
   set_navigation_node_from_id (src/navigate.rs).  The navigation rules (navigate.yaml, XPath) are an oracle:
   each application of the rules yields a [rule_out].  Stacks are lists with the TOP at the head. *)
From MC Require Import Lib.Base.
From Coq Require Import String.
Local Close Scope string_scope.
Local Open Scope N_scope.

Record pos := mkpos { node : str; off : N }.
Definition illegal : str := S "!not set"%string.
Definition default_pos : pos := mkpos illegal 0.
Definition pos_eqb (a b : pos) : bool := str_eqb (node a) (node b) && (off a =? off b).

Record nstate := mkst { ps : list pos; cs : list str; marks : list pos; mode : str; overview : bool }.

Definition MAX_PLACE_MARKERS : nat := 10.
Definition init_state : nstate := mkst [] [] (repeat default_pos MAX_PLACE_MARKERS) [] false.

(* what one application of the navigation rules decides *)
Record rule_out := mkout {
  r_err : bool;               (* pattern match / variable lookup failed: Err before any change *)
  r_node : option str;        (* $NavNode *)
  r_off : N;                  (* $NavNodeOffset *)
  r_mode : str;               (* $NavMode *)
  r_overview : bool;          (* $Overview *)
  r_speak : bool;             (* $SpeakExpression = "true" *)
  r_speech_err : bool;        (* speaking the landing node failed *)
  r_speech_empty : bool       (* speaking the landing node produced no speech *)
}.

Inductive status := Done | Retry | Error | Panic.

Definition starts_with (p s : str) : bool := str_eqb p (firstn (List.length p) s).
Definition s_Move := S "Move"%string.
Definition s_Zoom := S "Zoom"%string.
Definition s_MoveLastLocation := S "MoveLastLocation"%string.
Definition s_SetPlacemarker := S "SetPlacemarker"%string.
Definition s_None := S "None"%string.

(* "Move*" or "Zoom*" but not MoveLastLocation: the commands whose result is pushed / popped as history *)
Definition is_move (c : str) : bool :=
  (starts_with s_Move c || starts_with s_Zoom c) && negb (str_eqb c s_MoveLastLocation).

Definition last_digit (c : str) : option nat :=
  match rev c with
  | d :: _ => if (48 <=? d) && (d <=? 57) then Some (N.to_nat (d - 48)) else None
  | [] => None
  end.

Fixpoint set_nth {A} (i : nat) (x : A) (l : list A) : list A :=
  match l, i with
  | [], _ => []
  | _ :: t, O => x :: t
  | h :: t, Datatypes.S i' => h :: set_nth i' x t
  end.

Definition in_ids (n : str) (ids : list str) : bool := existsb (str_eqb n) ids.

Definition push (p : pos) (c : str) (st : nstate) : nstate :=
  mkst (p :: ps st) (c :: cs st) (marks st) (mode st) (overview st).
Definition pop (st : nstate) : nstate :=
  mkst (tl (ps st)) (tl (cs st)) (marks st) (mode st) (overview st).

(* pop_stack(nav_state, count): keep the final position, drop the intermediate Move/Zoom entries of the retries *)
Fixpoint drop_moves (n : nat) (st : nstate) : nstate * bool (* false = an unwrap on an empty stack; after the repair
                                                                 of pop_stack the loop stops at an empty stack instead *) :=
  match n with
  | O => (st, true)
  | Datatypes.S n' =>
      match cs st with
      | [] => (st, true)
      | c :: _ => drop_moves n' (if is_move c then pop st else st)
      end
  end.

Definition pop_stack (st : nstate) (count : nat) : nstate * bool :=
  match count with
  | O => (st, true)
  | _ =>
    match ps st, cs st with
    | p :: _, c :: _ =>
        let (st', ok) := drop_moves count (pop st) in
        (push p c st', ok)
    | _, _ => (st, true)          (* after the repair: nothing to restore on an empty stack (was pop().unwrap()) *)
    end
  end.

Definition cur (root : str) (st : nstate) : pos :=
  match ps st with p :: _ => p | [] => mkpos root 0 end.

(* the part of apply_navigation_rules that updates the state before anything is spoken;
   None = top().unwrap() on an empty stack *)
Definition update_state (cmd : str) (r : rule_out) (st : nstate) : option nstate :=
  let st1 := mkst (ps st) (cs st) (marks st) (r_mode r) (r_overview r) in
  let np := match r_node r with Some n => mkpos n (r_off r) | None => default_pos end in
  match (if is_move cmd && negb (pos_eqb np default_pos) then
           match ps st1 with
           | top :: _ => Some (if negb (str_eqb (node np) (node top)) && negb (str_eqb (node np) illegal)
                               then push np cmd st1 else st1)
           | [] => None
           end
         else Some st1) with
  | None => None
  | Some st2 =>
      Some (if starts_with s_SetPlacemarker cmd then
              match r_node r, last_digit cmd with
              | Some n, Some i => mkst (ps st2) (cs st2) (set_nth i (mkpos n (r_off r)) (marks st2)) (mode st2) (overview st2)
              | _, _ => st2
              end
            else st2)
  end.

Definition finish (st : nstate) (k : nat) : nstate * status :=
  let (st', ok) := pop_stack st k in (st', if ok then Done else Panic).

(* one application of the rules, loop iteration [k] *)
Definition apply_rules (ids : list str) (root : str) (cmd : str) (k : nat) (r : rule_out) (st : nstate) : nstate * status :=
  if negb (in_ids (node (cur root st)) ids) then (st, Error)          (* get_start_node *)
  else if r_err r then (st, Error)
  else
    match update_state cmd r st with
    | None => (st, Panic)
    | Some st3 =>
        let np_node := match r_node r with Some n => n | None => illegal end in
        if in_ids np_node ids && r_speak r then
          if r_speech_err r then (st3, Error)
          else if r_speech_empty r then (st3, Retry)
          else finish st3 k
        else finish st3 k
    end.

Definition LOOP_LIMIT : nat := 3.

Fixpoint nav_loop (ids : list str) (root cmd : str) (outs : nat -> rule_out) (k fuel : nat) (st : nstate) : nstate * status :=
  match fuel with
  | O => (st, Error)            (* "Navigation exceeded limit of number of times no speech generated" *)
  | Datatypes.S fuel' =>
      match apply_rules ids root cmd k (outs k) st with
      | (st', Retry) => nav_loop ids root cmd outs (Datatypes.S k) fuel' st'
      | r => r
      end
  end.

Definition nav_command (ids : list str) (root cmd : str) (outs : nat -> rule_out) (st : nstate) : nstate * status :=
  let st0 := match ps st with [] => push (mkpos root 0) s_None st | _ => st end in
  let st1 := if str_eqb cmd s_MoveLastLocation then pop st0 else st0 in
  nav_loop ids root cmd outs 0 LOOP_LIMIT st1.

(* set_mathml: NavigationState::reset + clear_place_markers *)
Definition reset (st : nstate) : nstate := mkst [] [] (marks st) (mode st) (overview st).
Definition new_expression (st : nstate) : nstate := mkst [] [] (repeat default_pos MAX_PLACE_MARKERS) (mode st) (overview st).

(* set_navigation_node_from_id (offset check on leaves is the caller's: [leaf_ok]) *)
Definition set_node (ids : list str) (id : str) (o : N) (leaf_ok : bool) (st : nstate) : nstate * status :=
  if in_ids id ids && leaf_ok then (push (mkpos id o) s_None (reset st), Done) else (st, Error).
