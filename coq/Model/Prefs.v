(* C12 model: the preference state machine of interface.rs:set_preference / get_preference and
   prefs.rs:set_string_pref, reset_files_from_preference_change (file lookup abstracted), set_separators,
   pref_to_string.  Two maps: user (prefs.yaml + defaults) and api (API defaults + API settings); api shadows. *)
From MC Require Import Lib.Base.
From Coq Require Import String.
Local Close Scope string_scope.
Local Open Scope N_scope.

Inductive yaml := YS (s : str) | YB (b : bool) | YR (s : str) | YI (s : str).   (* reals/integers as printed *)
Definition pmap := list (str * yaml).

Fixpoint pget (k : str) (m : pmap) : option yaml :=
  match m with [] => None | (k', v) :: t => if str_eqb k k' then Some v else pget k t end.
Fixpoint premove (k : str) (m : pmap) : pmap :=
  match m with [] => [] | (k', v) :: t => if str_eqb k k' then premove k t else (k', v) :: premove k t end.
Definition pset (k : str) (v : yaml) (m : pmap) : pmap := (k, v) :: premove k m.

Record pstate := { user : pmap; api : pmap }.
Inductive outcome := Ok | Err | Panic.

Definition s_Language := S "Language"%string.
Definition s_LanguageAuto := S "LanguageAuto"%string.
Definition s_Auto := S "Auto"%string.
Definition s_DecimalSeparator := S "DecimalSeparator"%string.
Definition s_DecimalSeparators := S "DecimalSeparators"%string.
Definition s_BlockSeparators := S "BlockSeparators"%string.
Definition s_SpeechStyle := S "SpeechStyle"%string.
Definition s_BrailleCode := S "BrailleCode"%string.
Definition s_en := S "en"%string.
Definition s_true := S "true"%string.
Definition s_false := S "false"%string.

(* ---------- pref_to_string / get_preference ---------- *)
Definition yaml_to_str (v : yaml) : str :=
  match v with YS s => s | YB true => s_true | YB false => s_false | YR s => s | YI s => s end.
Definition pref_lookup (st : pstate) (k : str) : option yaml :=
  match pget k (api st) with Some v => Some v | None => pget k (user st) end.
Definition get_preference (st : pstate) (k : str) : option str :=
  match pref_lookup st k with Some v => Some (yaml_to_str v) | None => None end.

(* ---------- language tag clean-up (interface.rs) ---------- *)
Definition DASH : N := 45.
Fixpoint split_dash (s : str) : list str :=
  match s with
  | [] => [[]]
  | c :: t => if c =? DASH then [] :: split_dash t
              else match split_dash t with h :: r => (c :: h) :: r | [] => [[c]] end
  end.
Definition utf8_len1 (c : N) : N := if c <? 0x80 then 1 else if c <? 0x800 then 2 else if c <? 0x10000 then 3 else 4.
Definition utf8_len (s : str) : N := fold_right (fun c a => utf8_len1 c + a) 0 s.

(* None = the "Improper format" error *)
Definition clean_language (v : str) : option str :=
  if str_eqb v s_Auto then Some v
  else let parts := split_dash v in
       let language := nth 0 parts [] in
       let country := nth 1 parts [] in
       if utf8_len language =? 2
       then Some (match country with [] => language | _ => language ++ DASH :: country end)
       else None.

Definition ascii_lower (c : N) : N := if (65 <=? c) && (c <=? 90) then c + 32 else c.
Definition lower (s : str) : str := map ascii_lower s.

(* ---------- set_separators (prefs.rs) ---------- *)
Section WithTables.
  Variable use_decimal_point : list str.     (* USE_DECIMAL_SEPARATOR, generated *)
  Variable float_names : list str.           (* the float-valued preference names of set_preference, generated *)
  Variable can_load : str -> str -> bool.    (* do the rule files for Language / SpeechStyle / BrailleCode = value resolve? *)
  Variable fmt_float : str -> option str.    (* Rust's str::parse::<f64> followed by f64::to_string *)

  Definition in_strs (s : str) (l : list str) : bool := existsb (str_eqb s) l.
  Definition NBSP : N := 0xA0.  Definition NNBSP : N := 0x202F.

  Definition set_separators (language_country : str) (u : pmap) : pmap :=
    let ds := match pget s_DecimalSeparator u with Some v => yaml_to_str v | None => S "\u{2a00}"%string end in
    if negb (str_eqb ds s_Auto || str_eqb ds [44] || str_eqb ds [46]) then u
    else if str_eqb language_country s_Auto && str_eqb ds s_Auto then u
    else
      let lc := lower language_country in
      let parts := split_dash lc in
      let language := nth 0 parts [] in
      let country := nth 1 parts [] in
      let use_period := if str_eqb ds s_Auto then in_strs lc use_decimal_point || in_strs language use_decimal_point
                        else str_eqb ds [46] in
      let u1 := pset s_DecimalSeparators (YS (if use_period then [46] else [44])) u in
      let block := (if use_period then [44; 32; NBSP; NNBSP] else [46; 32; NBSP; NNBSP]) ++
                   (if str_eqb country (S "ch"%string) || str_eqb country (S "li"%string) then [39] else []) in
      pset s_BlockSeparators (YS block) u1.

  Definition as_str (v : yaml) : option str := match v with YS s => Some s | _ => None end.

  (* reset_files_from_preference_change: Some new-api-map on success (only the Language:=Auto case changes a map),
     None when the files for the new value cannot be found *)
  Definition reset_files (st : pstate) (key value : str) : option pmap :=
    if str_eqb key s_Language && str_eqb value s_Auto then
      Some (pset s_LanguageAuto (match pget s_Language (api st) with Some v => v | None => YS s_en end) (api st))
    else
      let key' := if str_eqb key s_LanguageAuto then s_Language else key in
      if str_eqb key' s_Language || str_eqb key' s_SpeechStyle || str_eqb key' s_BrailleCode
      then (if can_load key' value then Some (api st) else None)
      else Some (api st).

  (* the body of set_string_pref once it is known in which map the value goes and whether files must be reset *)
  Definition lang_changed_of (u : pmap) (key value : str) : option bool :=
    if str_eqb key s_Language
    then match pget s_Language u with
         | Some lv => match as_str lv with Some l => Some (negb (str_eqb l value)) | None => None end
         | None => None
         end
    else Some false.

  Definition ssp_user (u : pmap) (api1 : pmap) (key value : str) : pstate * outcome :=
    match pget s_DecimalSeparator u with
    | None => ({| user := u; api := api1 |}, Panic)
    | Some dsv =>
      match as_str dsv with
      | None => ({| user := u; api := api1 |}, Panic)
      | Some cur_ds =>
        match lang_changed_of u key value with
        | None => ({| user := u; api := api1 |}, Panic)
        | Some lang_changed =>
          let ds_changed := str_eqb key s_DecimalSeparator && negb (str_eqb cur_ds value) in
          let u1 := pset key (YS value) u in
          let u2 := if ds_changed || (str_eqb cur_ds s_Auto && lang_changed)
                    then set_separators (match pget s_Language u1 with Some v => yaml_to_str v | None => s_en end) u1
                    else u1 in
          ({| user := u2; api := api1 |}, Ok)
        end
      end
    end.

  Definition ssp_go (st : pstate) (key value : str) (is_user changed : bool) : pstate * outcome :=
    match (if changed then reset_files st key value else Some (api st)) with
    | None => (st, Err)
    | Some api1 =>
        if is_user then ssp_user (user st) api1 key value
        else ({| user := user st; api := pset key (YS value) api1 |}, Ok)
    end.

  Definition set_string_pref (st : pstate) (key value : str) : pstate * outcome :=
    match pget key (api st) with
    | Some v => match as_str v with
                | Some old => ssp_go st key value false (negb (str_eqb old value))     (* an API preference is filed as one whether or not its value changes *)
                | None => (st, Err)       (* after the fix: "not a string-valued preference" *)
                end
    | None =>
      match pget key (user st) with
      | Some v => match as_str v with
                  | Some old => ssp_go st key value true (negb (str_eqb old value))
                  | None => (st, Err)
                  end
      | None => (st, Err)                 (* unknown preference *)
      end
    end.

  Definition is_boolean_pref (st : pstate) (k : str) : bool :=
    match pref_lookup st k with Some (YB _) => true | _ => false end.

  Definition set_preference (st : pstate) (name value : str) : pstate * outcome :=
    let is_lang := str_eqb name s_Language || str_eqb name s_LanguageAuto in
    match (if is_lang then clean_language value else Some value) with
    | None => (st, Err)
    | Some value =>
      if str_eqb name s_LanguageAuto && str_eqb value s_Auto then (st, Err)
      else if str_eqb name s_LanguageAuto &&
              negb (str_eqb (match get_preference st s_Language with Some l => l | None => S "\u{2a00}"%string end) s_Auto)
      then (st, Err)
      else
        let lv := lower value in
        if str_eqb lv s_true || str_eqb lv s_false then
          if is_boolean_pref st name
          then ({| user := user st; api := pset name (YB (str_eqb lv s_true)) (api st) |}, Ok)
          else (st, Err)
        else if in_strs name float_names then
          match fmt_float value with
          | Some f => ({| user := user st; api := pset name (YR f) (api st) |}, Ok)
          | None => (st, Err)
          end
        else set_string_pref st name value
    end.

  (* what a successfully set value reads back as: the documented normalisations *)
  Definition normalize (name value : str) : str :=
    let value := if str_eqb name s_Language || str_eqb name s_LanguageAuto
                 then match clean_language value with Some v => v | None => value end else value in
    let lv := lower value in
    if str_eqb lv s_true || str_eqb lv s_false then lv
    else if in_strs name float_names then match fmt_float value with Some f => f | None => value end
    else value.

  (* session: a history of set_preference calls; other API calls (set_mathml, getters) do not touch the maps *)
  Inductive op := SetPref (name value : str) | OtherCall.
  Definition step (st : pstate) (o : op) : pstate * outcome :=
    match o with SetPref n v => set_preference st n v | OtherCall => (st, Ok) end.
  Definition run (st : pstate) (ops : list op) : pstate := fold_left (fun s o => fst (step s o)) ops st.
End WithTables.
