(* C16 model: merge_number_blocks and its helpers (src/canonicalize.rs) on one row of children.
   The locale patterns are built from the separator preferences exactly as CanonicalizeContextPatterns::new does and
   are decided by the verified matcher of Lib/Regex.v. *)
From MC Require Import Lib.Base Lib.Regex.
Local Open Scope N_scope.

(* ------------------------------------------------------------------ patterns *)
Definition ws_class : list (N * N) :=
  [(9, 13); (32, 32); (0x85, 0x85); (0xA0, 0xA0); (0x1680, 0x1680); (0x2000, 0x200A); (0x2028, 0x2029);
   (0x202F, 0x202F); (0x205F, 0x205F); (0x3000, 0x3000)].
Definition is_ws (c : N) : bool := in_ranges c ws_class.
Definition WS : re := Cls ws_class false.

(* `[{}]` with regex::escape(pref): a class of the characters of the preference string *)
Definition SepClass (pref : str) : re := OneOf pref.
(* `{}` with regex::escape(pref) outside a class: the literal string; a following `?` binds to its last character *)
Definition LitOptLast (pref : str) : re :=
  match rev pref with
  | [] => Eps
  | c :: r => Seq (Lit (rev r)) (Opt (Cls [(c, c)] false))
  end.

(* get_number_pattern_regex: optional integer part in groups of N digits, optional fraction in groups of M digits *)
Definition number_pattern (block dec : str) (n m : nat) : re :=
  Seq (Alt (Star Digit) (Seq (RepRange 1 n Digit) (Star (Seq (Opt (SepClass block)) (Rep n Digit)))))
      (Opt (Seq (SepClass dec) (Alt (Star Digit) (Seq (Star (Seq (Rep m Digit) (SepClass block))) (RepRange 1 m Digit))))).

Definition digit_only_decimal (dec : str) : re := Seq (Star Digit) (Seq (LitOptLast dec) (Star Digit)).
Definition Hex : re := Cls [(48, 57); (97, 102); (65, 70)] false.
Definition hex_sep : re := OneOf [32; 0xA0; 0x202F].
Definition block_4digit_hex : re := Seq (Rep 4 Hex) (Star (Seq hex_sep (Rep 4 Hex))).
Definition FFFF : N := 0xFFFF.
(* block_1digit_pattern: one digit per mn, U+FFFF between adjacent mn *)
Definition block_1digit : re :=
  let sep := OneOf [44; 32; 0xA0; 0x202F] in
  let f := Cls [(FFFF, FFFF)] false in
  Seq (Opt (Seq (Seq Digit (Opt (Seq f Digit))) (Star (Seq Digit (Rep 2 (Seq sep Digit))))))
      (Opt (Seq (Cls [(46, 46)] false) (Opt (Seq Digit (Star (Seq f Digit)))))).

(* UPPER/LOWER_ROMAN_NUMERAL; the leading "\s* ^" of the source pattern forces no leading blank *)
Definition ch (c : N) : re := Cls [(c, c)] false.
Definition roman (m d c l x v i : N) : re :=
  Seq (UpTo 3 (ch m))
  (Seq (Alt (Lit [c; m]) (Alt (Lit [c; d]) (Seq (Opt (ch d)) (UpTo 3 (ch c)))))
  (Seq (Alt (Lit [x; c]) (Alt (Lit [x; l]) (Seq (Opt (ch l)) (UpTo 3 (ch x)))))
  (Seq (Alt (Lit [i; x]) (Alt (Lit [i; v]) (Seq (Opt (ch v)) (UpTo 3 (ch i)))))
       (Star WS)))).
Definition is_roman (t : str) : bool :=
  matchb (roman 77 68 67 76 88 86 73) t || matchb (roman 109 100 99 108 120 118 105) t.

Definition has_any (pref : str) (t : str) : bool := existsb (fun c => memN c pref) t.   (* `[pref]`.is_match(t) *)

Fixpoint trim_l (t : str) : str := match t with c :: r => if is_ws c then trim_l r else t | [] => [] end.
Definition trim (t : str) : str := rev (trim_l (rev (trim_l t))).
Definition blank (t : str) : bool := match trim t with [] => true | _ => false end.
Definition utf8_1 (c : N) : N := if c <? 0x80 then 1 else if c <? 0x800 then 2 else if c <? 0x10000 then 3 else 4.
Definition byte_len (t : str) : N := fold_right (fun c a => utf8_1 c + a) 0 t.

(* ------------------------------------------------------------------ tokens *)
Record tok := mktok { tag : N (* 0 mn, 1 mo, 2 mtext, 3 anything else *); text : str; fence : bool; idx : nat (* position in the DOM *) }.
Record ctx := mkctx { block : str; dec : str; parent_ok : bool (* the row's parent is <math> or there is none *);
                      prev_sib : option tok; next_sib : option tok (* neighbours of the row element itself *) }.

Definition likely_pattern (c : ctx) (t : str) : bool :=
  matchb (digit_only_decimal (dec c)) t || matchb (number_pattern (block c) (dec c) 3 3) t ||
  matchb (number_pattern (block c) (dec c) 3 5) t || matchb block_4digit_hex t ||
  (((5 <? N.of_nat (List.length t))%N || has_any (dec c) t) && matchb block_1digit t).

(* text that is checked: U+FFFF between adjacent mn's *)
Fixpoint checked_text (prev_mn : bool) (span : list tok) : str :=
  match span with
  | [] => []
  | k :: r => (if prev_mn && (tag k =? 0) then [FFFF] else []) ++ text k ++ checked_text (tag k =? 0) r
  end.
Definition merged_text (span : list tok) : str := flat_map text span.

Definition is_comma (k : tok) : bool := (tag k =? 1) && str_eqb (text k) [44].

(* is_comma_not_part_of_a_number *)
Fixpoint comma_scan (prev : tok) (l : list tok) : bool :=
  match l with
  | [] => false
  | k :: r => (is_comma k && (match r with n :: _ => negb (tag prev =? 0) || negb (tag n =? 0) | [] => false end)) || comma_scan k r
  end.
Definition comma_not_in_number (row : list tok) : bool :=
  match row with [] => false | k :: r => comma_scan k r end.

(* the right-sibling scan: how many siblings are absorbed, and whether a second decimal separator ended it *)
Fixpoint scan (c : ctx) (no_comma : bool) (has_dec : bool) (l : list tok) : nat * bool :=
  match l with
  | [] => (0%nat, false)
  | k :: r =>
      if tag k =? 0 then
        if is_roman (text k) || has_any (block c) (text k) || has_any (dec c) (text k) then (0%nat, false)
        else let (n, b) := scan c no_comma has_dec r in (Datatypes.S n, b)
      else if (tag k =? 1) || (tag k =? 2) then
        let isb := has_any (block c) (text k) in
        let isd := has_any (dec c) (text k) in
        if (str_eqb (text k) [44] && no_comma) || negb (isb || isd) || (isd && has_dec)
        then (0%nat, isd && has_dec && negb (match r with [] => true | _ => false end))     (* not the last sibling (after the repair) *)
        else let (n, b) := scan c no_comma (has_dec || isd) r in (Datatypes.S n, b)
      else (0%nat, false)
  end.

(* ignore_final_punctuation(context, mrow, span): dom = the row element's DOM children *)
Definition ignore_final (c : ctx) (dom : list tok) (span : list tok) : bool :=
  match rev span, rev dom with
  | lastk :: _, dlast :: _ =>
      (idx lastk =? idx dlast)%nat && parent_ok c && (tag lastk =? 1) && has_any (dec c) (text lastk) &&
      negb (existsb (fun k => (tag k =? 0) && has_any (dec c) (text k))
                    (firstn (match span with f :: _ => idx f | [] => 0%nat end) dom))
  | _, _ => false
  end.

Definition is_fence_mo (k : tok) : bool := (tag k =? 1) && fence k.

Definition is_likely (c : ctx) (dom : list tok) (span : list tok) : bool :=
  let t := trim (checked_text false span) in
  if negb (likely_pattern c t) then false
  else if negb (memN 44 t) then true
  else
    match span, rev span with
    | f :: _, l :: _ =>
        let before := firstn (idx f) dom in
        let after := skipn (Datatypes.S (idx l)) dom in
        match before, after with
        | [], [] => match prev_sib c, next_sib c with
                    | Some p, Some n => negb (is_fence_mo p && is_fence_mo n)
                    | _, _ => true
                    end
        | [], _ | _, [] => true
        | _, n :: _ => match rev before with p :: _ => negb (is_fence_mo p && is_fence_mo n) | [] => true end
        end
    | _, _ => true
    end.

(* trim_whitespace: leading / trailing children whose text is blank (when the loops find no non-blank child the
   bounds are left as they are) *)
Fixpoint lead_blank (l : list tok) : nat :=
  match l with k :: r => if blank (text k) then Datatypes.S (lead_blank r) else 0%nat | [] => 0%nat end.
Definition trim_span (span : list tok) : nat * nat (* dropped in front, dropped at the back *) :=
  if forallb (fun k => blank (text k)) span then (0%nat, 0%nat)
  else (lead_blank span, lead_blank (rev span)).

Definition set_dom (i : nat) (k : tok) (dom : list tok) : list tok :=
  map (fun d => if (idx d =? i)%nat then k else d) dom.

(* an mtext starts a number only when it holds digits and nothing else (after the repair: other text in front of a split
   number used to keep it from being formed) *)
Definition all_digits (t : str) : bool := match t with [] => false | _ => forallb (fun ch => (48 <=? ch) && (ch <=? 57)) t end.

(* the main loop.  [rest] = children from the current index on; [skip] = children still to be stepped over
   (Rust: i = end; i += 1).  Output: the children in front of the current index, reversed. *)
Fixpoint merge_loop (fuel : nat) (c : ctx) (no_comma : bool) (dom : list tok) (skip : nat) (acc rest : list tok) : list tok :=
  match fuel with
  | O => rev acc ++ rest
  | Datatypes.S fuel' =>
    match rest with
    | [] => rev acc
    | k :: r =>
      match skip with
      | Datatypes.S s => merge_loop fuel' c no_comma dom s (k :: acc) r
      | O =>
        let start :=
          if (tag k =? 0) || ((tag k =? 2) && all_digits (text k)) then
            negb (is_roman (text k) || has_any (block c) (text k) || ((1 <? byte_len (text k)) && has_any (dec c) (text k)))
          else (tag k =? 1) && negb (no_comma && str_eqb (text k) [44]) && has_any (dec c) (text k) in
        if negb start then merge_loop fuel' c no_comma dom 0 (k :: acc) r
        else
          let (n, not_num) := scan c no_comma false r in
          if not_num then merge_loop fuel' c no_comma dom (Datatypes.S n) (k :: acc) r     (* i = end + 1 *)
          else
            let span0 := k :: firstn n r in
            let span := if ignore_final c dom span0 then removelast span0 else span0 in
            let len := List.length span in
            if (Nat.ltb 1 len) && is_likely c dom span then
              let (a, z) := trim_span span in
              let core := firstn (len - a - z) (skipn a span) in
              match core with
              | f :: _ =>
                  let m := mktok 0 (merged_text core) false (idx f) in
                  (* children before the core stay, the core becomes one mn, the loop goes on right after it *)
                  merge_loop fuel' c no_comma (set_dom (idx f) m dom) 0 (m :: rev (firstn a span) ++ acc) (skipn (a + List.length core) (k :: r))
              | [] => merge_loop fuel' c no_comma dom 0 (k :: acc) r
              end
            else
              (* i = end; i += 1 : the span and the child that ended it are stepped over *)
              merge_loop fuel' c no_comma dom len (k :: acc) r
      end
    end
  end.

Definition merge_number_blocks (c : ctx) (row : list tok) : list tok :=
  merge_loop (Datatypes.S (List.length row)) c (comma_not_in_number row) row 0 [] row.
