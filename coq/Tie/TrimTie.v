(* C17 tie: the library's trim_element (hook: parse, trim, serialize) = the model, on hand-written and seeded documents
   with comments, processing instructions, blanks, stray text, embedded HTML and mglyph (empty texts forgotten on both sides:
   the serializer cannot show them). *)
From MC Require Import Lib.Base Gen.AssureSets Model.Trim Gen.TrimObs.
Local Open Scope N_scope.
Definition opt_eqb (a b : option str) : bool :=
  match a, b with Some x, Some y => str_eqb x y | None, None => true | _, _ => false end.
Fixpoint xnode_eqb (a b : xnode) : bool :=
  match a, b with
  | XText s, XText s' => str_eqb s s'
  | XComment, XComment => true
  | XPI, XPI => true
  | XEl g alt kids, XEl g' alt' kids' =>
      str_eqb g g' && opt_eqb alt alt' &&
      (fix go (l l' : list xnode) : bool :=
         match l, l' with
         | [], [] => true
         | k :: r, k' :: r' => xnode_eqb k k' && go r r'
         | _, _ => false
         end) kids kids'
  | _, _ => false
  end.
Definition agree (o : xnode * xnode) : bool := xnode_eqb (erase (trim (fst o))) (erase (snd o)).
Fixpoint bad_idx (i : N) (l : list (xnode * xnode)) : list N :=
  match l with [] => [] | c :: r => if agree c then bad_idx (i + 1) r else i :: bad_idx (i + 1) r end.
Eval vm_compute in (40040004, bad_idx 0 trim_obs).
Lemma trim_tie_ok : forallb agree trim_obs = true.
Proof. vm_compute. reflexivity. Qed.
(* the spelling theorem is about these documents too: their bare forms trim to the same *)
Lemma trim_tie_bare : forallb (fun o => xnode_eqb (erase (trim (bare false (fst o)))) (erase (snd o))) trim_obs = true.
Proof. vm_compute. reflexivity. Qed.
